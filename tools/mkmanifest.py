#!/usr/bin/env python3
"""Generate /verif/MANIFEST.json from tools/props.d/*.json (single source of truth)."""
import glob, json, os
ROOT = os.path.dirname(os.path.dirname(os.path.abspath(__file__)))
props = {}
for p in sorted(glob.glob(os.path.join(ROOT, "tools", "props.d", "*.json"))):
    props.update(json.load(open(p)))
allids = [json.loads(l)["id"] for l in open(os.path.join(ROOT, "properties.jsonl")) if l.strip()]
hooks = json.load(open(os.path.join(ROOT, "tools", "hooks.json")))
checks, na = [], []
for pid in allids:
    c = props.get(pid)
    if not c or not c.get("claimed", True):
        na.append({"property_id": pid, "reason": (c or {}).get("na_reason", "check not built yet (see DESIGN.md section 2 for the planned generator and oracle)")})
        continue
    checks.append({
        "property_id": pid,
        "quick_cmd": "./check %s --tier quick" % pid,
        "thorough_cmd": "./check %s --tier thorough" % pid,
        "evidence_file": "/verif/evidence/%s.json" % pid,
        "replay_cmd_template": "./check %s --replay {path}" % pid,
        "engine": "harness",
        "level_claimed": {"category": c["level"], "text": c["level_text"], "design_ref": c.get("design_ref", "DESIGN.md section 2, " + pid)},
        "level_note": c["level_note"],
        "technique": c["technique"],
    })
m = {
    "version": 1,
    "setup_cmd": "cd /verif && ./tools/setup.sh",
    "hooks": hooks,
    "engines": [{"name": "harness", "path": "/verif/harness", "serves_properties": [c["property_id"] for c in checks],
                 "kind_free_text": "Go test module (pgregory.net/rapid v1.3.0 property-based tests, model-based/stateful generation, exhaustive crash-point enumeration per generated scenario, native go fuzzing in the thorough tier) built against /repo's working tree with build tag verif; driven by /verif/check"}],
    "checks": checks,
    "notes": "exit 0 = held on everything explored; exit 1 = VIOLATION line(s); exit 2 = inconclusive (build failure, shard death, degenerate generator). Open known findings are listed in /verif/known_findings.json and reported as KNOWN-FINDING lines.",
    "not_applicable": na,
}
json.dump(m, open(os.path.join(ROOT, "MANIFEST.json"), "w"), indent=1)
print("claimed:", len(checks), "not_applicable:", len(na))
