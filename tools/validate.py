#!/opt/veriftools/pyvenv/bin/python3
import json, jsonschema, glob, sys
jsonschema.validate(json.load(open('/verif/MANIFEST.json')), json.load(open('/root/.vp/MANIFEST.schema.json')))
for p in glob.glob('/verif/evidence/*.json'):
    jsonschema.validate(json.load(open(p)), json.load(open('/root/.vp/EVIDENCE.schema.json')))
print('valid')
