#!/usr/bin/env python3
import json, sys
pid = sys.argv[1]
mut = sys.argv[2]
exp = sys.argv[3]
props = {json.loads(l)["id"]: json.loads(l) for l in open('/verif/properties.jsonl') if l.strip()}
p = props[pid]
t = open('/verif/tools/agent_prompt.tmpl').read()
out = t.replace('{ID}', pid).replace('{pkg}', pid.lower()).replace('{TITLE}', p['title']).replace('{STATEMENT}', p['statement']).replace('{MUTANTS}', mut).replace('{EXPECT}', exp)
print(out)
