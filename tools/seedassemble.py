#!/usr/bin/env python3
"""Assemble one round of seeded changes into /verif/seeded/<ID>-r<N>/.

Usage: tools/seedassemble.py <round> <dir with out-Cxx/ sub-directories> [ID ...]

For every out-<ID>/ (written by a fresh sub-agent: patch.diff, demo.md, meta.json, demonstration test files;
confirm.txt written by tools/seedconfirm.sh) this runs tools/seedeval.sh <ID> patch.diff [extra checks] against
/repo itself (apply, quick check, undo) and records the result under confirmed_by_main in meta.json.
Extra checks and notes per seed come from <dir>/extra.json: {"C05": {"checks": ["C15"], "note": "..."}}.
"""
import json
import os
import re
import shutil
import subprocess
import sys

ROOT = os.path.dirname(os.path.dirname(os.path.abspath(__file__)))


def main():
    rnd, src = sys.argv[1], sys.argv[2]
    only = sys.argv[3:]
    extra = {}
    if os.path.exists(os.path.join(src, "extra.json")):
        extra = json.load(open(os.path.join(src, "extra.json")))
    summary = []
    for d in sorted(os.listdir(src)):
        if not d.startswith("out-C") or not os.path.isdir(os.path.join(src, d)):
            continue
        pid = d[4:]
        if only and pid not in only:
            continue
        sdir = os.path.join(src, d)
        dst = os.path.join(ROOT, "seeded", "%s-r%s" % (pid, rnd))
        os.makedirs(dst, exist_ok=True)
        for f in os.listdir(sdir):
            if f in ("confirm.txt", "meta.json") or f.endswith(".log"):
                continue
            p = os.path.join(sdir, f)
            if os.path.isdir(p):
                shutil.copytree(p, os.path.join(dst, f), dirs_exist_ok=True)
            else:
                shutil.copy(p, os.path.join(dst, f))
        meta = json.load(open(os.path.join(sdir, "meta.json")))
        meta["breaks_property"] = pid
        meta["origin"] = ("fresh sub-agent given only the property text, one line per idea already tried in earlier rounds, "
                          "and a scratch worktree of /repo (round %s)" % rnd)
        conf = open(os.path.join(sdir, "confirm.txt")).read() if os.path.exists(os.path.join(sdir, "confirm.txt")) else ""
        ex = extra.get(pid, {})
        checks = [pid] + ex.get("checks", [])
        r = subprocess.run([os.path.join(ROOT, "tools", "seedeval.sh"), pid, os.path.join(dst, "patch.diff")] + (checks if len(checks) > 1 else []),
                           stdout=subprocess.PIPE, stderr=subprocess.STDOUT, text=True)
        out = r.stdout
        per = {}
        cur = None
        replays = []
        first_msg = ""
        for line in out.splitlines():
            m = re.match(r"== check (\S+) rc=(\d+)", line)
            if m:
                cur = m.group(1)
                per[cur] = int(m.group(2))
                continue
            m = re.match(r"VIOLATION property=\S+ replay=(\S+)", line)
            if m:
                replays.append(os.path.basename(m.group(1)))
            elif cur and not first_msg and ("failed" in line or "replay" in line or "regression" in line):
                first_msg = line.strip()[:400]
        caught = [c for c, rc in per.items() if rc == 1]
        meta["confirmed_by_main"] = {
            "what_i_ran": [
                "tools/seedconfirm.sh %s <agent worktree> <out dir>: fresh worktree of /repo HEAD; demonstration without the change, "
                "git apply patch.diff, go build, demonstration with the change, existing tests of the touched module(s)" % pid,
                "tools/seedeval.sh %s patch.diff %s: git -C /repo apply patch.diff; ./check <ID> (quick) for %s; git -C /repo checkout -- ."
                % (pid, " ".join(checks[1:]), ", ".join(checks)),
            ],
            "demo_passes_without_change": "demo without change: rc=0" in conf,
            "demo_fails_with_change": bool(re.search(r"demo with change: rc=[1-9]", conf)),
            "existing_tests_pass": bool(re.search(r"existing tests in \S+: pass", conf)) and "existing tests in .: FAIL" not in conf,
            "caught_by_check": ",".join(caught) if caught else None,
            "check_exit": per,
            "violation_replays": replays[:4],
            "first_message": first_msg,
        }
        if ex.get("note"):
            meta["confirmed_by_main"]["note"] = ex["note"]
        json.dump(meta, open(os.path.join(dst, "meta.json"), "w"), indent=1)
        line = "%s-r%s: %s %s" % (pid, rnd, "CAUGHT by " + ",".join(caught) if caught else "MISSED", per)
        print(line, flush=True)
        summary.append(line)
        if r.returncode == 2:
            print(out[-1500:])
    open(os.path.join(src, "assemble-summary.txt"), "w").write("\n".join(summary) + "\n")


if __name__ == "__main__":
    main()
