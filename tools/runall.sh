#!/bin/sh
# Run one tier of every claimed check, one after the other, and print one line per check.
# Usage: tools/runall.sh [quick|thorough] [log dir]   (VERIF_SEED / VERIF_EVIDENCE_DIR are passed through)
tier="${1:-quick}"; logs="${2:-/verif/.build/runall-$tier}"
cd "$(dirname "$0")/.."; mkdir -p "$logs"
fail=0
for p in $(python3 -c "import json;print(' '.join(x['property_id'] for x in json.load(open('MANIFEST.json'))['checks']))" 2>/dev/null || ls tools/props.d | sed 's/.json//'); do
  s=$(date +%s); ./check "$p" --tier "$tier" > "$logs/$p.log" 2>&1; rc=$?; e=$(date +%s)
  echo "$p rc=$rc wall=$((e-s))s $(grep -E '^(OK|VIOLATION|INCONCLUSIVE|KNOWN-FINDING)' "$logs/$p.log" | tail -1 | cut -c1-220)"
  [ $rc -ne 0 ] && fail=1
done
exit $fail
