#!/bin/bash
# Confirm a seeded change produced by a sub-agent: in a fresh scratch worktree of /repo HEAD
#  1. the demonstration passes WITHOUT the change, 2. the change applies and compiles,
#  3. the demonstration FAILS with the change, 4. the touched module's existing tests still pass,
#  5. the property's own check (and optional others) is run against it with VERIF_REPO.
# Usage: tools/seedconfirm.sh <ID> <agent-worktree> <out-dir> [extra check IDs...]
set -u
export VERIF_EVIDENCE_DIR=/verif/.build/evidence-scratch
id="$1"; awt="$2"; out="$3"; shift 3
extra="$*"
export GOFLAGS=-mod=mod GOPROXY=off
wt=/tmp/seedconfirm-$id
git -C /repo worktree remove --force $wt >/dev/null 2>&1
git -C /repo worktree add -q $wt HEAD || exit 2
res=$out/confirm.txt; : > $res
log() { echo "$@" | tee -a $res; }
# demo files = untracked files in the agent's worktree
demos=$(git -C $awt status --porcelain | awk '$1=="??"{print $2}')
for f in $demos; do mkdir -p $wt/$(dirname $f); cp -r $awt/$f $wt/$f; done
log "demo files: $demos"
demo_cmd=$(python3 -c "import json;print(json.load(open('$out/meta.json')).get('demo_cmd',''))")
demo_cmd=${demo_cmd//$awt/$wt}
log "demo_cmd: $demo_cmd"
run_demo() { (cd $wt && timeout 600 bash -c "$demo_cmd" > /tmp/seedconfirm-$id.demo.log 2>&1); echo $?; }
rc0=$(run_demo); log "demo without change: rc=$rc0 (expect 0)"
if ! git -C $wt apply --check $out/patch.diff 2>>$res; then log "PATCH DOES NOT APPLY"; git -C /repo worktree remove --force $wt; exit 2; fi
git -C $wt apply $out/patch.diff
mods=$(git -C $wt diff --name-only | while read f; do d=$(dirname $f); while [ "$d" != "." ] && [ ! -f $wt/$d/go.mod ]; do d=$(dirname $d); done; echo $d; done | sort -u)
log "touched modules: $mods"
for m in $mods; do (cd $wt/$m && go build ./... 2>&1 | tail -3) >> $res; done
rc1=$(run_demo); log "demo with change: rc=$rc1 (expect non-zero)"; tail -5 /tmp/seedconfirm-$id.demo.log >> $res
# existing tests of the touched modules, without the demo files
for f in $demos; do rm -rf $wt/$f; done
for m in $mods; do
  pk="./..."; if [ "$m" = "." ]; then pk="./block/... ./types/... ./pkg/cache/... ./pkg/cmd/... ./pkg/config/... ./pkg/store/... ./pkg/signer/... ./pkg/sync/... ./pkg/rpc/... ./node/..."; fi
  (cd $wt/$m && go test -count=1 $pk 2>&1 | grep -v "^ok\|no test files" | tail -8) > /tmp/seedconfirm-$id.tests.log
  if [ -s /tmp/seedconfirm-$id.tests.log ]; then log "existing tests in $m: FAILURES"; cat /tmp/seedconfirm-$id.tests.log >> $res; else log "existing tests in $m: pass"; fi
done
for c in $id $extra; do
  o=$(cd /verif && VERIF_REPO=$wt ./check $c 2>&1); rc=$?
  log "check $c against the change: rc=$rc $(echo "$o" | grep -E '^(VIOLATION|OK|INCONCLUSIVE)' | head -2 | cut -c1-200 | tr '\n' ' ')"
  echo "$o" | grep -E "rapid\] failed|regression scenario|replay .*:" | head -2 | cut -c1-500 >> $res
done
git -C /repo worktree remove --force $wt
rm -rf /verif/.build/mod/$id-* /verif/.build/$id-[0-9]*.test
