#!/bin/sh
# Offline setup: regenerate the harness module files from /repo and warm the build cache.
set -e
cd "$(dirname "$0")/.."
export GOFLAGS=-mod=mod GOPROXY=off
unset GOSUMDB GOTOOLCHAIN
python3 tools/genmod.py
cd harness
go build -tags verif ./world/ 
for d in c*/; do
  go test -tags verif -c -o /dev/null ./$d 2>&1 | tail -3 || true
done
echo setup done
