#!/usr/bin/env python3
"""Sensitivity testing (DESIGN 1.10): apply hand-written mutants to a scratch worktree of /repo and check that
the quick tier of the named checks exits 1. Usage: tools/mutants.py [name-substring ...]
Results are appended to /verif/seeded/mutants-report.jsonl."""
import json, os, subprocess, sys, time
ROOT = os.path.dirname(os.path.dirname(os.path.abspath(__file__)))
WT = "/tmp/mutwt"
M = []
def mut(name, file, old, new, props, module="."):
    M.append(dict(name=name, file=file, old=old, new=new, props=props, module=module))

mut("C01-drop-last-header-hash", "block/manager.go", "\t\t\tLastHeaderHash: lastHeaderHash,\n", "", ["C01"])
mut("C01-datahash-from-full-hash", "block/manager.go", "\t\theader.DataHash = blockData.DACommitment()\n", "\t\theader.DataHash = blockData.Hash()\n", ["C01"])
mut("C01-ts-guard-only-nonempty", "block/manager.go", "\t\tif batchData.Before(lastHeaderTime) {", "\t\tif len(batchData.Transactions) > 0 && batchData.Before(lastHeaderTime) {", ["C01"])
mut("C01-apphash-not-delayed", "block/manager.go", "\t\t\tAppHash:         m.lastState.AppHash,\n", "\t\t\tAppHash:         lastHeaderHash,\n", ["C01"])
mut("C04-height-before-state", "block/manager.go",
    "\tif err = m.updateState(ctx, newState); err != nil {\n\t\treturn fmt.Errorf(\"failed to update state: %w\", err)\n\t}\n\n\t// Update the store height before submitting to the DA layer but after committing to the DB\n\theaderHeight := header.Height()\n\tif err = m.store.SetHeight(ctx, headerHeight); err != nil {\n\t\treturn err\n\t}\n",
    "\theaderHeight := header.Height()\n\tif err = m.store.SetHeight(ctx, headerHeight); err != nil {\n\t\treturn err\n\t}\n\tif err = m.updateState(ctx, newState); err != nil {\n\t\treturn fmt.Errorf(\"failed to update state: %w\", err)\n\t}\n", ["C04"])
mut("C04-cache-written-in-place", "pkg/cache/cache.go", "\ttmpPath := filePath + \".tmp\"\n", "\ttmpPath := filePath\n", ["C04"])
mut("C04-block-save-not-atomic", "pkg/store/store.go", "\tif err := batch.Put(ctx, ds.NewKey(getHeaderKey(height)), headerBlob); err != nil {", "\tif err := s.db.Put(ctx, ds.NewKey(getHeaderKey(height)), headerBlob); err != nil {", ["C04", "C14"])
mut("C05-height-before-block", "block/sync.go",
    "\t\tif err = m.store.SaveBlockData(ctx, h, d, &h.Signature); err != nil {\n\t\t\treturn fmt.Errorf(\"failed to save block: %w\", err)\n\t\t}\n\n\t\tif err = m.updateState",
    "\t\tif err = m.store.SetHeight(ctx, hHeight); err != nil {\n\t\t\treturn err\n\t\t}\n\t\tif err = m.store.SaveBlockData(ctx, h, d, &h.Signature); err != nil {\n\t\t\treturn fmt.Errorf(\"failed to save block: %w\", err)\n\t\t}\n\n\t\tif err = m.updateState", ["C05"])
mut("C06-prefix-marked-all-submitted", "block/submitter.go", "\t\t\tsubmitted := remaining[:res.SubmittedCount]\n", "\t\t\tsubmitted := remaining\n", ["C06"])
mut("C06-pending-skips-one", "block/pending_base.go", "\tfor i := lastSubmitted + 1; i <= height; i++ {", "\tfor i := lastSubmitted + 2; i <= height; i++ {", ["C06"])
mut("C06-watermark-not-persisted", "block/pending_base.go", "\t\terr := pb.store.SetMetadata(ctx, pb.metaKey, bz)\n", "\t\tvar err error\n", ["C06"])
mut("C06-watermark-on-timeout", "block/submitter.go", "\t\tcase coreda.StatusNotIncludedInBlock, coreda.StatusAlreadyInMempool:\n", "\t\tcase coreda.StatusNotIncludedInBlock, coreda.StatusAlreadyInMempool:\n\t\t\tpostSubmit(remaining, &res, gasPrice)\n", ["C06"])
mut("C07-included-ignores-data", "block/manager.go", "\tisIncluded := m.headerCache.IsDAIncluded(headerHash.String()) && (bytes.Equal(dataHash, dataHashForEmptyTxs) || m.dataCache.IsDAIncluded(dataHash.String()))\n", "\t_ = dataHash\n\tisIncluded := m.headerCache.IsDAIncluded(headerHash.String())\n", ["C07"])
mut("C07-data-da-height-from-header", "block/manager.go", "\t\tbinary.LittleEndian.PutUint64(dataHeightBytes, daHeightForData)\n", "\t\tbinary.LittleEndian.PutUint64(dataHeightBytes, daHeightForHeader+daHeightForData-daHeightForData)\n", ["C07"])
mut("C07-two-heights-at-once", "block/da_includer.go", "\tnewHeight := currentHeight + 1\n", "\tnewHeight := currentHeight + 1\n\tif newHeight%3 == 0 {\n\t\tm.daIncludedHeight.Store(newHeight)\n\t\tcurrentHeight = newHeight\n\t}\n", ["C07"])
mut("C08-no-skip-empty", "block/submitter.go", "\t\t\tif len(signedDataToSubmit) == 0 && data.Metadata != nil {", "\t\t\tif false && len(signedDataToSubmit) == 0 && data.Metadata != nil {", ["C08"])
mut("C08-counter-off-by-initial", "block/manager.go", "\t\tpendingData.base.lastHeight.CompareAndSwap(0, genesis.InitialHeight-1)\n", "", ["C08", "C06"])
mut("C09-advance-on-error", "block/retriever.go", "\t\t\tif !m.areAllErrorsHeightFromFuture(err) {\n\t\t\t\tm.logger.Error(\"failed to retrieve data from DALC\", \"daHeight\", daHeight, \"errors\", err.Error())\n\t\t\t}\n\t\t\tcontinue\n", "\t\t\tif !m.areAllErrorsHeightFromFuture(err) {\n\t\t\t\tm.logger.Error(\"failed to retrieve data from DALC\", \"daHeight\", daHeight, \"errors\", err.Error())\n\t\t\t\tm.daHeight.Store(daHeight + 1)\n\t\t\t}\n\t\t\tcontinue\n", ["C09"])
mut("C09-header-classified-only", "block/retriever.go", "\t\t\t\tif m.handlePotentialHeader(ctx, bz, daHeight) {\n\t\t\t\t\tcontinue\n\t\t\t\t}\n\t\t\t\tm.handlePotentialData(ctx, bz, daHeight)\n", "\t\t\t\tif m.handlePotentialHeader(ctx, bz, daHeight) {\n\t\t\t\t\tcontinue\n\t\t\t\t}\n\t\t\t\tif len(blobsResp.Data) < 100 {\n\t\t\t\t\tm.handlePotentialData(ctx, bz, daHeight)\n\t\t\t\t}\n", ["C09"])
mut("C09-chunk-error-ignored", "types/da.go", "\t\t\treturn coreda.ResultRetrieve{\n\t\t\t\tBaseResult: coreda.BaseResult{\n\t\t\t\t\tCode:    coreda.StatusError,\n\t\t\t\t\tMessage: fmt.Sprintf(\"failed to get blobs for batch %d-%d: %s\", i, end-1, err.Error()),\n\t\t\t\t\tHeight:  dataLayerHeight,\n\t\t\t\t},\n\t\t\t}\n", "\t\t\tcontinue\n", ["C09"])
mut("C11-seen-before-handoff", "block/reaper.go", "\t\tif !has {\n\t\t\tnewTxs = append(newTxs, tx)\n\t\t}\n", "\t\tif !has {\n\t\t\tnewTxs = append(newTxs, tx)\n\t\t\t_ = r.seenStore.Put(r.ctx, key, []byte{1})\n\t\t}\n", ["C11"])
mut("C11-batch-reversed", "block/manager.go", "\t\t\tblockData.Txs[i] = types.Tx(batchData.Transactions[i])\n", "\t\t\tblockData.Txs[len(batchData.Transactions)-1-i] = types.Tx(batchData.Transactions[i])\n", ["C11", "C01"])
mut("C02-no-empty-data-shortcut", "block/sync.go", "\t\t\tm.handleEmptyDataHash(ctx, &header.Header)\n", "", ["C02"])
mut("C02-cache-by-wrong-height", "block/sync.go", "\t\t\tm.dataCache.SetItem(dataHeight, data)\n", "\t\t\tm.dataCache.SetItem(dataHeight+uint64(len(data.Txs))%2, data)\n", ["C02"])
mut("C02-seen-by-commitment-only", "block/sync.go", "\treturn dataHash + \"/\" + strconv.FormatUint(height, 10)\n", "\t_ = strconv.Itoa\n\treturn dataHash\n", ["C02"])
mut("C03-no-key-binding-header", "types/signed_header.go", "\tif sh.Signer.PubKey == nil || !bytes.Equal(KeyAddress(sh.Signer.PubKey), sh.Signer.Address) {\n\t\treturn ErrProposerAddressMismatch\n\t}\n", "", ["C03"])
mut("C03-no-key-binding-data", "block/manager.go", "\tif signedData.Signer.PubKey == nil || !bytes.Equal(types.KeyAddress(signedData.Signer.PubKey), m.genesis.ProposerAddress) {\n\t\treturn false\n\t}\n", "", ["C03"])
mut("C03-admission-skips-validate", "block/manager.go", "\treturn bytes.Equal(header.ProposerAddress, m.genesis.ProposerAddress) && header.ValidateBasic() == nil\n", "\treturn bytes.Equal(header.ProposerAddress, m.genesis.ProposerAddress)\n", ["C03"])
mut("C03-validate-promoted-again", "types/signed_header.go", "func (sh *SignedHeader) Validate() error {\n\treturn sh.ValidateBasic()\n}\n", "", ["C03"])
mut("C13-submission-loop-ignores-stop", "block/submitter.go", "\t\tcase <-ctx.Done():\n\t\t\tm.logger.Info(\"header submission loop stopped\")\n\t\t\treturn\n", "", ["C13"])
mut("C13-startup-sleep-again", "block/aggregation.go", "\t\tselect {\n\t\tcase <-ctx.Done():\n\t\t\treturn\n\t\tcase <-time.After(delay):\n\t\t}\n", "\t\ttime.Sleep(delay)\n", ["C13"])
mut("C13-last-state-unlocked", "block/manager.go", "func (m *Manager) getLastBlockTime() time.Time {\n\tm.lastStateMtx.RLock()\n\tdefer m.lastStateMtx.RUnlock()\n", "func (m *Manager) getLastBlockTime() time.Time {\n", ["C13"])

def sh(cmd, **kw):
    return subprocess.run(cmd, shell=True, stdout=subprocess.PIPE, stderr=subprocess.STDOUT, text=True, **kw)

def main():
    sel = sys.argv[1:]
    sh("git -C /repo worktree remove --force %s" % WT)
    r = sh("git -C /repo worktree add %s HEAD" % WT)
    if r.returncode != 0:
        print(r.stdout); return 2
    os.makedirs(os.path.join(ROOT, "seeded"), exist_ok=True)
    rep = open(os.path.join(ROOT, "seeded", "mutants-report.jsonl"), "a")
    env = dict(os.environ, GOFLAGS="-mod=mod", GOPROXY="off", VERIF_REPO=WT, VERIF_EVIDENCE_DIR=os.path.join(ROOT, ".build", "evidence-scratch"))
    try:
        for m in M:
            if sel and not any(s in m["name"] for s in sel):
                continue
            sh("git -C %s checkout -- ." % WT)
            p = os.path.join(WT, m["file"])
            src = open(p).read()
            if m["old"] not in src:
                print("%-40s MUTANT DOES NOT APPLY" % m["name"]); continue
            open(p, "w").write(src.replace(m["old"], m["new"], 1))
            b = sh("cd %s && go build ./... 2>&1 | tail -5" % os.path.join(WT, m["module"]), env=env)
            if b.stdout.strip():
                print("%-40s DOES NOT COMPILE: %s" % (m["name"], b.stdout.strip()[:200])); continue
            res = {}
            for pid in m["props"]:
                t0 = time.time()
                r = sh("cd %s && ./check %s" % (ROOT, pid), env=env)
                lines = [l for l in r.stdout.splitlines() if l.startswith(("VIOLATION", "OK ", "INCONCLUSIVE"))]
                res[pid] = {"rc": r.returncode, "wall": round(time.time() - t0, 1), "line": (lines[-1] if lines else r.stdout[-200:])[:160]}
            caught = [pid for pid, v in res.items() if v["rc"] == 1]
            print("%-40s %s %s" % (m["name"], "CAUGHT by " + ",".join(caught) if caught else "MISSED", {k: v["rc"] for k, v in res.items()}))
            sys.stdout.flush()
            rep.write(json.dumps({"mutant": m["name"], "file": m["file"], "results": res, "caught_by": caught}) + "\n"); rep.flush()
    finally:
        sh("git -C /repo worktree remove --force %s" % WT)
        sh("rm -rf %s/.build/mod/*-* %s/.build/*-[0-9]*.test" % (ROOT, ROOT))
    return 0

if __name__ == "__main__":
    sys.exit(main())
