#!/bin/sh
# Evaluate a seeded change: apply <patch> to /repo, run the quick checks given (default: the property's own),
# undo the change. Usage: tools/seedeval.sh <ID> <patch.diff> [ID...]
# Exit status: 0 if at least one check reported a VIOLATION (caught), 1 if none did, 2 on setup problems.
set -u
export VERIF_EVIDENCE_DIR=/verif/.build/evidence-scratch
cd "$(dirname "$0")/.."
id="$1"; patch="$2"; shift 2
checks="${*:-$id}"
if [ -n "$(git -C /repo status --porcelain)" ]; then echo "seedeval: /repo is not clean"; exit 2; fi
if ! git -C /repo apply --check "$patch"; then echo "seedeval: patch does not apply"; exit 2; fi
git -C /repo apply "$patch"
caught=1
for c in $checks; do
  out=$(./check "$c" --tier "${VERIF_TIER:-quick}" 2>&1); rc=$?
  echo "== check $c rc=$rc"
  echo "$out" | grep -E "^(VIOLATION|KNOWN-FINDING|OK|INCONCLUSIVE)" | cut -c1-300
  echo "$out" | grep -E "rapid\] failed|replay .*: |regression scenario" | head -3 | cut -c1-400
  if [ $rc -eq 1 ]; then caught=0; fi
done
git -C /repo checkout -- .
if [ -n "$(git -C /repo status --porcelain)" ]; then echo "seedeval: WARNING /repo not clean after undo"; git -C /repo status --short; fi
exit $caught
