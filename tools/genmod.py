#!/usr/bin/env python3
"""Regenerate /verif/harness/go.mod and go.sum from /repo's current working tree.

The harness module requires the UNION of all `require` lines (highest version per module)
of the /repo modules it imports, because with a pruned module graph a minimal requirement
list makes `go` look modules up on the network (fails offline).  go.sum is the sort -u
union of those modules' go.sum files plus the sums for rapid (kept in tools/extra.sum).
"""
import os
import re
import sys

REPO = os.environ.get("VERIF_REPO", "/repo")
HARNESS = os.path.join(os.path.dirname(os.path.dirname(os.path.abspath(__file__))), "harness")
MODS = {
    "github.com/evstack/ev-node": ".",
    "github.com/evstack/ev-node/core": "core",
    "github.com/evstack/ev-node/da": "da",
    "github.com/evstack/ev-node/sequencers/single": "sequencers/single",
    "github.com/evstack/ev-node/sequencers/based": "sequencers/based",
    "github.com/evstack/ev-node/apps/testapp": "apps/testapp",
}
EXTRA = {"pgregory.net/rapid": "v1.3.0"}


def vkey(v):
    # semantic-ish version ordering good enough for "max"
    m = re.match(r"v(\d+)\.(\d+)\.(\d+)(.*)", v)
    if not m:
        return (0, 0, 0, v)
    pre = m.group(4)
    # a release sorts after its pre-releases
    return (int(m.group(1)), int(m.group(2)), int(m.group(3)), 1 if pre == "" or pre.startswith("+") else 0, pre)


def parse_requires(path):
    req = {}
    inblock = False
    for line in open(path):
        line = line.split("//")[0].strip()
        if not line:
            continue
        if line.startswith("require ("):
            inblock = True
            continue
        if inblock and line == ")":
            inblock = False
            continue
        if inblock:
            parts = line.split()
            if len(parts) >= 2:
                req[parts[0]] = parts[1]
        elif line.startswith("require "):
            parts = line.split()
            if len(parts) >= 3:
                req[parts[1]] = parts[2]
    return req


def main():
    union = {}
    sums = set()
    for mod, rel in MODS.items():
        gm = os.path.join(REPO, rel, "go.mod")
        for k, v in parse_requires(gm).items():
            if k in MODS:
                continue
            if k not in union or vkey(v) > vkey(union[k]):
                union[k] = v
        gs = os.path.join(REPO, rel, "go.sum")
        if os.path.exists(gs):
            sums.update(l.rstrip("\n") for l in open(gs) if l.strip())
    for k, v in EXTRA.items():
        union[k] = v
    extra_sum = os.path.join(os.path.dirname(os.path.abspath(__file__)), "extra.sum")
    if os.path.exists(extra_sum):
        sums.update(l.rstrip("\n") for l in open(extra_sum) if l.strip())
    out = ["module verif/harness", "", "go 1.24.1", "", "require ("]
    for mod in MODS:
        out.append(f"\t{mod} v0.0.0-00010101000000-000000000000")
    for k in sorted(union):
        out.append(f"\t{k} {union[k]}")
    out.append(")")
    out.append("")
    out.append("replace (")
    for mod, rel in MODS.items():
        out.append(f"\t{mod} => {os.path.normpath(os.path.join(REPO, rel))}")
    out.append(")")
    out.append("")
    gomod = "\n".join(out)
    outdir = sys.argv[1] if len(sys.argv) > 1 else HARNESS
    os.makedirs(outdir, exist_ok=True)
    p = os.path.join(outdir, "go.mod")
    old = open(p).read() if os.path.exists(p) else None
    if old != gomod:
        open(p, "w").write(gomod)
    gosum = "\n".join(sorted(sums)) + "\n"
    p = os.path.join(outdir, "go.sum")
    old = open(p).read() if os.path.exists(p) else None
    if old != gosum:
        open(p, "w").write(gosum)


if __name__ == "__main__":
    main()
