// Package c04 decides C04: the sequencer node recovers from a crash at any durable-write
// boundary of block production (nested crashes during recovery included).
package c04

import (
	"bytes"
	"fmt"
	"regexp"
	"strings"
	"testing"

	"pgregory.net/rapid"

	"verif/harness/pw"
	"verif/harness/world"
)

type Scenario struct {
	InitialHeight uint64    `json:"initial_height"`
	Prefix        []pw.Step `json:"prefix"`
	Victim        pw.Step   `json:"victim"`
	After         []pw.Step `json:"after"`
	// Depth3 samples a third crash (index into the ops of the second recovery step, modulo).
	Depth3 int `json:"depth3,omitempty"`
	// RefExec: the node runs the REAL reference execution layer (apps/testapp KVExecutor), whose database
	// dies with the process; crash points then include the executor's own durable writes.
	RefExec bool `json:"ref_exec,omitempty"`
	// HLoss / DLoss: at every crash the header / data P2P store loses its newest HLoss / DLoss items (the real
	// stores write to disk in the background, each on its own).
	HLoss int `json:"h_loss,omitempty"`
	DLoss int `json:"d_loss,omitempty"`
}

func kvify(st pw.Step) pw.Step {
	if len(st.Seq.Txs) > 0 {
		txs := make([][]byte, len(st.Seq.Txs))
		for i, tx := range st.Seq.Txs {
			txs[i] = world.KVTx(tx)
		}
		st.Seq.Txs = txs
	}
	return st
}

func genTxs(t *rapid.T, label string) [][]byte {
	n := rapid.IntRange(1, 4).Draw(t, label+"n")
	out := make([][]byte, n)
	for i := range out {
		out[i] = rapid.SliceOfN(rapid.Byte(), 1, 24).Draw(t, label)
	}
	return out
}

func genGood(t *rapid.T, label string) pw.Step {
	if rapid.IntRange(0, 2).Draw(t, label+"kind") == 0 {
		return pw.Step{Seq: world.SeqResp{Kind: "empty", DeltaNs: int64(rapid.IntRange(0, 2_000_000_000).Draw(t, label+"d"))}}
	}
	return pw.Step{Seq: world.SeqResp{Kind: "txs", Txs: genTxs(t, label+"tx"), DeltaNs: int64(rapid.IntRange(0, 2_000_000_000).Draw(t, label+"d"))}}
}

func genScenario(t *rapid.T) Scenario {
	var sc Scenario
	switch rapid.IntRange(0, 3).Draw(t, "ih") {
	case 0, 1:
		sc.InitialHeight = 1
	case 2:
		sc.InitialHeight = uint64(rapid.IntRange(2, 5).Draw(t, "ihs"))
	default:
		sc.InitialHeight = 1<<32 + uint64(rapid.IntRange(0, 3).Draw(t, "ihb"))
	}
	np := rapid.IntRange(0, 6).Draw(t, "nprefix")
	for i := 0; i < np; i++ {
		switch rapid.IntRange(0, 9).Draw(t, "pk") {
		case 0:
			sc.Prefix = append(sc.Prefix, pw.Step{Seq: world.SeqResp{Kind: "nilresp"}})
		case 1:
			sc.Prefix = append(sc.Prefix, pw.Step{Seq: world.SeqResp{Kind: "error"}})
		case 2:
			st := genGood(t, "p")
			st.ExecFail = true
			sc.Prefix = append(sc.Prefix, st)
		default:
			sc.Prefix = append(sc.Prefix, genGood(t, "p"))
		}
	}
	sc.Victim = genGood(t, "v")
	for i := 0; i < 3; i++ {
		sc.After = append(sc.After, genGood(t, "a"))
	}
	sc.Depth3 = rapid.IntRange(0, 7).Draw(t, "depth3")
	if rapid.IntRange(0, 2).Draw(t, "p2ploss") == 0 {
		sc.HLoss = rapid.IntRange(0, 3).Draw(t, "hloss")
		sc.DLoss = rapid.IntRange(0, 3).Draw(t, "dloss")
	}
	return sc
}

var numRe = regexp.MustCompile(`/[0-9]+`)

func opClass(o world.Op) string {
	ks := make([]string, len(o.Keys))
	for i, k := range o.Keys {
		k = strings.TrimPrefix(k, "/0")
		k = numRe.ReplaceAllString(k, "/N")
		if strings.HasPrefix(k, "/i/") {
			k = "/i/HASH"
		}
		ks[i] = k
	}
	return o.Kind + "(" + strings.Join(ks, ",") + ")"
}

type outcome struct {
	v world.Verdict
	// ops[i] = number of durable ops of crashable step i when it ran uncrashed (-1 otherwise)
	ops []int
	// class of the op at which the last crash was armed
	crashAt string
}

// runOnce replays the scenario with a crash armed at crashes[i] during crashable step i
// (step 0 = victim, then the After steps). crashes[i] == ops(step) means "die right after the step".
func runOnce(sc Scenario, crashes []int, dir string, io ...int) outcome {
	ioK := -1
	if len(io) > 0 {
		ioK = io[0]
	}
	out := outcome{}
	p, err := pw.New(world.NodeOpts{ChainID: "c04-chain", InitialHeight: sc.InitialHeight, RootDir: dir, RefExec: sc.RefExec})
	if err != nil {
		out.v = world.Fail("C04/start", "NewManager failed on a fresh store: %v", err)
		return out
	}
	for i, st := range sc.Prefix {
		r := p.Step(st)
		if r.Panic != nil {
			out.v = world.Fail("C04/panic", "prefix step %d panicked: %v", i, r.Panic)
			return out
		}
	}
	if pr := p.Oracle("after prefix", true, true); pr != nil {
		out.v = world.Fail("C04/prefix/"+pr.Sig, "%s", pr.Msg)
		return out
	}
	steps := append([]pw.Step{sc.Victim}, sc.After...)
	// hashes of blocks committed (height durable) or published, that must never change
	pinned := map[uint64][]byte{}
	pinnedData := map[uint64][]byte{}
	pin := func() {
		for h, hh := range p.HeaderHashes() {
			pinned[h] = hh
		}
		for _, hd := range p.N.HB.Payloads() {
			pinned[hd.Height()] = hd.Hash()
		}
		for h, dh := range p.DataHashes() {
			pinnedData[h] = dh
		}
		for _, d := range p.N.DB.Payloads() {
			if d.Metadata != nil {
				pinnedData[d.Metadata.Height] = d.Hash()
			}
		}
	}
	checkPinned := func(when string) *world.Problem {
		for h, hh := range pinned {
			hdr, err := p.N.Store.GetHeader(p.Ctx, h)
			if err != nil {
				return &world.Problem{Sig: "committed-block-lost", Msg: fmt.Sprintf("%s: block %d was committed/published before the crash and is gone: %v", when, h, err)}
			}
			if !bytes.Equal(hdr.Hash(), hh) {
				return &world.Problem{Sig: "committed-block-changed", Msg: fmt.Sprintf("%s: block %d was committed/published as %x and is now %x", when, h, hh, hdr.Hash())}
			}
		}
		for h, dh := range pinnedData {
			_, d, err := p.N.Store.GetBlockData(p.Ctx, h)
			if err != nil {
				return &world.Problem{Sig: "committed-block-lost", Msg: fmt.Sprintf("%s: the data of block %d was committed/published before the crash and is gone: %v", when, h, err)}
			}
			if !bytes.Equal(d.Hash(), dh) {
				return &world.Problem{Sig: "committed-data-changed", Msg: fmt.Sprintf("%s: the data record of block %d was committed/published with hash %x and now hashes to %x", when, h, dh, d.Hash())}
			}
		}
		return nil
	}
	pin()
	crashedBefore := false
	for i, st := range steps {
		start := p.Raw.Ops()
		armed := i < len(crashes)
		if armed {
			p.Raw.ArmCrashAfter(crashes[i])
		}
		ioVictim := ioK >= 0 && i == 0
		if ioVictim {
			p.Raw.ArmErrorAfter(ioK) // this write fails with an I/O error; the process lives on
		}
		r := p.Step(st)
		p.Raw.Disarm()
		if r.Panic != nil {
			out.v = world.Fail("C04/panic", "step %d panicked: %v", i, r.Panic)
			return out
		}
		n := p.Raw.Ops() - start
		if ioVictim {
			if lg := p.Raw.Log(start); len(lg) > ioK {
				out.crashAt = "io-error:" + opClass(lg[ioK])
			}
			out.ops = append(out.ops, n)
			if r.Err != nil {
				// block production gave up: the aggregation loop reports the error, FullNode.Run shuts the node
				// down and it is started again on what is on disk
				if err := p.RestartOn(world.FromImage(p.Raw.Image())); err != nil {
					out.v = world.Fail("C04/restart-fails/"+out.crashAt, "node cannot start after a failed write (%s): %v", out.crashAt, err)
					return out
				}
				crashedBefore = true
			}
			if pr := p.Oracle(fmt.Sprintf("after the step with a failed write (%s)", out.crashAt), false, false); pr != nil {
				out.v = world.Fail("C04/"+pr.Sig, "%s", pr.Msg)
				return out
			}
			if pr := checkPinned(fmt.Sprintf("after the step with a failed write (%s)", out.crashAt)); pr != nil {
				out.v = world.Fail("C04/"+pr.Sig, "%s", pr.Msg)
				return out
			}
			pin()
			continue
		}
		if !r.Crashed {
			out.ops = append(out.ops, n)
			if crashedBefore || i > 0 {
				_ = n
			}
			// a completed step after a restart (or the uncrashed victim) must commit exactly one block
			if r.After != r.Before+1 {
				sig := "C04/wedged"
				if out.crashAt != "" {
					sig += "/crash-before:" + out.crashAt
				}
				out.v = world.Fail(sig, "step %d after restart did not commit a block (height %d -> %d, err=%v); last crash was armed before op %s", i, r.Before, r.After, r.Err, out.crashAt)
				return out
			}
			if pr := p.Oracle(fmt.Sprintf("after step %d (crashes %v)", i, crashes), true, false); pr != nil {
				out.v = world.Fail("C04/"+pr.Sig, "%s", pr.Msg)
				return out
			}
			if pr := checkPinned(fmt.Sprintf("after step %d (crashes %v)", i, crashes)); pr != nil {
				out.v = world.Fail("C04/"+pr.Sig, "%s", pr.Msg)
				return out
			}
			pin()
		} else {
			out.ops = append(out.ops, -1)
		}
		if armed {
			// process death: either inside the step (Crashed) or right after it
			if r.Crashed {
				lg := p.Raw.Log(start)
				if len(lg) > 0 {
					out.crashAt = opClass(lg[len(lg)-1])
				}
			} else {
				out.crashAt = "end-of-step"
			}
			img := p.Raw.Image()
			p.N.HStore.Rewind(sc.HLoss)
			p.N.DStore.Rewind(sc.DLoss)
			// what was durable at the moment of death is pinned too
			if err := p.RestartOn(world.FromImage(img)); err != nil {
				out.v = world.Fail("C04/restart-fails/crash-before:"+out.crashAt, "node cannot start on the image left by a crash before op %s: %v", out.crashAt, err)
				return out
			}
			crashedBefore = true
			if pr := p.Oracle(fmt.Sprintf("right after restart %d (crashes %v)", i, crashes), false, false); pr != nil {
				out.v = world.Fail("C04/"+pr.Sig, "%s", pr.Msg)
				return out
			}
			if pr := checkPinned(fmt.Sprintf("right after restart %d (crashes %v)", i, crashes)); pr != nil {
				out.v = world.Fail("C04/"+pr.Sig, "%s", pr.Msg)
				return out
			}
			pin()
		}
	}
	out.v = world.OK(true)
	return out
}

func run(sc Scenario, dir string) world.Verdict {
	base := runOnce(sc, nil, dir)
	if base.v.Violation != "" {
		return base.v
	}
	n0 := base.ops[0]
	runs, inside, nested := 1, 0, 0
	classes := map[string]bool{}
	for k := 0; k <= n0; k++ {
		o1 := runOnce(sc, []int{k}, dir)
		runs++
		if o1.v.Violation != "" {
			return o1.v
		}
		classes[o1.crashAt] = true
		if k > 0 && k < n0 {
			inside++
		}
		if len(o1.ops) < 2 || o1.ops[1] < 0 {
			continue
		}
		n1 := o1.ops[1]
		for j := 0; j <= n1; j++ {
			o2 := runOnce(sc, []int{k, j}, dir)
			runs++
			nested++
			if o2.v.Violation != "" {
				return o2.v
			}
			if world.Thorough() && len(o2.ops) >= 3 && o2.ops[2] >= 0 {
				l := sc.Depth3 % (o2.ops[2] + 1)
				o3 := runOnce(sc, []int{k, j, l}, dir)
				runs++
				if o3.v.Violation != "" {
					return o3.v
				}
			}
		}
	}
	// the same boundaries with a write that FAILS (I/O error) instead of a process death
	ioRuns := 0
	for k := 0; k < n0; k++ {
		o := runOnce(sc, nil, dir, k)
		ioRuns++
		if o.v.Violation != "" {
			return o.v
		}
		classes[o.crashAt] = true
	}
	v := world.OK(inside > 0 && nested > 0, fmt.Sprintf("victim-ops=%d", n0), "victim:"+sc.Victim.Seq.Kind)
	v.Counts = map[string]int{"crash-runs": runs, "nested-crash-runs": nested, "io-error-runs": ioRuns}
	for c := range classes {
		v.Labels = append(v.Labels, "crash-before:"+c)
	}
	return v
}

// TestC04ReferenceExecutor: the same exhaustive crash-point enumeration of block production with the
// repository's reference execution layer (apps/testapp KVExecutor) instead of the execution double.
func TestC04ReferenceExecutor(t *testing.T) {
	dir := t.TempDir()
	world.Run(t, "C04", "producer-crash-reference-executor", world.Scale(20, 100), func(t *rapid.T) Scenario {
		sc := genScenario(t)
		sc.RefExec = true
		for i := range sc.Prefix {
			sc.Prefix[i] = kvify(sc.Prefix[i])
		}
		sc.Victim = kvify(sc.Victim)
		for i := range sc.After {
			sc.After[i] = kvify(sc.After[i])
		}
		return sc
	}, func(sc Scenario) world.Verdict { return run(sc, dir) })
}

func TestC04(t *testing.T) {
	dir := t.TempDir()
	world.Run(t, "C04", "producer-crash", world.Scale(60, 300), genScenario, func(sc Scenario) world.Verdict { return run(sc, dir) })
}
