package c04

import (
	"context"
	"fmt"
	"os"
	"os/exec"
	"path/filepath"
	"strconv"
	"strings"
	"testing"
	"time"

	"pgregory.net/rapid"

	"github.com/evstack/ev-node/types"

	"verif/harness/world"
)

// CacheScenario: contents of the header/data caches saved at shutdown, and whether complete
// cache files from an earlier shutdown already exist.
type CacheScenario struct {
	NH    int  `json:"n_header_entries"`
	ND    int  `json:"n_data_entries"`
	Prior bool `json:"prior_files_exist"`
}

func TestMain(m *testing.M) {
	if dir := os.Getenv("VERIF_C04_HELPER"); dir != "" {
		nh, _ := strconv.Atoi(os.Getenv("VERIF_C04_NH"))
		nd, _ := strconv.Atoi(os.Getenv("VERIF_C04_ND"))
		if err := helperSaveCache(dir, nh, nd, os.Getenv("VERIF_C04_LABEL")); err != nil {
			fmt.Println("helper error:", err)
			os.Exit(3)
		}
		os.Exit(0)
	}
	os.Exit(m.Run())
}

func cacheNode(dir string) (*world.Node, error) {
	sgn, _, pub := world.SignerFromSeed("proposer")
	o := world.NodeOpts{ChainID: "c04-cache", InitialHeight: 1, GenesisTime: genesisTime(), Aggregator: true, RootDir: dir}
	return world.NewNode(context.Background(), o, world.NewCrashDS(), sgn, pub, world.NewExecDbl("c04c"), world.NewSeqDbl(genesisTime), world.NewDADbl(0))
}

// helperSaveCache is what the node does at shutdown: fill the caches and SaveCache().
func helperSaveCache(dir string, nh, nd int, label string) error {
	n, err := cacheNode(dir)
	if err != nil {
		return err
	}
	for i := 0; i < nh; i++ {
		h := &types.SignedHeader{Header: types.Header{BaseHeader: types.BaseHeader{Height: uint64(i + 1), ChainID: label, Time: uint64(1000 + i)}, ProposerAddress: []byte(label)}}
		n.M.HeaderCache().SetItem(uint64(i+1), h)
		n.M.HeaderCache().SetSeen(h.Hash().String())
		n.M.HeaderCache().SetDAIncluded(h.Hash().String(), uint64(10+i))
	}
	for i := 0; i < nd; i++ {
		d := &types.Data{Metadata: &types.Metadata{ChainID: label, Height: uint64(i + 1)}, Txs: types.Txs{types.Tx(fmt.Sprintf("%s-tx-%d", label, i))}}
		n.M.DataCache().SetItem(uint64(i+1), d)
		n.M.DataCache().SetSeen(d.DACommitment().String())
		n.M.DataCache().SetDAIncluded(d.DACommitment().String(), uint64(20+i))
	}
	return n.M.SaveCache()
}

func cacheFiles(dir string) []string {
	out := []string{}
	for _, sub := range []string{"header", "data"} {
		for _, f := range []string{"items_by_height.gob", "items_by_hash.gob", "hashes.gob", "da_included.gob"} {
			p := filepath.Join(dir, "data", "cache", sub, f)
			out = append(out, p, p+".tmp")
		}
	}
	return out
}

func copyDir(src, dst string) error {
	return filepath.Walk(src, func(p string, info os.FileInfo, err error) error {
		if err != nil {
			return err
		}
		rel, _ := filepath.Rel(src, p)
		t := filepath.Join(dst, rel)
		if info.IsDir() {
			return os.MkdirAll(t, 0o755)
		}
		b, err := os.ReadFile(p)
		if err != nil {
			return err
		}
		return os.WriteFile(t, b, 0o644)
	})
}

func runHelper(dir string, sc CacheScenario, label string, straceArgs []string) (int, string) {
	self, _ := os.Executable()
	args := append([]string{}, straceArgs...)
	var cmd *exec.Cmd
	if len(args) > 0 {
		args = append(args, self, "-test.run=^$")
		cmd = exec.Command("strace", args...)
	} else {
		cmd = exec.Command(self, "-test.run=^$")
	}
	cmd.Env = append(os.Environ(), "VERIF_C04_HELPER="+dir, "VERIF_C04_NH="+strconv.Itoa(sc.NH), "VERIF_C04_ND="+strconv.Itoa(sc.ND), "VERIF_C04_LABEL="+label)
	out, err := cmd.CombinedOutput()
	if err == nil {
		return 0, string(out)
	}
	if ee, ok := err.(*exec.ExitError); ok {
		return ee.ExitCode(), string(out)
	}
	return -1, err.Error() + string(out)
}

func firstLine(s string) string {
	if i := strings.IndexByte(s, '\n'); i >= 0 {
		s = s[:i]
	}
	if len(s) > 160 {
		s = s[:160]
	}
	return s
}

func runCache(sc CacheScenario, tmp string) world.Verdict {
	base, err := os.MkdirTemp(tmp, "base")
	if err != nil {
		return world.Verdict{Excluded: true}
	}
	defer os.RemoveAll(base)
	if sc.Prior {
		if rc, out := runHelper(base, CacheScenario{NH: 3, ND: 2}, "prior", nil); rc != 0 {
			return world.Fail("C04/cache-helper", "helper failed without injection: rc=%d %s", rc, out)
		}
	}
	runs, killed := 0, 0
	perSyscall := map[string]int{}
	for _, scall := range []string{"openat", "write", "renameat", "renameat2", "rename", "fsync"} {
		for k := 1; k < 400; k++ {
			work, _ := os.MkdirTemp(tmp, "work")
			if err := copyDir(base, work); err != nil {
				os.RemoveAll(work)
				return world.Verdict{Excluded: true}
			}
			sa := []string{"-f", "-o", "/dev/null", "-e", "trace=" + scall, "-e", fmt.Sprintf("inject=%s:signal=KILL:when=%d", scall, k)}
			for _, f := range cacheFiles(work) {
				sa = append(sa, "-P", f)
			}
			rc, out := runHelper(work, sc, "new", sa)
			runs++
			if rc == 0 {
				os.RemoveAll(work)
				break // the helper survived: fewer than k such syscalls on the cache files
			}
			if rc != 137 && !strings.Contains(out, "illed") && rc != -1 {
				os.RemoveAll(work)
				if strings.Contains(out, "strace:") || strings.Contains(out, "ptrace(") {
					// the tracer itself failed (seen under load: "ptrace(PTRACE_LISTEN...): Input/output error"): the
					// case says nothing about the node
					return world.Verdict{Excluded: true, Labels: []string{"strace-failed-inconclusive"}, Observations: []string{"strace failed: " + firstLine(out)}}
				}
				return world.Fail("C04/cache-helper", "helper under strace failed unexpectedly (syscall %s, k=%d): rc=%d %s", scall, k, rc, out)
			}
			killed++
			perSyscall[scall]++
			// the node is started again on the directory the crash left behind
			if _, err := cacheNode(work); err != nil {
				os.RemoveAll(work)
				return world.Fail("C04/cachefile-unloadable", "node cannot start after a crash at %s #%d while writing the cache files (prior files: %v, %d/%d entries): %v", scall, k, sc.Prior, sc.NH, sc.ND, err)
			}
			os.RemoveAll(work)
		}
	}
	v := world.OK(killed >= 2, fmt.Sprintf("prior=%v", sc.Prior))
	v.Counts = map[string]int{"strace-runs": runs, "kills": killed}
	for s, n := range perSyscall {
		v.Counts["kills-at-"+s] = n
	}
	return v
}

func TestC04CacheFiles(t *testing.T) {
	if _, err := exec.LookPath("strace"); err != nil {
		t.Skip("strace not available")
	}
	tmp := t.TempDir()
	world.Run(t, "C04", "cachefile-crash", world.Scale(2, 4), func(t *rapid.T) CacheScenario {
		return CacheScenario{NH: rapid.IntRange(0, world.Scale(12, 50)).Draw(t, "nh"), ND: rapid.IntRange(0, world.Scale(12, 50)).Draw(t, "nd"), Prior: rapid.Bool().Draw(t, "prior")}
	}, func(sc CacheScenario) world.Verdict { return runCache(sc, tmp) })
}

func genesisTime() time.Time { return time.Unix(1_700_000_000, 0).UTC() }
