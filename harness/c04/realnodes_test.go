package c04

import (
	"testing"

	"verif/harness/rw"
	"verif/harness/world"
)

// TestC04RealNodes: the crash clause on a REAL aggregator (node.NewNode(...).Run: block store, single
// sequencer, reaper and the P2P sync stores share one datastore, as in a real node). The aggregator's
// process dies at a generated durable write and is started again on what is on disk: it must start, go on
// producing, keep a valid chain, and the full node must still end with the same chain. See package rw.
func TestC04RealNodes(t *testing.T) {
	dir := t.TempDir()
	world.Run(t, "C04", "real-nodes", world.Scale(4, 16), rw.GenCrash, func(sc rw.Scenario) world.Verdict {
		r := rw.Run(sc, dir)
		return r.Judge("C04", func() *world.Problem {
			if p := r.CheckAggregatorChain(); p != nil {
				return p
			}
			return r.CompareChains()
		})
	})
}
