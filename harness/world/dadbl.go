package world

import (
	"context"
	"crypto/sha256"
	"encoding/binary"
	"errors"
	"fmt"
	"math"
	"sync"
	"time"

	coreda "github.com/evstack/ev-node/core/da"
)

// SubmitResp is one scripted answer to a Submit call.
type SubmitResp struct {
	// Kind: accept | prefix | timeout | mempool | toobig | error | acklost | hang | seqerr | deadline |
	//       canceled | da-canceled
	Kind string `json:"kind"`
	// K is the number of blobs accepted for Kind=prefix (clamped to len-1, at least 0).
	K int `json:"k,omitempty"`
}

// FetchOutcome is one scripted outcome of examining a DA height.
type FetchOutcome struct {
	// Kind: ok | notfound | future | listerr | chunkerr
	Kind string `json:"kind"`
	// Chunk is the index of the Get call (0-based) that fails for Kind=chunkerr.
	Chunk int `json:"chunk,omitempty"`
	// Err selects the flavour of a listerr/chunkerr failure: "" generic error | deadline (wraps
	// context.DeadlineExceeded) | da-deadline (coreda.ErrContextDeadline) | hang (blocks until the
	// caller's context ends, then returns its error) | timeout (coreda.ErrTxTimedOut) | notfound (coreda.ErrBlobNotFound) |
	// lagging / nomethod (plain errors whose text says "... not found" about something else than blobs)
	Err string `json:"err,omitempty"`
}

func (d *DADbl) fetchErr(ctx context.Context, o FetchOutcome, what string) error {
	switch o.Err {
	case "deadline":
		return fmt.Errorf("dadbl: %s: %w", what, context.DeadlineExceeded)
	case "da-deadline":
		return fmt.Errorf("dadbl: %s: %w", what, coreda.ErrContextDeadline)
	case "timeout":
		return fmt.Errorf("dadbl: %s: %w", what, coreda.ErrTxTimedOut)
	case "notfound":
		// a DA node that lists the ids of a height but cannot serve (all of) the blobs yet
		return fmt.Errorf("dadbl: %s: %w", what, coreda.ErrBlobNotFound)
	case "lagging":
		// a DA node that has not synced the height yet (the wording of a header store)
		return errors.New("header: not found")
	case "nomethod":
		// an endpoint that is up while its DA module is not registered yet (a restarting DA node), or a
		// gateway in front of it
		return errors.New("RPC error (-32601): method 'da." + map[bool]string{true: "GetIDs", false: "Get"}[what == "listing"] + "' not found")
	case "hang":
		<-ctx.Done()
		return ctx.Err()
	}
	return errors.New("dadbl: " + what + " failed")
}

// DACall is one logged call on the DA double.
type DACall struct {
	Op      string   `json:"op"` // submit | getids | get
	Height  uint64   `json:"height,omitempty"`
	NBlobs  int      `json:"nblobs,omitempty"`
	Blobs   [][]byte `json:"-"`
	Kind    string   `json:"kind,omitempty"`   // blob kind for submit: header|data|other
	Result  string   `json:"result,omitempty"` // what was returned
	Stored  int      `json:"stored,omitempty"` // number of blobs that reached storage
	AtH     uint64   `json:"at,omitempty"`     // DA height the blobs were stored at
	NIDs    int      `json:"nids,omitempty"`
	Outcome string   `json:"outcome,omitempty"`
}

// StoredBlob is a blob on the DA double.
type StoredBlob struct {
	Height uint64
	ID     []byte
	Blob   []byte
	Third  bool // injected by a third party, not submitted by the node under test
}

// DADbl is a coreda.DA with a harness-controlled head height, scripted submit responses
// (separately for header and data submissions, recognised by KindOf) and scripted per-height
// fetch outcomes. One accepted Submit lands at one height (head+1), like Celestia/DummyDA.
type DADbl struct {
	mu sync.Mutex

	head     uint64
	byHeight map[uint64][]*StoredBlob
	byID     map[string]*StoredBlob
	seq      uint64

	MaxBlob uint64 // total size limit per Submit with DummyDA's prefix rule; 0 = unlimited

	// KindOf classifies a blob for script selection ("header", "data", other = "other").
	KindOf func([]byte) string

	scripts map[string][]SubmitResp // per kind; consumed from the front; empty = accept
	fetch   map[uint64][]FetchOutcome

	// AutoAdvance: every accepted submit advances head to the height it landed at.
	AutoAdvance bool

	calls []DACall

	getCount map[uint64]int // number of Get calls seen in the current examination of a height

	// Down, when set and true, makes every submission fail (an outage of the DA layer bounded in time,
	// whatever the number of attempts made during it). DownKind selects the failure (default "error").
	Down     func() bool
	DownKind string
	// ContentIDs: ids are derived from (height, content) instead of being unique per stored blob.
	ContentIDs bool
	// SubmitDelay: an accepted submission is answered only after this long, whatever happens to the caller's
	// context meanwhile (the DA layer has taken the blobs; the answer is on its way).
	SubmitDelay time.Duration

	dead func() bool
}

var _ coreda.DA = (*DADbl)(nil)

// NewDADbl creates a DA double with head height `head`.
func NewDADbl(head uint64) *DADbl {
	return &DADbl{
		head:        head,
		byHeight:    map[uint64][]*StoredBlob{},
		byID:        map[string]*StoredBlob{},
		scripts:     map[string][]SubmitResp{},
		fetch:       map[uint64][]FetchOutcome{},
		getCount:    map[uint64]int{},
		AutoAdvance: true,
		KindOf:      func([]byte) string { return "other" },
	}
}

// SetDeadFn links the double to a process-death flag: after death every call fails without effect.
func (d *DADbl) SetDeadFn(f func() bool) { d.dead = f }

func (d *DADbl) isDead() bool { return d.dead != nil && d.dead() }

// Head returns the current head height.
func (d *DADbl) Head() uint64 { d.mu.Lock(); defer d.mu.Unlock(); return d.head }

// SetHead sets the head height (never lowers it).
func (d *DADbl) SetHead(h uint64) {
	d.mu.Lock()
	defer d.mu.Unlock()
	if h > d.head {
		d.head = h
	}
}

// ForceHead sets the head height unconditionally (heights above it are "from the future").
func (d *DADbl) ForceHead(h uint64) {
	d.mu.Lock()
	defer d.mu.Unlock()
	d.head = h
}

// PushScript appends scripted responses for a blob kind.
func (d *DADbl) PushScript(kind string, rs ...SubmitResp) {
	d.mu.Lock()
	defer d.mu.Unlock()
	d.scripts[kind] = append(d.scripts[kind], rs...)
}

// ClearScripts drops all pending scripted submit responses (DA accepts from now on).
func (d *DADbl) ClearScripts() {
	d.mu.Lock()
	defer d.mu.Unlock()
	d.scripts = map[string][]SubmitResp{}
}

// ScriptLen returns the number of pending scripted responses for a kind.
func (d *DADbl) ScriptLen(kind string) int {
	d.mu.Lock()
	defer d.mu.Unlock()
	return len(d.scripts[kind])
}

// SetFetchScript sets the outcome script of a height (consumed one per examination; empty = ok).
func (d *DADbl) SetFetchScript(h uint64, o []FetchOutcome) {
	d.mu.Lock()
	defer d.mu.Unlock()
	d.fetch[h] = append([]FetchOutcome(nil), o...)
}

// Inject stores a third-party blob at height h (raising head if needed).
func (d *DADbl) Inject(h uint64, blob []byte) {
	d.mu.Lock()
	defer d.mu.Unlock()
	d.storeLocked(h, blob, true)
	if h > d.head {
		d.head = h
	}
}

// Place stores a blob at height h as if submitted by the node (not marked third-party).
func (d *DADbl) Place(h uint64, blob []byte) {
	d.mu.Lock()
	defer d.mu.Unlock()
	d.storeLocked(h, blob, false)
	if h > d.head {
		d.head = h
	}
}

func (d *DADbl) storeLocked(h uint64, blob []byte, third bool) *StoredBlob {
	d.seq++
	id := make([]byte, 16)
	binary.LittleEndian.PutUint64(id, h)
	binary.LittleEndian.PutUint64(id[8:], d.seq)
	if d.ContentIDs {
		// an id names (height, content), as the ids of DummyDA and of a commitment-addressed DA layer do: two
		// byte-identical blobs at one height are listed under the same id, twice
		sum := sha256.Sum256(blob)
		id = append(id[:8], sum[:]...)
	}
	sb := &StoredBlob{Height: h, ID: id, Blob: append([]byte(nil), blob...), Third: third}
	d.byHeight[h] = append(d.byHeight[h], sb)
	d.byID[string(id)] = sb
	return sb
}

// Calls returns a copy of the call log from index `from`.
func (d *DADbl) Calls(from int) []DACall {
	d.mu.Lock()
	defer d.mu.Unlock()
	if from > len(d.calls) {
		from = len(d.calls)
	}
	return append([]DACall(nil), d.calls[from:]...)
}

// NumCalls returns the length of the call log.
func (d *DADbl) NumCalls() int { d.mu.Lock(); defer d.mu.Unlock(); return len(d.calls) }

// Stored returns all stored blobs ordered by (height, position).
func (d *DADbl) Stored() []*StoredBlob {
	d.mu.Lock()
	defer d.mu.Unlock()
	hs := make([]uint64, 0, len(d.byHeight))
	for h := range d.byHeight {
		hs = append(hs, h)
	}
	sortU64(hs)
	out := []*StoredBlob{}
	for _, h := range hs {
		out = append(out, d.byHeight[h]...)
	}
	return out
}

// At returns the blobs stored at height h.
func (d *DADbl) At(h uint64) []*StoredBlob {
	d.mu.Lock()
	defer d.mu.Unlock()
	return append([]*StoredBlob(nil), d.byHeight[h]...)
}

func sortU64(a []uint64) {
	for i := 1; i < len(a); i++ {
		for j := i; j > 0 && a[j-1] > a[j]; j-- {
			a[j-1], a[j] = a[j], a[j-1]
		}
	}
}

func (d *DADbl) GasPrice(ctx context.Context) (float64, error)      { return 1, nil }
func (d *DADbl) GasMultiplier(ctx context.Context) (float64, error) { return 1.5, nil }

func (d *DADbl) Submit(ctx context.Context, blobs []coreda.Blob, gasPrice float64, ns []byte) ([]coreda.ID, error) {
	return d.SubmitWithOptions(ctx, blobs, gasPrice, ns, nil)
}

func (d *DADbl) SubmitWithOptions(ctx context.Context, blobs []coreda.Blob, gasPrice float64, ns []byte, options []byte) ([]coreda.ID, error) {
	if d.isDead() {
		return nil, ErrDead
	}
	if err := ctx.Err(); err != nil {
		return nil, err
	}
	if math.IsInf(gasPrice, 0) || math.IsNaN(gasPrice) {
		// what the node's DA client (da/jsonrpc, encoding/json underneath) answers for a price that has no
		// wire encoding: the request never reaches the DA layer
		return nil, fmt.Errorf("json: unsupported value: %v", gasPrice)
	}
	d.mu.Lock()
	kind := "other"
	if len(blobs) > 0 {
		kind = d.KindOf(blobs[0])
	}
	resp := SubmitResp{Kind: "accept"}
	if d.Down != nil && d.Down() {
		resp = SubmitResp{Kind: "error"}
		if d.DownKind != "" {
			resp.Kind = d.DownKind
		}
	} else if s := d.scripts[kind]; len(s) > 0 {
		resp = s[0]
		d.scripts[kind] = s[1:]
	}
	call := DACall{Op: "submit", NBlobs: len(blobs), Kind: kind}
	for _, b := range blobs {
		call.Blobs = append(call.Blobs, append([]byte(nil), b...))
	}
	finish := func(res string, stored int, at uint64) {
		call.Result = res
		call.Stored = stored
		call.AtH = at
		d.calls = append(d.calls, call)
	}
	store := func(n int) ([]coreda.ID, uint64) {
		h := d.head + 1
		ids := make([]coreda.ID, 0, n)
		for i := 0; i < n; i++ {
			sb := d.storeLocked(h, blobs[i], false)
			ids = append(ids, sb.ID)
		}
		if n > 0 && d.AutoAdvance {
			d.head = h
		}
		return ids, h
	}
	// size rule of DummyDA: error if an examined blob is itself oversize, else longest fitting prefix
	fit := len(blobs)
	if d.MaxBlob > 0 {
		var cur uint64
		fit = 0
		for _, b := range blobs {
			bl := uint64(len(b))
			if bl > d.MaxBlob {
				finish("toobig(single)", 0, 0)
				d.mu.Unlock()
				return nil, coreda.ErrBlobSizeOverLimit
			}
			if cur+bl > d.MaxBlob {
				break
			}
			cur += bl
			fit++
		}
	}
	switch resp.Kind {
	case "accept":
		ids, h := store(fit)
		finish(fmt.Sprintf("accept(%d)", fit), fit, h)
		delay := d.SubmitDelay
		d.mu.Unlock()
		if delay > 0 {
			time.Sleep(delay)
		}
		return ids, nil
	case "prefix":
		k := resp.K
		if k >= fit {
			k = fit - 1
		}
		if k < 1 {
			// accepting zero blobs with a nil error is not something a DA does; treat as a timeout
			finish("timeout", 0, 0)
			d.mu.Unlock()
			return nil, coreda.ErrTxTimedOut
		}
		ids, h := store(k)
		finish(fmt.Sprintf("prefix(%d)", k), k, h)
		d.mu.Unlock()
		return ids, nil
	case "timeout":
		finish("timeout", 0, 0)
		d.mu.Unlock()
		return nil, coreda.ErrTxTimedOut
	case "mempool":
		finish("mempool", 0, 0)
		d.mu.Unlock()
		return nil, coreda.ErrTxAlreadyInMempool
	case "toobig":
		finish("toobig", 0, 0)
		d.mu.Unlock()
		return nil, coreda.ErrBlobSizeOverLimit
	case "seqerr":
		finish("seqerr", 0, 0)
		d.mu.Unlock()
		return nil, coreda.ErrTxIncorrectAccountSequence
	case "deadline":
		finish("deadline", 0, 0)
		d.mu.Unlock()
		return nil, coreda.ErrContextDeadline
	case "canceled":
		// the DA node (or the RPC layer in front of it) answers "context canceled" although the
		// caller's context is alive, e.g. a DA node that is shutting down
		finish("canceled", 0, 0)
		d.mu.Unlock()
		return nil, fmt.Errorf("dadbl: remote: %w", context.Canceled)
	case "da-canceled":
		finish("da-canceled", 0, 0)
		d.mu.Unlock()
		return nil, coreda.ErrContextCanceled
	case "error":
		finish("error", 0, 0)
		d.mu.Unlock()
		return nil, errors.New("dadbl: generic failure")
	case "acklost":
		_, h := store(fit)
		finish(fmt.Sprintf("acklost(%d)", fit), fit, h)
		d.mu.Unlock()
		return nil, errors.New("dadbl: connection reset after submit")
	case "hang":
		finish("hang", 0, 0)
		d.mu.Unlock()
		<-ctx.Done()
		return nil, ctx.Err()
	default:
		finish("error", 0, 0)
		d.mu.Unlock()
		return nil, errors.New("dadbl: unknown script kind " + resp.Kind)
	}
}

func (d *DADbl) GetIDs(ctx context.Context, height uint64, ns []byte) (*coreda.GetIDsResult, error) {
	if d.isDead() {
		return nil, ErrDead
	}
	if err := ctx.Err(); err != nil {
		return nil, err
	}
	d.mu.Lock()
	defer d.mu.Unlock()
	call := DACall{Op: "getids", Height: height}
	defer func() { d.calls = append(d.calls, call) }()
	d.getCount[height] = 0
	out := FetchOutcome{Kind: "ok"}
	if s := d.fetch[height]; len(s) > 0 {
		out = s[0]
		if out.Kind != "chunkerr" { // chunkerr is consumed by the failing Get
			d.fetch[height] = s[1:]
		}
	}
	if height > d.head && out.Kind != "listerr" {
		call.Outcome = "future"
		return nil, fmt.Errorf("%w: requested %d, current %d", coreda.ErrHeightFromFuture, height, d.head)
	}
	switch out.Kind {
	case "future":
		call.Outcome = "future"
		return nil, fmt.Errorf("%w: requested %d (scripted)", coreda.ErrHeightFromFuture, height)
	case "notfound":
		// a transient "not found" is only honest when the height really is empty; if it holds blobs
		// a DA does not answer like this, so degrade to a list error
		if len(d.byHeight[height]) == 0 {
			call.Outcome = "notfound"
			return nil, coreda.ErrBlobNotFound
		}
		call.Outcome = "listerr"
		return nil, errors.New("dadbl: listing failed")
	case "listerr":
		call.Outcome = "listerr"
		if out.Err == "hang" {
			// do not hold the lock while parked
			d.mu.Unlock()
			err := d.fetchErr(ctx, out, "listing")
			d.mu.Lock()
			return nil, err
		}
		return nil, d.fetchErr(ctx, out, "listing")
	}
	sbs := d.byHeight[height]
	if len(sbs) == 0 {
		call.Outcome = "empty"
		return &coreda.GetIDsResult{IDs: []coreda.ID{}, Timestamp: time.Unix(int64(height), 0)}, nil
	}
	ids := make([]coreda.ID, len(sbs))
	for i, sb := range sbs {
		ids[i] = sb.ID
	}
	call.NIDs = len(ids)
	call.Outcome = "ok"
	return &coreda.GetIDsResult{IDs: ids, Timestamp: time.Unix(int64(height), 0)}, nil
}

func (d *DADbl) Get(ctx context.Context, ids []coreda.ID, ns []byte) ([]coreda.Blob, error) {
	if d.isDead() {
		return nil, ErrDead
	}
	if err := ctx.Err(); err != nil {
		return nil, err
	}
	d.mu.Lock()
	defer d.mu.Unlock()
	call := DACall{Op: "get", NIDs: len(ids)}
	defer func() { d.calls = append(d.calls, call) }()
	if len(ids) == 0 {
		call.Outcome = "ok"
		return nil, nil
	}
	h := uint64(0)
	if len(ids[0]) >= 8 {
		h = binary.LittleEndian.Uint64(ids[0])
	}
	call.Height = h
	idx := d.getCount[h]
	d.getCount[h] = idx + 1
	if s := d.fetch[h]; len(s) > 0 && s[0].Kind == "chunkerr" {
		nchunks := (len(d.byHeight[h]) + 99) / 100
		target := s[0].Chunk
		if target > nchunks-1 {
			target = nchunks - 1
		}
		if idx >= target {
			// fail this chunk (the last chunk if the scripted index is beyond the number of chunks)
			o := s[0]
			d.fetch[h] = s[1:]
			call.Outcome = "chunkerr"
			if o.Err == "hang" {
				d.mu.Unlock()
				err := d.fetchErr(ctx, o, "fetching chunk")
				d.mu.Lock()
				return nil, err
			}
			return nil, d.fetchErr(ctx, o, "fetching chunk")
		}
	}
	out := make([]coreda.Blob, 0, len(ids))
	for _, id := range ids {
		sb, ok := d.byID[string(id)]
		if !ok {
			call.Outcome = "notfound"
			return nil, coreda.ErrBlobNotFound
		}
		out = append(out, append([]byte(nil), sb.Blob...))
	}
	call.Outcome = "ok"
	return out, nil
}

func (d *DADbl) GetProofs(ctx context.Context, ids []coreda.ID, ns []byte) ([]coreda.Proof, error) {
	out := make([]coreda.Proof, len(ids))
	for i, id := range ids {
		out[i] = id
	}
	return out, nil
}

func (d *DADbl) Commit(ctx context.Context, blobs []coreda.Blob, ns []byte) ([]coreda.Commitment, error) {
	out := make([]coreda.Commitment, len(blobs))
	for i, b := range blobs {
		out[i] = b
	}
	return out, nil
}

func (d *DADbl) Validate(ctx context.Context, ids []coreda.ID, proofs []coreda.Proof, ns []byte) ([]bool, error) {
	d.mu.Lock()
	defer d.mu.Unlock()
	out := make([]bool, len(ids))
	for i, id := range ids {
		_, out[i] = d.byID[string(id)]
	}
	return out, nil
}
