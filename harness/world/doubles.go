package world

import (
	"bytes"
	"context"
	"crypto/ed25519"
	"crypto/sha256"
	"encoding/binary"
	"errors"
	"fmt"
	"sync"
	"time"

	goheader "github.com/celestiaorg/go-header"
	"github.com/libp2p/go-libp2p/core/crypto"

	coreexecutor "github.com/evstack/ev-node/core/execution"
	coresequencer "github.com/evstack/ev-node/core/sequencer"
	"github.com/evstack/ev-node/pkg/signer"
	noopsigner "github.com/evstack/ev-node/pkg/signer/noop"
	"github.com/evstack/ev-node/types"
)

// ---------------------------------------------------------------------------------------------
// keys

// KeyFromSeed derives a deterministic ed25519 libp2p key pair from a label (signatures under
// ed25519 are deterministic, so chains are reproducible byte for byte).
func KeyFromSeed(label string) (crypto.PrivKey, crypto.PubKey) {
	seed := sha256.Sum256([]byte("verif-key:" + label))
	std := ed25519.NewKeyFromSeed(seed[:])
	priv, err := crypto.UnmarshalEd25519PrivateKey(std)
	if err != nil {
		panic(err)
	}
	return priv, priv.GetPublic()
}

// SignerFromSeed returns a signer (the node's in-memory signer implementation) for a label.
func SignerFromSeed(label string) (signer.Signer, crypto.PrivKey, crypto.PubKey) {
	priv, pub := KeyFromSeed(label)
	s, err := noopsigner.NewNoopSigner(priv)
	if err != nil {
		panic(err)
	}
	return s, priv, pub
}

// ---------------------------------------------------------------------------------------------
// execution double

// ExecCall is one logged call on the execution double.
type ExecCall struct {
	Op     string   `json:"op"` // init | exec | final | gettxs
	Height uint64   `json:"height,omitempty"`
	Txs    [][]byte `json:"-"`
	NTxs   int      `json:"ntxs,omitempty"`
	Prev   []byte   `json:"-"`
	Root   []byte   `json:"-"`
	Err    string   `json:"err,omitempty"`
	// DAIncludedSeen is the node's reported DA-included height sampled at the moment of the call
	// (only when a sampler is installed; used by C07 for SetFinal).
	DAIncludedSeen uint64 `json:"da_included_seen,omitempty"`
}

// ExecDbl is a functional execution layer: root' = sha256(root ‖ height? no — root ‖ n ‖ len‖tx…).
// The root depends only on the ordered transactions executed (C15's ideal), InitChain is
// idempotent, and the mempool follows the documented contract (GetTxs does not remove,
// ExecuteTxs removes).
type ExecDbl struct {
	mu      sync.Mutex
	genesis []byte
	inited  bool
	mempool [][]byte
	calls   []ExecCall

	// FailExec: number of upcoming ExecuteTxs calls that fail.
	failExec int
	// FailFinal: number of upcoming SetFinal calls that fail.
	failFinal int

	// Sampler, when set, is called inside SetFinal to sample the node's DA-included height.
	Sampler func() uint64

	// Latency is slept (virtual time inside a synctest bubble) inside ExecuteTxs.
	Latency time.Duration
	// FinalLatency stalls SetFinal (a slow execution client); it gives up when its caller's context ends.
	FinalLatency time.Duration
	// OnFinalEnter, when set, is called when SetFinal is entered (before the latency).
	OnFinalEnter func(height uint64)
	// GetTxsLatency stalls GetTxs (an execution client that is slow to answer); like a real client
	// it gives up when the context it was called with ends.
	GetTxsLatency time.Duration

	// Ref, when set, is a REAL execution layer (the reference KVExecutor of apps/testapp on a namespace of
	// the node's datastore): chain initialisation, state transitions and finalisation are delegated to
	// it; the double keeps the mempool, the call log, the scripted failures and the latencies.
	Ref coreexecutor.Executor

	dead func() bool
}

var _ coreexecutor.Executor = (*ExecDbl)(nil)

// NewExecDbl returns an execution double whose genesis root is derived from label.
func NewExecDbl(label string) *ExecDbl {
	g := sha256.Sum256([]byte("verif-genesis-root:" + label))
	return &ExecDbl{genesis: g[:]}
}

// SetDeadFn links the double to a process-death flag.
func (e *ExecDbl) SetDeadFn(f func() bool) { e.dead = f }

// GenesisRoot is the root InitChain returns.
func (e *ExecDbl) GenesisRoot() []byte {
	if e.Ref != nil {
		return []byte{} // the reference executor's root of an empty database
	}
	return append([]byte(nil), e.genesis...)
}

// NextRoot is the pure state-transition function of the double.
func NextRoot(prev []byte, txs [][]byte) []byte {
	h := sha256.New()
	h.Write(prev)
	var n [8]byte
	binary.BigEndian.PutUint64(n[:], uint64(len(txs)))
	h.Write(n[:])
	for _, tx := range txs {
		binary.BigEndian.PutUint64(n[:], uint64(len(tx)))
		h.Write(n[:])
		h.Write(tx)
	}
	return h.Sum(nil)
}

func (e *ExecDbl) InitChain(ctx context.Context, genesisTime time.Time, initialHeight uint64, chainID string) ([]byte, uint64, error) {
	if e.dead != nil && e.dead() {
		return nil, 0, ErrDead
	}
	// like the reference executor (and any client over a network) a call made with a context that has
	// already ended fails with the context's error
	if err := ctx.Err(); err != nil {
		return nil, 0, err
	}
	e.mu.Lock()
	defer e.mu.Unlock()
	e.inited = true
	if e.Ref != nil {
		root, gas, err := e.Ref.InitChain(ctx, genesisTime, initialHeight, chainID)
		call := ExecCall{Op: "init", Height: initialHeight, Root: root}
		if err != nil {
			call.Err = err.Error()
		}
		e.calls = append(e.calls, call)
		return root, gas, err
	}
	e.calls = append(e.calls, ExecCall{Op: "init", Height: initialHeight, Root: e.genesis})
	return append([]byte(nil), e.genesis...), 1 << 20, nil
}

func (e *ExecDbl) GetTxs(ctx context.Context) ([][]byte, error) {
	if e.dead != nil && e.dead() {
		return nil, ErrDead
	}
	if err := ctx.Err(); err != nil {
		return nil, err
	}
	if e.GetTxsLatency > 0 {
		select {
		case <-ctx.Done():
			return nil, ctx.Err()
		case <-time.After(e.GetTxsLatency):
		}
	}
	e.mu.Lock()
	defer e.mu.Unlock()
	out := make([][]byte, len(e.mempool))
	for i, tx := range e.mempool {
		out[i] = append([]byte(nil), tx...)
	}
	e.calls = append(e.calls, ExecCall{Op: "gettxs", NTxs: len(out), Txs: out})
	return out, nil
}

func (e *ExecDbl) ExecuteTxs(ctx context.Context, txs [][]byte, blockHeight uint64, timestamp time.Time, prevStateRoot []byte) ([]byte, uint64, error) {
	if e.dead != nil && e.dead() {
		return nil, 0, ErrDead
	}
	if err := ctx.Err(); err != nil {
		return nil, 0, err
	}
	if e.Latency > 0 {
		select {
		case <-ctx.Done():
			return nil, 0, ctx.Err()
		case <-time.After(e.Latency):
		}
	}
	e.mu.Lock()
	defer e.mu.Unlock()
	call := ExecCall{Op: "exec", Height: blockHeight, NTxs: len(txs), Prev: append([]byte(nil), prevStateRoot...)}
	for _, tx := range txs {
		call.Txs = append(call.Txs, append([]byte(nil), tx...))
	}
	if e.failExec > 0 {
		e.failExec--
		call.Err = "scripted"
		e.calls = append(e.calls, call)
		return nil, 0, errors.New("execdbl: scripted execution failure")
	}
	root := NextRoot(prevStateRoot, txs)
	if e.Ref != nil {
		var err error
		if root, _, err = e.Ref.ExecuteTxs(ctx, txs, blockHeight, timestamp, prevStateRoot); err != nil {
			call.Err = err.Error()
			e.calls = append(e.calls, call)
			return nil, 0, err
		}
	}
	call.Root = root
	e.calls = append(e.calls, call)
	// remove executed txs from the mempool (one occurrence each)
	for _, tx := range txs {
		for i, m := range e.mempool {
			if bytes.Equal(m, tx) {
				e.mempool = append(e.mempool[:i:i], e.mempool[i+1:]...)
				break
			}
		}
	}
	return root, 1 << 20, nil
}

func (e *ExecDbl) SetFinal(ctx context.Context, blockHeight uint64) error {
	if e.dead != nil && e.dead() {
		return ErrDead
	}
	if err := ctx.Err(); err != nil {
		return err
	}
	if e.OnFinalEnter != nil {
		e.OnFinalEnter(blockHeight)
	}
	if e.FinalLatency > 0 {
		select {
		case <-ctx.Done():
			return ctx.Err()
		case <-time.After(e.FinalLatency):
		}
	}
	var seen uint64
	if e.Sampler != nil {
		seen = e.Sampler()
	}
	e.mu.Lock()
	defer e.mu.Unlock()
	call := ExecCall{Op: "final", Height: blockHeight, DAIncludedSeen: seen}
	if e.failFinal > 0 {
		e.failFinal--
		call.Err = "scripted"
		e.calls = append(e.calls, call)
		return errors.New("execdbl: scripted finalize failure")
	}
	if e.Ref != nil {
		if err := e.Ref.SetFinal(ctx, blockHeight); err != nil {
			call.Err = err.Error()
			e.calls = append(e.calls, call)
			return err
		}
	}
	e.calls = append(e.calls, call)
	return nil
}

// InjectTx adds a transaction to the mempool.
func (e *ExecDbl) InjectTx(tx []byte) {
	e.mu.Lock()
	defer e.mu.Unlock()
	e.mempool = append(e.mempool, append([]byte(nil), tx...))
}

// MempoolLen returns the mempool size.
func (e *ExecDbl) MempoolLen() int { e.mu.Lock(); defer e.mu.Unlock(); return len(e.mempool) }

// FailNextExec makes the next n ExecuteTxs calls fail.
func (e *ExecDbl) FailNextExec(n int) { e.mu.Lock(); defer e.mu.Unlock(); e.failExec = n }

// FailNextFinal makes the next n SetFinal calls fail.
func (e *ExecDbl) FailNextFinal(n int) { e.mu.Lock(); defer e.mu.Unlock(); e.failFinal = n }

// Calls returns a copy of the call log.
func (e *ExecDbl) Calls() []ExecCall {
	e.mu.Lock()
	defer e.mu.Unlock()
	return append([]ExecCall(nil), e.calls...)
}

// CallsOf returns the calls with the given op.
func (e *ExecDbl) CallsOf(op string) []ExecCall {
	out := []ExecCall{}
	for _, c := range e.Calls() {
		if c.Op == op {
			out = append(out, c)
		}
	}
	return out
}

// ---------------------------------------------------------------------------------------------
// sequencing double

// SeqResp is one scripted answer to GetNextBatch.
type SeqResp struct {
	// Kind: nilresp | nilbatch | empty | txs | error
	Kind string   `json:"kind"`
	Txs  [][]byte `json:"txs,omitempty"`
	// DeltaNs is the batch timestamp relative to the reference time supplied by the harness.
	DeltaNs int64 `json:"delta_ns,omitempty"`
	// BatchData is the opaque cursor returned with the batch.
	BatchData [][]byte `json:"batch_data,omitempty"`
	// Blowup > 0: every (non-empty) transaction is repeated until it is at least this many bytes long when
	// the batch is handed out (megabyte batches from a short description).
	Blowup int `json:"blowup,omitempty"`
	// Many > 1: the transaction list is handed out Many times over, each copy of a transaction with a
	// running number appended (batches of thousands of distinct transactions from a short description).
	Many int `json:"many,omitempty"`
}

// EffTxs is the transaction list the response hands out.
func (r SeqResp) EffTxs() [][]byte {
	txs := make([][]byte, len(r.Txs))
	for i, tx := range r.Txs {
		txs[i] = append([]byte(nil), tx...)
		if r.Blowup > 0 && len(tx) > 0 && len(tx) < r.Blowup {
			txs[i] = bytes.Repeat(tx, (r.Blowup+len(tx)-1)/len(tx))
		}
	}
	if r.Many > 1 && len(txs) > 0 {
		out := make([][]byte, 0, len(txs)*r.Many)
		for k := 0; k < r.Many; k++ {
			for _, tx := range txs {
				out = append(out, append(append([]byte(nil), tx...), []byte(fmt.Sprintf("#%d", k))...))
			}
		}
		return out
	}
	return txs
}

// SeqCall is one logged GetNextBatch call.
type SeqCall struct {
	LastBatchData [][]byte
	Resp          SeqResp
	Timestamp     time.Time
}

// SeqDbl is a scripted sequencing layer.
type SeqDbl struct {
	mu     sync.Mutex
	script []SeqResp
	// RefTime returns the time DeltaNs is relative to (typically the last committed block time).
	RefTime func() time.Time
	calls   []SeqCall
	subs    []coresequencer.SubmitBatchTxsRequest
	dead    func() bool
}

var _ coresequencer.Sequencer = (*SeqDbl)(nil)

// NewSeqDbl returns a sequencing double with an empty script (absent batches).
func NewSeqDbl(ref func() time.Time) *SeqDbl { return &SeqDbl{RefTime: ref} }

// SetDeadFn links the double to a process-death flag.
func (s *SeqDbl) SetDeadFn(f func() bool) { s.dead = f }

// Push appends scripted responses.
func (s *SeqDbl) Push(r ...SeqResp) {
	s.mu.Lock()
	defer s.mu.Unlock()
	s.script = append(s.script, r...)
}

// Calls returns the logged calls.
func (s *SeqDbl) Calls() []SeqCall {
	s.mu.Lock()
	defer s.mu.Unlock()
	return append([]SeqCall(nil), s.calls...)
}

func (s *SeqDbl) SubmitBatchTxs(ctx context.Context, req coresequencer.SubmitBatchTxsRequest) (*coresequencer.SubmitBatchTxsResponse, error) {
	s.mu.Lock()
	defer s.mu.Unlock()
	s.subs = append(s.subs, req)
	return &coresequencer.SubmitBatchTxsResponse{}, nil
}

func (s *SeqDbl) GetNextBatch(ctx context.Context, req coresequencer.GetNextBatchRequest) (*coresequencer.GetNextBatchResponse, error) {
	if s.dead != nil && s.dead() {
		return nil, ErrDead
	}
	s.mu.Lock()
	defer s.mu.Unlock()
	r := SeqResp{Kind: "nilresp"}
	if len(s.script) > 0 {
		r = s.script[0]
		s.script = s.script[1:]
	}
	ts := s.RefTime().Add(time.Duration(r.DeltaNs))
	s.calls = append(s.calls, SeqCall{LastBatchData: req.LastBatchData, Resp: r, Timestamp: ts})
	switch r.Kind {
	case "nilresp":
		return nil, nil
	case "nilbatch":
		return &coresequencer.GetNextBatchResponse{Batch: nil, Timestamp: ts, BatchData: r.BatchData}, nil
	case "empty":
		return &coresequencer.GetNextBatchResponse{Batch: &coresequencer.Batch{}, Timestamp: ts, BatchData: r.BatchData}, nil
	case "txs":
		return &coresequencer.GetNextBatchResponse{Batch: &coresequencer.Batch{Transactions: r.EffTxs()}, Timestamp: ts, BatchData: r.BatchData}, nil
	case "error":
		return nil, errors.New("seqdbl: scripted failure")
	}
	return nil, fmt.Errorf("seqdbl: unknown kind %q", r.Kind)
}

func (s *SeqDbl) VerifyBatch(ctx context.Context, req coresequencer.VerifyBatchRequest) (*coresequencer.VerifyBatchResponse, error) {
	return &coresequencer.VerifyBatchResponse{Status: true}, nil
}

// ---------------------------------------------------------------------------------------------
// broadcaster double

// Bcast records every payload handed to a broadcaster.
type Bcast[T any] struct {
	mu   sync.Mutex
	Got  []T
	Fail func(T) error
	// OnPayload is invoked (outside the lock) for every payload; used to feed P2P store doubles.
	OnPayload func(T)
	// Own is invoked first: the node's own P2P store takes what the node broadcasts (as the real sync service does).
	Own func(T) error
}

func (b *Bcast[T]) WriteToStoreAndBroadcast(ctx context.Context, payload T) error {
	b.mu.Lock()
	b.Got = append(b.Got, payload)
	f := b.Fail
	on := b.OnPayload
	own := b.Own
	b.mu.Unlock()
	if own != nil {
		if err := own(payload); err != nil {
			return fmt.Errorf("failed to broadcast: %w", err)
		}
	}
	if on != nil {
		on(payload)
	}
	if f != nil {
		return f(payload)
	}
	return nil
}

// Payloads returns a copy of the recorded payloads.
func (b *Bcast[T]) Payloads() []T {
	b.mu.Lock()
	defer b.mu.Unlock()
	return append([]T(nil), b.Got...)
}

// ---------------------------------------------------------------------------------------------
// P2P store double

// P2PStore is a goheader.Store double whose contents and height are advanced by the harness.
type P2PStore[H goheader.Header[H]] struct {
	mu     sync.Mutex
	items  map[uint64]H
	height uint64
	// Strict: see TakeOwn (set on the data store of an aggregator).
	Strict bool
}

// NewP2PStore returns an empty store double.
func NewP2PStore[H goheader.Header[H]]() *P2PStore[H] { return &P2PStore[H]{items: map[uint64]H{}} }

// Put stores an item at its height without moving the reported height.
func (s *P2PStore[H]) Put(h H) { s.mu.Lock(); defer s.mu.Unlock(); s.items[h.Height()] = h }

// PutAt stores an item at an explicit height slot.
func (s *P2PStore[H]) PutAt(height uint64, h H) {
	s.mu.Lock()
	defer s.mu.Unlock()
	s.items[height] = h
}

// SetHeight sets the reported height.
func (s *P2PStore[H]) SetHeight(h uint64) { s.mu.Lock(); defer s.mu.Unlock(); s.height = h }

func (s *P2PStore[H]) Height() uint64 { s.mu.Lock(); defer s.mu.Unlock(); return s.height }

func (s *P2PStore[H]) Head(ctx context.Context, _ ...goheader.HeadOption[H]) (H, error) {
	s.mu.Lock()
	defer s.mu.Unlock()
	h, ok := s.items[s.height]
	if !ok {
		var zero H
		return zero, goheader.ErrNotFound
	}
	return h, nil
}

func (s *P2PStore[H]) Get(ctx context.Context, hash goheader.Hash) (H, error) {
	s.mu.Lock()
	defer s.mu.Unlock()
	for _, h := range s.items {
		if bytes.Equal(h.Hash(), hash) {
			return h, nil
		}
	}
	var zero H
	return zero, goheader.ErrNotFound
}

func (s *P2PStore[H]) GetByHeight(ctx context.Context, height uint64) (H, error) {
	s.mu.Lock()
	defer s.mu.Unlock()
	h, ok := s.items[height]
	if !ok {
		var zero H
		return zero, goheader.ErrNotFound
	}
	return h, nil
}

func (s *P2PStore[H]) GetRangeByHeight(ctx context.Context, from H, to uint64) ([]H, error) {
	return s.GetRange(ctx, from.Height()+1, to)
}

func (s *P2PStore[H]) GetRange(ctx context.Context, from, to uint64) ([]H, error) {
	out := []H{}
	for i := from; i < to; i++ {
		h, err := s.GetByHeight(ctx, i)
		if err != nil {
			return nil, err
		}
		out = append(out, h)
	}
	return out, nil
}

func (s *P2PStore[H]) Init(ctx context.Context, h H) error {
	s.Put(h)
	s.SetHeight(h.Height())
	return nil
}

func (s *P2PStore[H]) Has(ctx context.Context, hash goheader.Hash) (bool, error) {
	_, err := s.Get(ctx, hash)
	return err == nil, nil
}

func (s *P2PStore[H]) HasAt(ctx context.Context, height uint64) bool {
	s.mu.Lock()
	defer s.mu.Unlock()
	_, ok := s.items[height]
	return ok
}

// TakeOwn is what the node's own broadcast does to its P2P store (the real sync service validates a
// broadcast item against the head of its store): an item that extends the head is stored; a height the store
// already has is refused ("known header"); an item above head+1 is refused by a Strict store (the data store:
// Data.Verify demands the link to the head) and ignored by a header store (kept pending, never stored).
func (s *P2PStore[H]) TakeOwn(h H) error {
	s.mu.Lock()
	defer s.mu.Unlock()
	switch {
	case s.height == 0 || h.Height() == s.height+1:
		s.items[h.Height()] = h
		s.height = h.Height()
		return nil
	case h.Height() <= s.height:
		return fmt.Errorf("validation failed: known height %d <= head %d", h.Height(), s.height)
	case s.Strict:
		return fmt.Errorf("validation failed: height %d does not link to the head %d of the store", h.Height(), s.height)
	}
	return nil
}

// Rewind forgets the k newest items (writes of the store that had not reached the disk when the process died).
func (s *P2PStore[H]) Rewind(k int) {
	s.mu.Lock()
	defer s.mu.Unlock()
	for ; k > 0 && s.height > 0; k-- {
		delete(s.items, s.height)
		s.height--
		if _, ok := s.items[s.height]; !ok {
			s.height = 0
		}
	}
}

func (s *P2PStore[H]) Append(ctx context.Context, hs ...H) error {
	for _, h := range hs {
		s.Put(h)
		s.mu.Lock()
		if h.Height() > s.height {
			s.height = h.Height()
		}
		s.mu.Unlock()
	}
	return nil
}

var (
	_ goheader.Store[*types.SignedHeader] = (*P2PStore[*types.SignedHeader])(nil)
	_ goheader.Store[*types.Data]         = (*P2PStore[*types.Data])(nil)
)

// Drain drops all pending scripted responses.
func (s *SeqDbl) Drain() { s.mu.Lock(); defer s.mu.Unlock(); s.script = nil }
