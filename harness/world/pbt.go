// Package world holds the shared machinery of the /verif harness: the property runner
// (rapid driver, statistics, replay files, known findings) and the doubles that stand in
// for the process boundary (crashds), the DA network (dadbl), the execution layer
// (execdbl), the sequencing layer (seqdbl) and the P2P stores.
package world

import (
	"crypto/sha256"
	"encoding/hex"
	"encoding/json"
	"flag"
	"fmt"
	"hash/fnv"
	"os"
	"path/filepath"
	"regexp"
	"runtime"
	"sort"
	"strconv"
	"strings"
	"sync"
	"testing"
	"time"

	"pgregory.net/rapid"
)

// Verdict is what running one scenario produced.
type Verdict struct {
	// Violation is empty when the property held on this scenario.
	Violation string
	// Signature classifies a violation by root cause (specific call site / history shape);
	// it is what known findings are matched against. Empty means "unclassified".
	Signature string
	// NonTrivial says whether the scenario satisfied the property's stated non-triviality rule.
	NonTrivial bool
	// Labels are free-form classes the scenario falls into (histogrammed in the evidence).
	Labels []string
	// Excluded marks a scenario that was not judged (e.g. shape excluded because of a known
	// finding); it is counted separately.
	Excluded bool
	// Observations are stronger-than-stated facts noticed (never violations).
	Observations []string
	// Counts are added to the label histogram (e.g. number of crash points enumerated).
	Counts map[string]int
}

// OK is the verdict of a scenario on which the property held.
func OK(nontrivial bool, labels ...string) Verdict {
	return Verdict{NonTrivial: nontrivial, Labels: labels}
}

// Fail builds a violation verdict.
func Fail(sig string, format string, args ...any) Verdict {
	return Verdict{Violation: fmt.Sprintf(format, args...), Signature: sig, NonTrivial: true}
}

type knownFinding struct {
	Property  string `json:"property"`
	Status    string `json:"status"` // "open" or "fixed"
	Signature string `json:"signature"`
	Replay    string `json:"replay,omitempty"`
	What      string `json:"what"`
	Commit    string `json:"commit,omitempty"`
	Line      string `json:"line,omitempty"`
}

type knownFile struct {
	Findings []knownFinding `json:"findings"`
}

type violationRec struct {
	Check     string `json:"check"`
	Message   string `json:"message"`
	Signature string `json:"signature"`
	Replay    string `json:"replay"`
}

// Stats is what one Run contributes to the evidence file.
type Stats struct {
	Property     string            `json:"property"`
	Check        string            `json:"check"`
	Seed         uint64            `json:"seed"`
	Requested    int               `json:"requested"`
	Evaluations  int               `json:"evaluations"`
	NonTrivial   []string          `json:"nontrivial_hashes"`
	Labels       map[string]int    `json:"labels"`
	Excluded     int               `json:"excluded"`
	KnownHits    map[string]int    `json:"known_hits"`
	Samples      []json.RawMessage `json:"samples"`
	Violations   []violationRec    `json:"violations"`
	Regressions  int               `json:"regressions_replayed"`
	Observations map[string]int    `json:"observations"`
	Exhaustive   bool              `json:"exhaustive,omitempty"`
	Notes        []string          `json:"notes,omitempty"`
}

// replayFile is the on-disk form of one scenario.
type replayFile struct {
	Property  string          `json:"property"`
	Check     string          `json:"check"`
	Message   string          `json:"message,omitempty"`
	Signature string          `json:"signature,omitempty"`
	Scenario  json.RawMessage `json:"scenario"`
}

var (
	verifRoot = envOr("VERIF_ROOT", "/verif")
	outMu     sync.Mutex
)

func envOr(k, d string) string {
	if v := os.Getenv(k); v != "" {
		return v
	}
	return d
}

// Tier returns "quick" or "thorough".
func Tier() string { return envOr("VERIF_TIER", "quick") }

// Thorough reports whether the thorough tier is running.
func Thorough() bool { return Tier() == "thorough" }

// Shards returns (index, count) of this process within a sharded thorough run.
func Shards() (int, int) {
	i, _ := strconv.Atoi(envOr("VERIF_SHARD", "0"))
	n, _ := strconv.Atoi(envOr("VERIF_SHARDS", "1"))
	if n < 1 {
		n = 1
	}
	return i, n
}

// BaseSeed is VERIF_SEED.
func BaseSeed() uint64 {
	s, _ := strconv.ParseUint(envOr("VERIF_SEED", "0"), 10, 64)
	return s
}

// Scale returns quick when in the quick tier and thorough otherwise (per-shard count).
func Scale(quick, thorough int) int {
	if Thorough() {
		return thorough
	}
	return quick
}

func deriveSeed(id, name string) uint64 {
	h := fnv.New64a()
	sh, _ := Shards()
	fmt.Fprintf(h, "%d/%s/%s/%d", BaseSeed(), id, name, sh)
	s := h.Sum64() &^ (1 << 63)
	if s == 0 {
		s = 1
	}
	return s
}

func loadKnown(id string) map[string]knownFinding {
	out := map[string]knownFinding{}
	b, err := os.ReadFile(filepath.Join(verifRoot, "known_findings.json"))
	if err != nil {
		return out
	}
	var kf knownFile
	if json.Unmarshal(b, &kf) != nil {
		return out
	}
	for _, f := range kf.Findings {
		if f.Property == id && f.Status == "open" && f.Signature != "" {
			out[f.Signature] = f
		}
	}
	return out
}

func scenarioHash(js []byte) string {
	s := sha256.Sum256(js)
	return hex.EncodeToString(s[:8])
}

// Runner is the per-check state.
type Runner[S any] struct {
	t        *testing.T
	id       string
	name     string
	run      func(S) Verdict
	known    map[string]knownFinding
	st       *Stats
	ntSeen   map[string]bool
	failed   bool
	last     *violationRec
	smallest []byte
	lastJS   []byte
	lastH    string
	lastV    Verdict
	// printedKnown avoids repeating KNOWN-FINDING lines.
	printedKnown map[string]bool
}

func (r *Runner[S]) account(sc S, v Verdict, counting bool) (js []byte, h string) {
	js, err := json.Marshal(sc)
	if err != nil {
		r.t.Fatalf("scenario is not JSON-serialisable: %v", err)
	}
	h = scenarioHash(js)
	if !counting {
		return js, h
	}
	r.st.Evaluations++
	if v.Excluded {
		r.st.Excluded++
		return js, h
	}
	for _, l := range v.Labels {
		r.st.Labels[l]++
	}
	for _, o := range v.Observations {
		r.st.Observations[o]++
	}
	for k, c := range v.Counts {
		r.st.Labels[k] += c
	}
	if v.NonTrivial && !r.ntSeen[h] {
		r.ntSeen[h] = true
		r.st.NonTrivial = append(r.st.NonTrivial, h)
		if len(r.st.Samples) < 3 && len(js) < 1500 {
			r.st.Samples = append(r.st.Samples, json.RawMessage(js))
		}
		if r.smallest == nil || len(js) < len(r.smallest) {
			r.smallest = js
		}
	}
	return js, h
}

func (r *Runner[S]) writeReplay(js []byte, h string, v Verdict) string {
	dir := filepath.Join(envOr("VERIF_FOUND_DIR", filepath.Join(verifRoot, "replays", r.id, "found")))
	_ = os.MkdirAll(dir, 0o755)
	p := filepath.Join(dir, fmt.Sprintf("%s-%s.json", r.name, h))
	rf := replayFile{Property: r.id, Check: r.name, Message: v.Violation, Signature: v.Signature, Scenario: js}
	b, _ := json.MarshalIndent(rf, "", " ")
	_ = os.WriteFile(p, b, 0o644)
	return p
}

// judge runs one scenario and handles known findings. It returns a non-empty string when the
// scenario is a (new) violation.
func (r *Runner[S]) judge(sc S, counting bool) (string, Verdict, []byte, string) {
	if dir := os.Getenv("VERIF_TRACK_CURRENT"); dir != "" {
		// noted for the driver: if the node's code panics in a goroutine of its own the process dies with the
		// scenario, and this file is what is left of it
		if js, err := json.Marshal(sc); err == nil {
			b, _ := json.Marshal(replayFile{Property: r.id, Check: r.name, Scenario: js})
			_ = os.WriteFile(filepath.Join(dir, "current.json"), b, 0o644)
		}
	}
	stop := r.watchWedge(sc)
	v := r.run(sc)
	stop()
	js, h := r.account(sc, v, counting)
	if v.Violation == "" || v.Excluded {
		return "", v, js, h
	}
	if kf, ok := r.known[v.Signature]; ok && v.Signature != "" {
		if counting {
			r.st.KnownHits[v.Signature]++
		}
		if !r.printedKnown[v.Signature] {
			r.printedKnown[v.Signature] = true
			outMu.Lock()
			fmt.Printf("KNOWN-FINDING: property=%s %s [%s]\n", r.id, kf.What, v.Signature)
			outMu.Unlock()
		}
		return "", v, js, h
	}
	return v.Violation, v, js, h
}

// wedgeRe matches goroutines that have been waiting for a lock for minutes.
var wedgeRe = regexp.MustCompile(`(?m)^goroutine (\d+) \[(sync\.Mutex\.Lock|sync\.RWMutex\.R?Lock|semacquire)[^\]]*?, (\d+) minutes`)

// lockWedged returns, per goroutine id, the stack of goroutines that sit in code of the node (not of the
// harness) and have been waiting for a lock for at least a minute.
func lockWedged() map[string]string {
	buf := make([]byte, 16<<20)
	n := runtime.Stack(buf, true)
	out := map[string]string{}
	for _, g := range strings.Split(string(buf[:n]), "\n\n") {
		m := wedgeRe.FindStringSubmatch(g)
		if m == nil || !strings.Contains(g, "github.com/evstack/ev-node/") {
			continue
		}
		out[m[1]] = g
	}
	return out
}

// watchWedge guards the evaluation of one scenario against a wedge no virtual clock gets past: a goroutine
// of the node that waits for a sync lock forever is not "durably blocked" for a synctest bubble, so virtual
// time stops and the run would sit there until the test deadline (exit 2). The verdict is structural, not a
// time budget: after 150 s of wall clock the same goroutine, inside the node's code, has been waiting for a
// lock for minutes in two goroutine dumps 20 s apart. Then the scenario is written as a replay file and the
// process exits 1 (world.Emergency). Anything else that is merely slow is left alone.
// spinRe matches goroutines that are executing (not waiting for anything).
var spinRe = regexp.MustCompile(`(?m)^goroutine (\d+) \[(running|runnable)[^\]]*\]`)

// spinning returns, per goroutine id, the innermost function of the node's code that goroutines currently
// executing inside the node's loops are in.
func spinning() map[string]string {
	buf := make([]byte, 16<<20)
	n := runtime.Stack(buf, true)
	out := map[string]string{}
	for _, g := range strings.Split(string(buf[:n]), "\n\n") {
		m := spinRe.FindStringSubmatch(g)
		if m == nil || !strings.Contains(g, "github.com/evstack/ev-node/block.(*Manager).") {
			continue
		}
		for _, line := range strings.Split(g, "\n") {
			if strings.HasPrefix(line, "github.com/evstack/ev-node/block.(*Manager).") && strings.Contains(line, "Loop") {
				out[m[1]] = strings.SplitN(line, "(0x", 2)[0]
			}
		}
	}
	return out
}

// BusyLoop samples the goroutines four times over about 22 s and returns the node loop (if any) that was
// executing - never waiting - in all four samples.
func BusyLoop() string {
	s1 := spinning()
	time.Sleep(20 * time.Second)
	s2 := spinning()
	time.Sleep(200 * time.Millisecond)
	s3 := spinning()
	time.Sleep(2 * time.Second)
	for id, fn := range spinning() {
		if s1[id] == fn && s2[id] == fn && s3[id] == fn {
			return fn
		}
	}
	return ""
}

func (r *Runner[S]) watchWedge(sc S) func() {
	done := make(chan struct{})
	go func() {
		select {
		case <-done:
			return
		case <-time.After(150 * time.Second):
		}
		for {
			first := lockWedged()
			spin1 := spinning()
			select {
			case <-done:
				return
			case <-time.After(20 * time.Second):
			}
			// a background loop of the node that has been EXECUTING (never waiting) in four dumps over 22 s while
			// the scenario does not get anywhere: a busy loop (virtual time cannot pass it either)
			spin2 := spinning()
			time.Sleep(200 * time.Millisecond)
			spin3 := spinning()
			time.Sleep(2 * time.Second)
			spin4 := spinning()
			for id, fn := range spin4 {
				if spin1[id] == fn && spin2[id] == fn && spin3[id] == fn {
					Emergency(r.id, r.name, r.id+"/busy-loop", sc, "the scenario cannot proceed: %s has been executing without ever waiting for more than 20 s (same goroutine in four goroutine dumps): a busy loop", fn)
				}
			}
			second := lockWedged()
			for id, st := range second {
				if _, ok := first[id]; ok {
					lines := strings.Split(st, "\n")
					if len(lines) > 14 {
						lines = lines[:14]
					}
					Emergency(r.id, r.name, r.id+"/wedged-on-lock", sc, "the scenario cannot proceed: a goroutine of the node has been waiting for a lock for minutes (seen in two goroutine dumps 20 s apart; no timer can wake it):\n%s", strings.Join(lines, "\n"))
				}
			}
			select {
			case <-done:
				return
			case <-time.After(60 * time.Second):
			}
		}
	}()
	return func() { close(done) }
}

func (r *Runner[S]) flush() {
	if len(r.st.Samples) == 0 && r.smallest != nil && len(r.smallest) < 20000 {
		r.st.Samples = append(r.st.Samples, json.RawMessage(r.smallest))
	}
	dir := os.Getenv("VERIF_STATS_DIR")
	if dir == "" {
		return
	}
	_ = os.MkdirAll(dir, 0o755)
	sh, _ := Shards()
	p := filepath.Join(dir, fmt.Sprintf("%s.%s.%d.%d.json", r.id, r.name, sh, os.Getpid()))
	b, _ := json.Marshal(r.st)
	_ = os.WriteFile(p, b, 0o644)
}

// Run is the entry point of every check: it replays the committed regression scenarios of
// this check, then draws `checks` scenarios with rapid and judges each with run. On a
// violation rapid shrinks the scenario; the minimal one is written as a replay file and a
// VIOLATION line is printed. With VERIF_REPLAY=<file> only that file is run (no rapid).
func Run[S any](t *testing.T, id, name string, checks int, gen func(*rapid.T) S, run func(S) Verdict) {
	r := &Runner[S]{t: t, id: id, name: name, run: run, known: loadKnown(id), ntSeen: map[string]bool{}, printedKnown: map[string]bool{}}
	r.st = &Stats{Property: id, Check: name, Requested: checks, Labels: map[string]int{}, KnownHits: map[string]int{}, Observations: map[string]int{}}
	defer r.flush()

	if rp := os.Getenv("VERIF_REPLAY"); rp != "" {
		rf, sc, err := loadReplay[S](rp)
		if err != nil {
			t.Fatalf("cannot load replay %s: %v", rp, err)
		}
		if rf.Property != id || rf.Check != name {
			t.Skipf("replay file is for %s/%s", rf.Property, rf.Check)
		}
		msg, v, _, _ := r.judge(sc, true)
		if msg != "" {
			r.st.Violations = append(r.st.Violations, violationRec{Check: name, Message: msg, Signature: v.Signature, Replay: rp})
			fmt.Printf("VIOLATION property=%s replay=%s\n", id, rp)
			t.Fatalf("%s/%s replay %s: %s", id, name, rp, msg)
		}
		fmt.Printf("REPLAY-OK property=%s check=%s file=%s\n", id, name, rp)
		return
	}

	// regression tier: committed scenarios for this check
	regFailed := false
	regDir := filepath.Join(verifRoot, "replays", id)
	if ents, err := os.ReadDir(regDir); err == nil {
		names := []string{}
		for _, e := range ents {
			if !e.IsDir() && strings.HasSuffix(e.Name(), ".json") {
				names = append(names, e.Name())
			}
		}
		sort.Strings(names)
		for _, n := range names {
			p := filepath.Join(regDir, n)
			rf, sc, err := loadReplay[S](p)
			if err != nil || rf.Property != id || rf.Check != name {
				continue
			}
			r.st.Regressions++
			msg, v, _, _ := r.judge(sc, true)
			if msg != "" {
				regFailed = true
				r.st.Violations = append(r.st.Violations, violationRec{Check: name, Message: msg, Signature: v.Signature, Replay: p})
				fmt.Printf("VIOLATION property=%s replay=%s\n", id, p)
				t.Errorf("%s/%s regression scenario %s: %s", id, name, p, msg)
			}
		}
	}
	// not t.Failed(): under the race detector that also reports a race seen so far, and a race report is
	// judged by the driver (by the code owning the racing accesses), not by skipping the generated cases
	if regFailed {
		return
	}
	if checks <= 0 {
		return
	}

	seed := deriveSeed(id, name)
	r.st.Seed = seed
	_ = flag.Set("rapid.checks", strconv.Itoa(checks))
	_ = flag.Set("rapid.seed", strconv.FormatUint(seed, 10))
	_ = flag.Set("rapid.nofailfile", "true")
	if flag.Lookup("rapid.shrinktime") != nil && os.Getenv("VERIF_SHRINKTIME") != "" {
		_ = flag.Set("rapid.shrinktime", os.Getenv("VERIF_SHRINKTIME"))
	}

	defer func() {
		if r.last != nil {
			// only the last failing scenario (rapid's minimal one) becomes a replay file
			r.last.Replay = r.writeReplay(r.lastJS, r.lastH, r.lastV)
			r.st.Violations = append(r.st.Violations, *r.last)
			outMu.Lock()
			fmt.Printf("VIOLATION property=%s replay=%s\n", id, r.last.Replay)
			outMu.Unlock()
		}
	}()
	// in a sub-test: rapid refuses a *testing.T that has already failed, and under the race detector a T counts
	// as failed from the moment a race was reported (a sub-test starts with a clean slate)
	t.Run("generated", func(st *testing.T) {
		rapid.Check(st, func(rt *rapid.T) {
			sc := gen(rt)
			msg, v, js, h := r.judge(sc, !r.failed)
			if msg != "" {
				r.failed = true
				r.lastJS, r.lastH, r.lastV = js, h, v
				r.last = &violationRec{Check: name, Message: msg, Signature: v.Signature}
				rt.Fatalf("%s/%s: %s", id, name, msg)
			}
		})
	})
}

func loadReplay[S any](p string) (replayFile, S, error) {
	var rf replayFile
	var sc S
	b, err := os.ReadFile(p)
	if err != nil {
		return rf, sc, err
	}
	if err := json.Unmarshal(b, &rf); err != nil {
		return rf, sc, err
	}
	if err := json.Unmarshal(rf.Scenario, &sc); err != nil {
		return rf, sc, err
	}
	return rf, sc, nil
}

// Enumerate runs a fixed, enumerated list of scenarios (no rapid) through the same accounting,
// replay-file and known-finding machinery. Used for exhaustive sweeps (e.g. byte positions).
func Enumerate[S any](t *testing.T, id, name string, scenarios []S, exhaustive bool, run func(S) Verdict) {
	r := &Runner[S]{t: t, id: id, name: name, run: run, known: loadKnown(id), ntSeen: map[string]bool{}, printedKnown: map[string]bool{}}
	r.st = &Stats{Property: id, Check: name, Requested: len(scenarios), Labels: map[string]int{}, KnownHits: map[string]int{}, Observations: map[string]int{}, Exhaustive: exhaustive}
	defer r.flush()
	if rp := os.Getenv("VERIF_REPLAY"); rp != "" {
		rf, sc, err := loadReplay[S](rp)
		if err != nil {
			t.Fatalf("cannot load replay %s: %v", rp, err)
		}
		if rf.Property != id || rf.Check != name {
			t.Skipf("replay file is for %s/%s", rf.Property, rf.Check)
		}
		msg, _, _, _ := r.judge(sc, true)
		if msg != "" {
			fmt.Printf("VIOLATION property=%s replay=%s\n", id, rp)
			t.Fatalf("%s/%s replay %s: %s", id, name, rp, msg)
		}
		return
	}
	sh, n := Shards()
	req := 0
	for i := range scenarios {
		if i%n == sh {
			req++
		}
	}
	r.st.Requested = req
	for i, sc := range scenarios {
		if i%n != sh {
			continue
		}
		msg, v, js, h := r.judge(sc, true)
		if msg != "" {
			p := r.writeReplay(js, h, v)
			r.st.Violations = append(r.st.Violations, violationRec{Check: name, Message: msg, Signature: v.Signature, Replay: p})
			fmt.Printf("VIOLATION property=%s replay=%s\n", id, p)
			t.Errorf("%s/%s: %s", id, name, msg)
			return
		}
	}
}

// KnownOpen reports whether a signature is listed as an open known finding of a property, so that
// a check can keep exploring a scenario behind a known violation instead of stopping at it.
func KnownOpen(id, sig string) bool {
	_, ok := loadKnownCached(id)[sig]
	return ok
}

var (
	knownCacheMu sync.Mutex
	knownCache   = map[string]map[string]knownFinding{}
)

func loadKnownCached(id string) map[string]knownFinding {
	knownCacheMu.Lock()
	defer knownCacheMu.Unlock()
	if m, ok := knownCache[id]; ok {
		return m
	}
	m := loadKnown(id)
	knownCache[id] = m
	return m
}

// Emergency reports a violation from a situation the runner cannot return from (e.g. a goroutine
// of the code under test that never ends keeps a synctest bubble alive forever): the scenario is
// written as a replay file, the VIOLATION line is printed and the process exits with status 1.
func Emergency(id, name, sig string, scenario any, format string, args ...any) {
	js, _ := json.Marshal(scenario)
	msg := fmt.Sprintf(format, args...)
	dir := envOr("VERIF_FOUND_DIR", filepath.Join(verifRoot, "replays", id, "found"))
	_ = os.MkdirAll(dir, 0o755)
	p := filepath.Join(dir, fmt.Sprintf("%s-%s.json", name, scenarioHash(js)))
	rf := replayFile{Property: id, Check: name, Message: msg, Signature: sig, Scenario: js}
	b, _ := json.MarshalIndent(rf, "", " ")
	_ = os.WriteFile(p, b, 0o644)
	if sd := os.Getenv("VERIF_STATS_DIR"); sd != "" {
		st := Stats{Property: id, Check: name, Requested: 1, Evaluations: 1, NonTrivial: []string{scenarioHash(js)}, Labels: map[string]int{"emergency-exit": 1},
			KnownHits: map[string]int{}, Observations: map[string]int{}, Violations: []violationRec{{Check: name, Message: msg, Signature: sig, Replay: p}}}
		sb, _ := json.Marshal(st)
		_ = os.MkdirAll(sd, 0o755)
		_ = os.WriteFile(filepath.Join(sd, fmt.Sprintf("%s.%s.emergency.%d.json", id, name, os.Getpid())), sb, 0o644)
	}
	fmt.Printf("VIOLATION property=%s replay=%s\n%s/%s: %s\n", id, p, id, name, msg)
	os.Exit(1)
}
