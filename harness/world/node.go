package world

import (
	"context"
	"crypto/sha256"
	"fmt"
	"os"
	"sync/atomic"
	"time"

	ds "github.com/ipfs/go-datastore"
	ktds "github.com/ipfs/go-datastore/keytransform"
	logging "github.com/ipfs/go-log/v2"
	"github.com/libp2p/go-libp2p/core/crypto"

	"github.com/evstack/ev-node/block"
	coreda "github.com/evstack/ev-node/core/da"
	coreexecutor "github.com/evstack/ev-node/core/execution"
	coresequencer "github.com/evstack/ev-node/core/sequencer"
	"github.com/evstack/ev-node/pkg/config"
	"github.com/evstack/ev-node/pkg/genesis"
	"github.com/evstack/ev-node/pkg/signer"
	storepkg "github.com/evstack/ev-node/pkg/store"
	"github.com/evstack/ev-node/types"
)

// Logger returns the (silenced unless VERIF_LOG is set) logger handed to the code under test.
func Logger() logging.EventLogger {
	l := logging.Logger("verif")
	if os.Getenv("VERIF_LOG") == "" {
		_ = logging.SetLogLevel("verif", "fatal")
	} else {
		_ = logging.SetLogLevel("verif", os.Getenv("VERIF_LOG"))
	}
	return l
}

// NodeOpts configures a node world.
type NodeOpts struct {
	ChainID       string
	InitialHeight uint64
	GenesisTime   time.Time
	Aggregator    bool
	Lazy          bool
	BlockTime     time.Duration
	DABlockTime   time.Duration
	LazyInterval  time.Duration
	MaxPending    uint64
	// ViaDAClient: the node talks to the DA layer through its real DA client (see ViaClient).
	// Prometheus: instrumentation.prometheus = true (labelled Prometheus collectors instead of discard metrics).
	Prometheus    bool
	ViaDAClient   bool
	DAClientLimit uint64
	// DBPath: rollkit.db_path when not empty (default "data"); "-" stands for an explicitly empty value.
	DBPath        string
	RootDir       string
	DAStartHeight uint64
	MempoolTTL    uint64
	// KeyLabel selects the proposer key (default "proposer"): a fresh label gives a proposer address
	// this process has never seen.
	KeyLabel string
	// CustomPayload: the chain signs something other than the raw header bytes (a supported
	// configuration: ManagerOptions.SignaturePayloadProvider).
	CustomPayload bool
	// RefExec: the execution layer is the REAL reference KVExecutor (apps/testapp) on a namespace of the
	// node's datastore instead of the hash-fold double; transactions must then be KVTx-shaped.
	RefExec bool
}

// NextRoot returns the reference model of the execution layer's state transition the options select.
func (o NodeOpts) NextRoot() func(prev []byte, txs [][]byte) []byte {
	if o.RefExec {
		return KVNextRoot
	}
	return NextRoot
}

// CustomPayloadProvider is the non-default signature payload used when NodeOpts.CustomPayload is set.
func CustomPayloadProvider(h *types.Header) ([]byte, error) {
	b, err := h.MarshalBinary()
	if err != nil {
		return nil, err
	}
	s := sha256.Sum256(append([]byte("verif-custom-payload:"), b...))
	return s[:], nil
}

// Payload returns the signature payload provider the options select.
func (o NodeOpts) Payload() types.SignaturePayloadProvider {
	if o.CustomPayload {
		return CustomPayloadProvider
	}
	return types.DefaultSignaturePayloadProvider
}

// ManagerOptions returns the manager options the node options select.
func (o NodeOpts) ManagerOptions() block.ManagerOptions {
	mo := block.DefaultManagerOptions()
	mo.SignaturePayloadProvider = o.Payload()
	return mo
}

// Node bundles a real block.Manager with the doubles around it.
type Node struct {
	M       *block.Manager
	Store   storepkg.Store
	KV      ds.Batching // prefixed main KV as node/full.go builds it
	Raw     ds.Batching
	Genesis genesis.Genesis
	Cfg     config.Config
	HB      *Bcast[*types.SignedHeader]
	DB      *Bcast[*types.Data]
	HStore  *P2PStore[*types.SignedHeader]
	DStore  *P2PStore[*types.Data]
	PubKey  crypto.PubKey
	Opts    NodeOpts
	Metrics *block.Metrics
}

var promSeq atomic.Uint64

// metricsFor builds the block metrics the way node.DefaultMetricsProvider does: Prometheus collectors with a
// chain_id label when instrumentation is on (a namespace of its own per node, because the collectors register
// themselves with the process-wide default registry), discard metrics otherwise.
func metricsFor(o NodeOpts) *block.Metrics {
	if !o.Prometheus {
		return block.NopMetrics()
	}
	return block.PrometheusMetrics(fmt.Sprintf("verif%d", promSeq.Add(1)), "chain_id", o.ChainID)
}

// MainKV wraps a raw datastore the way node/full.go does (prefix "0").
func MainKV(raw ds.Batching) ds.Batching {
	return ktds.Wrap(raw, ktds.PrefixTransform{Prefix: ds.NewKey("0")})
}

// MakeGenesis builds the genesis for the given proposer key.
func MakeGenesis(o NodeOpts, pub crypto.PubKey) genesis.Genesis {
	return genesis.NewGenesis(o.ChainID, o.InitialHeight, o.GenesisTime, types.KeyAddress(pub))
}

// MakeConfig builds the node configuration for the options.
func MakeConfig(o NodeOpts) config.Config {
	cfg := config.DefaultConfig
	cfg.RootDir = o.RootDir
	cfg.Node.Aggregator = o.Aggregator
	cfg.Node.LazyMode = o.Lazy
	cfg.Node.BlockTime.Duration = o.BlockTime
	cfg.Node.LazyBlockInterval.Duration = o.LazyInterval
	cfg.Node.MaxPendingHeadersAndData = o.MaxPending
	cfg.DA.BlockTime.Duration = o.DABlockTime
	cfg.DA.StartHeight = o.DAStartHeight
	cfg.DA.MempoolTTL = o.MempoolTTL
	if o.DBPath == "-" {
		cfg.DBPath = ""
	} else if o.DBPath != "" {
		cfg.DBPath = o.DBPath
	}
	return cfg
}

// NewNode builds a real Manager exactly as node/full.go wires it (prefixed KV, real pkg/store),
// with doubles for execution, sequencing, DA, broadcasters and the P2P stores.
// sgn is nil for a non-aggregator.
func NewNode(ctx context.Context, o NodeOpts, raw ds.Batching, sgn signer.Signer, proposerPub crypto.PubKey,
	exec coreexecutor.Executor, seq coresequencer.Sequencer, da coreda.DA) (*Node, error) {
	n := &Node{Raw: raw, KV: MainKV(raw), PubKey: proposerPub, Opts: o}
	n.Genesis = MakeGenesis(o, proposerPub)
	n.Cfg = MakeConfig(o)
	n.Store = storepkg.New(n.KV)
	n.HB = &Bcast[*types.SignedHeader]{}
	n.DB = &Bcast[*types.Data]{}
	n.HStore = NewP2PStore[*types.SignedHeader]()
	n.DStore = NewP2PStore[*types.Data]()
	if o.Aggregator {
		n.HB.Own = n.HStore.TakeOwn
		n.DB.Own = n.DStore.TakeOwn
		n.DStore.Strict = true
	}
	n.Metrics = metricsFor(o)
	if o.ViaDAClient {
		da = ViaClient(da, o.DAClientLimit)
	}
	m, err := block.NewManager(ctx, sgn, n.Cfg, n.Genesis, n.Store, exec, seq, da, Logger(),
		n.HStore, n.DStore, n.HB, n.DB, n.Metrics, 1.0, 1.5, o.ManagerOptions())
	if err != nil {
		return nil, err
	}
	n.M = m
	return n, nil
}

// Restart builds a new Manager on the same (or a given) datastore, keeping the P2P stores and
// broadcaster recorders, as a process restart would.
func (n *Node) Restart(ctx context.Context, raw ds.Batching, sgn signer.Signer,
	exec coreexecutor.Executor, seq coresequencer.Sequencer, da coreda.DA) (*Node, error) {
	nn := &Node{Raw: raw, KV: MainKV(raw), PubKey: n.PubKey, Genesis: n.Genesis, Cfg: n.Cfg,
		HB: n.HB, DB: n.DB, HStore: n.HStore, DStore: n.DStore, Opts: n.Opts}
	nn.Store = storepkg.New(nn.KV)
	nn.Metrics = metricsFor(n.Opts) // a new process: a new registry
	if n.Opts.ViaDAClient {
		da = ViaClient(da, n.Opts.DAClientLimit)
	}
	m, err := block.NewManager(ctx, sgn, nn.Cfg, nn.Genesis, nn.Store, exec, seq, da, Logger(),
		nn.HStore, nn.DStore, nn.HB, nn.DB, nn.Metrics, 1.0, 1.5, n.Opts.ManagerOptions())
	if err != nil {
		return nil, err
	}
	nn.M = m
	return nn, nil
}

// Spec returns the chain-oracle spec for this node.
func (n *Node) Spec(genesisRoot []byte, txsOf func(uint64) ([][]byte, bool), atRest bool) ChainSpec {
	return ChainSpec{
		Store: n.Store, Genesis: n.Genesis, PubKey: n.PubKey, GenesisRoot: genesisRoot,
		TxsOf: txsOf, Validate: n.validate, AtRest: atRest, Payload: n.Opts.Payload(),
		EmptyDataHash: block.VerifDataHashForEmptyTxs(), NextRoot: n.Opts.NextRoot(), DataLink: n.Opts.Aggregator,
	}
}

// StoreOn returns a pkg/store view of a raw datastore (prefixed like the node does).
func StoreOn(raw ds.Batching) storepkg.Store { return storepkg.New(MainKV(raw)) }

// validate is the full-node validation with the chain's signature payload provider installed on
// the header (as the node does before validating).
func (n *Node) validate(last types.State, h *types.SignedHeader, d *types.Data) error {
	h.SetCustomVerifier(n.Opts.Payload())
	return n.M.VerifExecValidate(last, h, d)
}
