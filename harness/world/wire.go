package world

import (
	"context"
	"errors"

	coreda "github.com/evstack/ev-node/core/da"
	dajsonrpc "github.com/evstack/ev-node/da/jsonrpc"
)

// ViaClient puts the node's REAL DA client (da/jsonrpc.API: its per-call handling of answers and
// errors, its client-side size rules) between a node and an in-process DA layer, without a network:
// the client's transport functions are bound to the DA layer directly and every error is reduced to
// what crosses a JSON-RPC wire — its message (the errors of the caller's own context excepted, which
// the transport hands back as they are). Usable inside a virtual-time bubble, where sockets are not.
func ViaClient(inner coreda.DA, maxBlobSize uint64) coreda.DA {
	if maxBlobSize == 0 {
		maxBlobSize = 1974272 // the client's default (64 x 64 shares of 482 bytes)
	}
	api := &dajsonrpc.API{Logger: Logger(), Namespace: []byte("verif-ns"), MaxBlobSize: maxBlobSize}
	api.Internal.Get = func(ctx context.Context, ids []coreda.ID, ns []byte) ([]coreda.Blob, error) {
		r, err := inner.Get(ctx, ids, ns)
		return r, wireErr(ctx, err)
	}
	api.Internal.GetIDs = func(ctx context.Context, height uint64, ns []byte) (*coreda.GetIDsResult, error) {
		r, err := inner.GetIDs(ctx, height, ns)
		return r, wireErr(ctx, err)
	}
	api.Internal.GetProofs = func(ctx context.Context, ids []coreda.ID, ns []byte) ([]coreda.Proof, error) {
		r, err := inner.GetProofs(ctx, ids, ns)
		return r, wireErr(ctx, err)
	}
	api.Internal.Commit = func(ctx context.Context, blobs []coreda.Blob, ns []byte) ([]coreda.Commitment, error) {
		r, err := inner.Commit(ctx, blobs, ns)
		return r, wireErr(ctx, err)
	}
	api.Internal.Validate = func(ctx context.Context, ids []coreda.ID, proofs []coreda.Proof, ns []byte) ([]bool, error) {
		r, err := inner.Validate(ctx, ids, proofs, ns)
		return r, wireErr(ctx, err)
	}
	api.Internal.Submit = func(ctx context.Context, blobs []coreda.Blob, gp float64, ns []byte) ([]coreda.ID, error) {
		r, err := inner.Submit(ctx, blobs, gp, ns)
		return r, wireErr(ctx, err)
	}
	api.Internal.SubmitWithOptions = func(ctx context.Context, blobs []coreda.Blob, gp float64, ns []byte, opts []byte) ([]coreda.ID, error) {
		r, err := inner.SubmitWithOptions(ctx, blobs, gp, ns, opts)
		return r, wireErr(ctx, err)
	}
	api.Internal.GasMultiplier = func(ctx context.Context) (float64, error) {
		r, err := inner.GasMultiplier(ctx)
		return r, wireErr(ctx, err)
	}
	api.Internal.GasPrice = func(ctx context.Context) (float64, error) {
		r, err := inner.GasPrice(ctx)
		return r, wireErr(ctx, err)
	}
	return api
}

func wireErr(ctx context.Context, err error) error {
	if err == nil {
		return nil
	}
	if ctx.Err() != nil && errors.Is(err, ctx.Err()) {
		return err
	}
	return errors.New(err.Error())
}
