package world

import (
	"fmt"
	"sort"
	"strings"

	ds "github.com/ipfs/go-datastore"
	ktds "github.com/ipfs/go-datastore/keytransform"

	coreexecutor "github.com/evstack/ev-node/core/execution"

	kvexec "github.com/evstack/ev-node/apps/testapp/kv"
)

// NewKVRef builds the reference execution layer (apps/testapp KVExecutor) on the namespace "exec" of
// raw. In the reference application the executor has its own database next to the node's; a process
// death hits both at the same instant. Putting both on one CrashDS (disjoint key prefixes, no write
// spans both) gives exactly that: one numbering of durable operations, one crash point.
func NewKVRef(raw ds.Batching) coreexecutor.Executor {
	return kvexec.NewKVExecutorWithDB(ktds.Wrap(raw, ktds.PrefixTransform{Prefix: ds.NewKey("exec")}))
}

// KVTx maps arbitrary transaction bytes to a well-formed "key=value" transaction of the reference
// application: few keys (so later blocks overwrite earlier ones), the value names the bytes.
func KVTx(tx []byte) []byte {
	k := 0
	if len(tx) > 0 {
		k = int(tx[0]) % 6
	}
	return []byte(fmt.Sprintf("k%d=%x", k, tx))
}

// KVNextRoot is the reference model of the KVExecutor's state transition for transactions produced by
// KVTx: the root is the sorted "key:value;" listing of the whole state, so the previous root is the
// previous state; the transactions are puts applied in order.
func KVNextRoot(prev []byte, txs [][]byte) []byte {
	state := map[string]string{}
	for _, kv := range strings.Split(string(prev), ";") {
		if kv == "" {
			continue
		}
		i := strings.Index(kv, ":")
		if i < 0 {
			continue
		}
		state[kv[:i]] = kv[i+1:]
	}
	for _, tx := range txs {
		parts := strings.SplitN(string(tx), "=", 2)
		if len(parts) != 2 {
			continue
		}
		state[ds.NewKey(strings.TrimSpace(parts[0])).String()] = strings.TrimSpace(parts[1])
	}
	keys := make([]string, 0, len(state))
	for k := range state {
		keys = append(keys, k)
	}
	sort.Strings(keys)
	var sb strings.Builder
	for _, k := range keys {
		sb.WriteString(k + ":" + state[k] + ";")
	}
	return []byte(sb.String())
}
