package world

import (
	"bytes"
	"context"
	"fmt"

	"github.com/libp2p/go-libp2p/core/crypto"

	"github.com/evstack/ev-node/pkg/genesis"
	storepkg "github.com/evstack/ev-node/pkg/store"
	"github.com/evstack/ev-node/types"
)

// BlockView is what the chain oracle extracted for one height.
type BlockView struct {
	Height     uint64
	HeaderHash []byte
	DataHash   []byte
	Txs        [][]byte
	Time       uint64
	AppHash    []byte // root before this block (delayed execution)
	RootAfter  []byte // root after executing this block (re-derived with NextRoot)
}

// ChainSpec parameterises CheckChain.
type ChainSpec struct {
	Store       storepkg.Store
	Genesis     genesis.Genesis
	PubKey      crypto.PubKey // the genesis proposer's key as known to the harness
	GenesisRoot []byte
	// TxsOf returns the transactions block h must contain (ok=false: unknown, not checked).
	TxsOf func(h uint64) (txs [][]byte, ok bool)
	// Validate is the validation a full node applies (Manager.VerifExecValidate); optional.
	Validate func(last types.State, h *types.SignedHeader, d *types.Data) error
	// AtRest additionally requires recorded state == recorded height.
	AtRest bool
	// EmptyDataHash is the fixed data hash of empty blocks.
	EmptyDataHash []byte
	// Payload is the chain's signature payload provider (nil: the raw header bytes).
	Payload types.SignaturePayloadProvider
	// DataLink (chains of a producing node): the data record of block h names the hash of the data record
	// of block h-1 (types.Data.Verify, which peers apply when they sync data over P2P).
	DataLink bool
	// NextRoot is the reference model of the execution layer (nil: the hash fold of ExecDbl).
	NextRoot func(prev []byte, txs [][]byte) []byte
}

// Problem is a failed oracle clause.
type Problem struct {
	Sig string
	Msg string
}

func (p *Problem) Error() string { return p.Msg }

func prob(sig, f string, a ...any) *Problem { return &Problem{Sig: sig, Msg: fmt.Sprintf(f, a...)} }

// CheckChain re-derives, for every height in [initial, Height()], the clauses of DESIGN §1.5.
func CheckChain(ctx context.Context, sp ChainSpec) ([]BlockView, *Problem) {
	height, err := sp.Store.Height(ctx)
	if err != nil {
		return nil, prob("chain/height-read", "Height(): %v", err)
	}
	initial := sp.Genesis.InitialHeight
	views := []BlockView{}
	if height < initial {
		if sp.AtRest {
			if st, err := sp.Store.GetState(ctx); err == nil && st.LastBlockHeight != height && !(height == 0 && st.LastBlockHeight == initial-1) {
				return nil, prob("chain/state-height", "state height %d != chain height %d", st.LastBlockHeight, height)
			}
		}
		return views, nil
	}
	root := append([]byte(nil), sp.GenesisRoot...)
	var prevHash, prevDataHash []byte
	var prevTime uint64 = uint64(sp.Genesis.GenesisDAStartTime.UnixNano())
	state := types.State{
		ChainID:         sp.Genesis.ChainID,
		InitialHeight:   initial,
		LastBlockHeight: initial - 1,
		LastBlockTime:   sp.Genesis.GenesisDAStartTime,
		AppHash:         root,
	}
	for h := initial; h <= height; h++ {
		hdr, data, err := sp.Store.GetBlockData(ctx, h)
		if err != nil {
			return views, prob("chain/missing-block", "height %d <= Height()=%d has no retrievable block: %v", h, height, err)
		}
		if hdr.Height() != h {
			return views, prob("chain/height-field", "block stored at %d has header height %d", h, hdr.Height())
		}
		if h == initial {
			if len(hdr.LastHeaderHash) != 0 {
				return views, prob("chain/link", "first block names a previous hash %x", hdr.LastHeaderHash)
			}
		} else if !bytes.Equal(hdr.LastHeaderHash, prevHash) {
			return views, prob("chain/link", "block %d names previous hash %x, header %d hashes to %x", h, hdr.LastHeaderHash, h-1, prevHash)
		}
		if hdr.BaseHeader.Time < prevTime {
			return views, prob("chain/time", "block %d time %d earlier than predecessor %d", h, hdr.BaseHeader.Time, prevTime)
		}
		txs := make([][]byte, len(data.Txs))
		for i, tx := range data.Txs {
			txs[i] = tx
		}
		if sp.TxsOf != nil {
			if want, ok := sp.TxsOf(h); ok {
				if !eqTxs(want, txs) {
					return views, prob("chain/txs", "block %d has %d txs %s, batch it was built from has %d txs %s", h, len(txs), short(txs), len(want), short(want))
				}
			}
		}
		// commitment of exactly those txs
		want := (&types.Data{Txs: data.Txs}).DACommitment()
		if len(txs) == 0 && sp.EmptyDataHash != nil {
			want = sp.EmptyDataHash
		}
		if !bytes.Equal(hdr.DataHash, want) {
			return views, prob("chain/datahash", "block %d data hash %x is not the commitment %x of its %d txs", h, hdr.DataHash, want, len(txs))
		}
		if sp.DataLink {
			if data.Metadata == nil {
				return views, prob("chain/data-metadata", "block %d is stored without data metadata", h)
			}
			if data.Metadata.Height != h || data.Metadata.ChainID != sp.Genesis.ChainID || data.Metadata.Time != hdr.BaseHeader.Time {
				return views, prob("chain/data-metadata", "block %d data metadata (chain %q height %d time %d) does not match its header", h, data.Metadata.ChainID, data.Metadata.Height, data.Metadata.Time)
			}
			if h > initial && !bytes.Equal(data.Metadata.LastDataHash, prevDataHash) {
				return views, prob("chain/data-link", "block %d data names previous data hash %x, the data of block %d hashes to %x", h, data.Metadata.LastDataHash, h-1, prevDataHash)
			}
		}
		prevDataHash = data.Hash()
		if !bytes.Equal(hdr.AppHash, root) {
			return views, prob("chain/apphash", "block %d carries app hash %x, executing all earlier blocks gives %x", h, hdr.AppHash, root)
		}
		// signature under the genesis proposer's key held by the harness
		if hdr.Signer.PubKey == nil || !hdr.Signer.PubKey.Equals(sp.PubKey) {
			return views, prob("chain/signer-key", "block %d carries a signer key that is not the genesis proposer's", h)
		}
		if !bytes.Equal(types.KeyAddress(sp.PubKey), sp.Genesis.ProposerAddress) || !bytes.Equal(hdr.ProposerAddress, sp.Genesis.ProposerAddress) {
			return views, prob("chain/proposer", "block %d proposer address %x is not genesis proposer %x", h, hdr.ProposerAddress, sp.Genesis.ProposerAddress)
		}
		provider := sp.Payload
		if provider == nil {
			provider = types.DefaultSignaturePayloadProvider
		}
		payload, err := provider(&hdr.Header)
		if err != nil {
			return views, prob("chain/marshal", "block %d header does not marshal: %v", h, err)
		}
		if ok, err := sp.PubKey.Verify(payload, hdr.Signature); err != nil || !ok {
			return views, prob("chain/signature", "block %d signature does not verify under the genesis proposer key (err=%v)", h, err)
		}
		sig, err := sp.Store.GetSignature(ctx, h)
		if err != nil || !bytes.Equal(*sig, hdr.Signature) {
			return views, prob("chain/sigrecord", "block %d stored signature record differs from header signature (err=%v)", h, err)
		}
		if sp.Validate != nil {
			if err := sp.Validate(state, hdr, data); err != nil {
				return views, prob("chain/validate", "block %d fails full-node validation: %v", h, err)
			}
		}
		next := sp.NextRoot
		if next == nil {
			next = NextRoot
		}
		after := next(root, txs)
		views = append(views, BlockView{Height: h, HeaderHash: hdr.Hash(), DataHash: hdr.DataHash, Txs: txs, Time: hdr.BaseHeader.Time, AppHash: root, RootAfter: after})
		state.LastBlockHeight = h
		state.LastBlockTime = hdr.Time()
		state.AppHash = after
		root = after
		prevHash = hdr.Hash()
		prevTime = hdr.BaseHeader.Time
	}
	if sp.AtRest {
		st, err := sp.Store.GetState(ctx)
		if err != nil {
			return views, prob("chain/state-read", "GetState: %v", err)
		}
		if st.LastBlockHeight != height {
			return views, prob("chain/state-height", "recorded state is for height %d, recorded chain height is %d", st.LastBlockHeight, height)
		}
		if !bytes.Equal(st.AppHash, root) {
			return views, prob("chain/state-root", "recorded state root %x, executing the chain gives %x", st.AppHash, root)
		}
		if uint64(st.LastBlockTime.UnixNano()) != prevTime {
			return views, prob("chain/state-time", "recorded state time %d, last block time %d", st.LastBlockTime.UnixNano(), prevTime)
		}
	}
	return views, nil
}

func eqTxs(a, b [][]byte) bool {
	if len(a) != len(b) {
		return false
	}
	for i := range a {
		if !bytes.Equal(a[i], b[i]) {
			return false
		}
	}
	return true
}

func short(txs [][]byte) string {
	s := "["
	for i, tx := range txs {
		if i > 3 {
			s += " …"
			break
		}
		if i > 0 {
			s += " "
		}
		if len(tx) > 8 {
			s += fmt.Sprintf("%x…(%d)", tx[:8], len(tx))
		} else {
			s += fmt.Sprintf("%x", tx)
		}
	}
	return s + "]"
}

// EqTxs reports whether two transaction lists are equal element-wise.
func EqTxs(a, b [][]byte) bool { return eqTxs(a, b) }
