package world

import (
	"context"
	"errors"
	"sort"
	"strings"
	"sync"
	"sync/atomic"

	ds "github.com/ipfs/go-datastore"
	dsq "github.com/ipfs/go-datastore/query"
)

// ErrDead is returned by every call on a CrashDS after the simulated process death.
var ErrDead = errors.New("crashds: process is dead")

// CrashPanic is the sentinel panic that unwinds a single-threaded stepping harness at the
// armed durable operation.
type CrashPanic struct{ Op int }

// Op is one durable mutation (Put, Delete or Batch.Commit) — the atomic unit of the crash model.
type Op struct {
	Index int      `json:"i"`
	Kind  string   `json:"kind"` // put | delete | commit
	Keys  []string `json:"keys"`
	Size  int      `json:"size"`
}

// CrashDS is a ds.Batching over an in-memory image in which every durable mutation is one
// numbered, atomic operation (the guarantee of a badger transaction / write batch — the
// trusted assumption of all crash checks). It can be armed to die at operation k (the
// operation is NOT applied), clone its image ("the disk after the crash") and log its ops.
type CrashDS struct {
	mu      sync.Mutex
	data    map[string][]byte
	ops     int
	log     []Op
	armed   int // absolute op index at which to die; -1 = not armed
	errAt   int // absolute op index at which to return a plain I/O error; -1 = none
	dead    bool
	noPanic bool // multi-goroutine mode: return ErrDead instead of panicking
	logOn   bool
	// QueryOrder: how an unordered Query iterates. go-datastore promises no order unless the query asks
	// for one: "" / "sorted" = lexicographic (badger), "reverse", "scrambled" (by a hash of the key, like a map)
	QueryOrder string
	// GetHook, when set, is called by Get after the value was read and before it is returned to the caller:
	// the place where another goroutine's write can slip in between a read of the database and what the
	// reader does with it (interleaving injection at the datastore boundary).
	GetHook func(key string)
	// ErrOnPrefix, when not empty, makes the next durable write that touches a key with this prefix fail with a
	// plain I/O error (not applied), once.
	ErrOnPrefix string
	// mutateHook, when set (SetMutateHook), is called (without the lock) right before a durable op is carried out:
	// the place where another goroutine's call can be slipped in between what a writer decided and what it writes.
	mutateHook  atomic.Pointer[func(kind string, keys []string)]
	failQueries int
	failGets    int
}

var _ ds.Batching = (*CrashDS)(nil)

// NewCrashDS returns an empty datastore.
func NewCrashDS() *CrashDS {
	return &CrashDS{data: map[string][]byte{}, armed: -1, errAt: -1, logOn: true}
}

// FromImage returns a datastore whose contents are a copy of img.
func FromImage(img map[string][]byte) *CrashDS {
	d := NewCrashDS()
	for k, v := range img {
		d.data[k] = append([]byte(nil), v...)
	}
	return d
}

// Image returns a deep copy of the current contents.
func (d *CrashDS) Image() map[string][]byte {
	d.mu.Lock()
	defer d.mu.Unlock()
	out := make(map[string][]byte, len(d.data))
	for k, v := range d.data {
		out[k] = append([]byte(nil), v...)
	}
	return out
}

// Clone returns a fresh live datastore on a copy of the current image.
func (d *CrashDS) Clone() *CrashDS {
	c := FromImage(d.Image())
	c.QueryOrder = d.QueryOrder
	return c
}

// Ops returns the number of durable ops executed (or attempted) so far.
func (d *CrashDS) Ops() int {
	d.mu.Lock()
	defer d.mu.Unlock()
	return d.ops
}

// Log returns a copy of the op log from index `from`.
func (d *CrashDS) Log(from int) []Op {
	d.mu.Lock()
	defer d.mu.Unlock()
	out := []Op{}
	for _, o := range d.log {
		if o.Index >= from {
			out = append(out, o)
		}
	}
	return out
}

// ArmCrashAfter arms a crash at the (k+1)-th durable op counted from now (k=0: the next op).
func (d *CrashDS) ArmCrashAfter(k int) {
	d.mu.Lock()
	defer d.mu.Unlock()
	d.armed = d.ops + k
}

// ArmErrorAfter makes the (k+1)-th durable op from now fail with a plain error (not applied).
func (d *CrashDS) ArmErrorAfter(k int) {
	d.mu.Lock()
	defer d.mu.Unlock()
	d.errAt = d.ops + k
}

// SetErrOnPrefix arms the one-shot write fault for keys with the given prefix.
func (d *CrashDS) SetErrOnPrefix(prefix string) {
	d.mu.Lock()
	defer d.mu.Unlock()
	d.ErrOnPrefix = prefix
}

// Disarm removes a pending crash/error.
// FailQueries makes the next n Query calls fail with an I/O error (a read fault; nothing is changed).
func (d *CrashDS) FailQueries(n int) {
	d.mu.Lock()
	defer d.mu.Unlock()
	d.failQueries = n
}

// SetMutateHook installs (nil: removes) the hook called before every durable op.
func (d *CrashDS) SetMutateHook(f func(kind string, keys []string)) {
	if f == nil {
		d.mutateHook.Store(nil)
		return
	}
	d.mutateHook.Store(&f)
}

// FailGets makes the next n Get calls fail with an I/O error (a transient read fault; nothing is changed).
func (d *CrashDS) FailGets(n int) {
	d.mu.Lock()
	defer d.mu.Unlock()
	d.failGets = n
}

func (d *CrashDS) Disarm() {
	d.mu.Lock()
	defer d.mu.Unlock()
	d.armed = -1
	d.errAt = -1
}

// SetNoPanic selects the multi-goroutine crash mode (errors instead of a panic).
func (d *CrashDS) SetNoPanic(b bool) {
	d.mu.Lock()
	defer d.mu.Unlock()
	d.noPanic = b
}

// Dead reports whether the simulated process has died.
func (d *CrashDS) Dead() bool {
	d.mu.Lock()
	defer d.mu.Unlock()
	return d.dead
}

// Kill marks the process dead without an op (crash "after the last write").
func (d *CrashDS) Kill() {
	d.mu.Lock()
	defer d.mu.Unlock()
	d.dead = true
}

var errInjected = errors.New("crashds: injected I/O error")

// mutate runs one durable op. Caller must not hold mu.
func (d *CrashDS) mutate(kind string, keys []string, size int, apply func()) error {
	if h := d.mutateHook.Load(); h != nil {
		(*h)(kind, keys)
	}
	d.mu.Lock()
	if d.dead {
		d.mu.Unlock()
		return ErrDead
	}
	idx := d.ops
	d.ops++
	if d.logOn {
		d.log = append(d.log, Op{Index: idx, Kind: kind, Keys: keys, Size: size})
	}
	if d.armed == idx {
		d.dead = true
		np := d.noPanic
		d.mu.Unlock()
		if np {
			return ErrDead
		}
		panic(CrashPanic{Op: idx})
	}
	if d.errAt == idx {
		d.errAt = -1
		d.mu.Unlock()
		return errInjected
	}
	if d.ErrOnPrefix != "" {
		for _, k := range keys {
			if strings.HasPrefix(k, d.ErrOnPrefix) {
				d.ErrOnPrefix = ""
				d.mu.Unlock()
				return errInjected
			}
		}
	}
	apply()
	d.mu.Unlock()
	return nil
}

func (d *CrashDS) Put(ctx context.Context, key ds.Key, value []byte) error {
	k := key.String()
	v := append([]byte(nil), value...)
	return d.mutate("put", []string{k}, len(v), func() { d.data[k] = v })
}

func (d *CrashDS) Delete(ctx context.Context, key ds.Key) error {
	k := key.String()
	return d.mutate("delete", []string{k}, 0, func() { delete(d.data, k) })
}

func (d *CrashDS) Get(ctx context.Context, key ds.Key) ([]byte, error) {
	d.mu.Lock()
	if d.dead {
		d.mu.Unlock()
		return nil, ErrDead
	}
	if d.failGets > 0 {
		d.failGets--
		d.mu.Unlock()
		return nil, errors.New("crashds: injected read fault (get)")
	}
	v, ok := d.data[key.String()]
	out := append([]byte(nil), v...)
	hook := d.GetHook
	d.mu.Unlock()
	if hook != nil {
		hook(key.String())
	}
	if !ok {
		return nil, ds.ErrNotFound
	}
	return out, nil
}

func (d *CrashDS) Has(ctx context.Context, key ds.Key) (bool, error) {
	d.mu.Lock()
	defer d.mu.Unlock()
	if d.dead {
		return false, ErrDead
	}
	_, ok := d.data[key.String()]
	return ok, nil
}

func (d *CrashDS) GetSize(ctx context.Context, key ds.Key) (int, error) {
	d.mu.Lock()
	defer d.mu.Unlock()
	if d.dead {
		return -1, ErrDead
	}
	v, ok := d.data[key.String()]
	if !ok {
		return -1, ds.ErrNotFound
	}
	return len(v), nil
}

func (d *CrashDS) Query(ctx context.Context, q dsq.Query) (dsq.Results, error) {
	d.mu.Lock()
	if d.dead {
		d.mu.Unlock()
		return nil, ErrDead
	}
	if d.failQueries > 0 {
		d.failQueries--
		d.mu.Unlock()
		return nil, errors.New("crashds: injected read fault (query)")
	}
	keys := make([]string, 0, len(d.data))
	for k := range d.data {
		keys = append(keys, k)
	}
	sort.Strings(keys) // badger iterates in lexicographic key order
	switch d.QueryOrder {
	case "reverse":
		for i, j := 0, len(keys)-1; i < j; i, j = i+1, j-1 {
			keys[i], keys[j] = keys[j], keys[i]
		}
	case "scrambled":
		sort.Slice(keys, func(i, j int) bool { return scramble(keys[i]) < scramble(keys[j]) })
	}
	entries := make([]dsq.Entry, 0, len(keys))
	for _, k := range keys {
		e := dsq.Entry{Key: k, Size: len(d.data[k])}
		if !q.KeysOnly {
			e.Value = append([]byte(nil), d.data[k]...)
		}
		entries = append(entries, e)
	}
	d.mu.Unlock()
	r := dsq.ResultsWithEntries(q, entries)
	r = dsq.NaiveQueryApply(q, r)
	return r, nil
}

func (d *CrashDS) Sync(ctx context.Context, prefix ds.Key) error {
	d.mu.Lock()
	defer d.mu.Unlock()
	if d.dead {
		return ErrDead
	}
	return nil
}

func (d *CrashDS) Close() error { return nil }

type crashBatch struct {
	d   *CrashDS
	ops []batchOp
}

type batchOp struct {
	del bool
	k   string
	v   []byte
}

func (d *CrashDS) Batch(ctx context.Context) (ds.Batch, error) {
	d.mu.Lock()
	defer d.mu.Unlock()
	if d.dead {
		return nil, ErrDead
	}
	return &crashBatch{d: d}, nil
}

func (b *crashBatch) Put(ctx context.Context, key ds.Key, value []byte) error {
	b.ops = append(b.ops, batchOp{k: key.String(), v: append([]byte(nil), value...)})
	return nil
}

func (b *crashBatch) Delete(ctx context.Context, key ds.Key) error {
	b.ops = append(b.ops, batchOp{del: true, k: key.String()})
	return nil
}

func (b *crashBatch) Commit(ctx context.Context) error {
	keys := make([]string, 0, len(b.ops))
	size := 0
	for _, o := range b.ops {
		keys = append(keys, o.k)
		size += len(o.v)
	}
	ops := b.ops
	b.ops = nil
	return b.d.mutate("commit", keys, size, func() {
		for _, o := range ops {
			if o.del {
				delete(b.d.data, o.k)
			} else {
				b.d.data[o.k] = o.v
			}
		}
	})
}

func scramble(k string) uint64 {
	h := uint64(1469598103934665603)
	for i := 0; i < len(k); i++ {
		h ^= uint64(k[i])
		h *= 1099511628211
	}
	return h
}

// KeysWithPrefix lists the keys under a prefix (sorted).
func (d *CrashDS) KeysWithPrefix(prefix string) []string {
	d.mu.Lock()
	defer d.mu.Unlock()
	out := []string{}
	for k := range d.data {
		if strings.HasPrefix(k, prefix) {
			out = append(out, k)
		}
	}
	sort.Strings(out)
	return out
}

// CatchCrash runs f and reports whether it was unwound by the crash sentinel.
// Any other panic is re-raised.
func CatchCrash(f func()) (crashed bool) {
	defer func() {
		if r := recover(); r != nil {
			if _, ok := r.(CrashPanic); ok {
				crashed = true
				return
			}
			panic(r)
		}
	}()
	f()
	return false
}
