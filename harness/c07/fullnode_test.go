package c07

import (
	"context"
	"encoding/binary"
	"fmt"
	"testing"

	"pgregory.net/rapid"

	storepkg "github.com/evstack/ev-node/pkg/store"

	"verif/harness/c02gen"
	"verif/harness/world"
)

func metaU64(r *c02gen.BRun, key string) (uint64, bool) {
	b, err := r.F.N.Store.GetMetadata(context.Background(), key)
	if err != nil || len(b) != 8 {
		return 0, false
	}
	return binary.LittleEndian.Uint64(b), true
}

// fullSafety: the safety clauses of C07 on a full node whose marks come from DA scanning.
func fullSafety(r *c02gen.BRun, when string) *world.Problem {
	ctx := context.Background()
	f := r.F
	inc := f.N.M.GetDAIncludedHeight()
	h, _ := f.N.Store.Height(ctx)
	if inc < f.MaxDAIncluded && f.CrashRestarts == 0 {
		return &world.Problem{Sig: "da-included-decreased", Msg: fmt.Sprintf("%s: DA-included height %d below the earlier reported %d", when, inc, f.MaxDAIncluded)}
	}
	if p, ok := metaU64(r, storepkg.DAIncludedHeightKey); ok && p > inc {
		return &world.Problem{Sig: "da-included-persisted-ahead", Msg: fmt.Sprintf("%s: persisted DA-included height %d ahead of the reported %d", when, p, inc)}
	}
	if inc > h {
		return &world.Problem{Sig: "da-included-above-chain", Msg: fmt.Sprintf("%s: DA-included height %d exceeds chain height %d", when, inc, h)}
	}
	// what is visible on the DA layer right now
	head := f.DA.Head()
	hdrAt := map[int][]uint64{}
	dataAt := map[int][]uint64{}
	for _, pl := range r.Placements() {
		if pl.DAHeight > head {
			continue
		}
		if pl.Kind == "header" {
			hdrAt[pl.Off] = append(hdrAt[pl.Off], pl.DAHeight)
		} else {
			// transaction data is identified by its commitment, which covers the ordered transaction
			// list only (C12): a data blob of another block with the same transactions is the same data
			for i, b := range r.C.Blocks {
				if !b.Empty && world.EqTxs(b.Txs, r.C.Blocks[pl.Off].Txs) {
					dataAt[i] = append(dataAt[i], pl.DAHeight)
				}
			}
		}
	}
	for i, b := range r.C.Blocks {
		if b.Height > inc {
			break
		}
		if len(hdrAt[i]) == 0 {
			return &world.Problem{Sig: "included-without-header", Msg: fmt.Sprintf("%s: DA-included height is %d but the header of block %d is not (visible) on the DA layer", when, inc, b.Height)}
		}
		if !b.Empty && len(dataAt[i]) == 0 {
			return &world.Problem{Sig: "included-without-data", Msg: fmt.Sprintf("%s: DA-included height is %d but the data of block %d is not (visible) on the DA layer", when, inc, b.Height)}
		}
		hh, ok1 := metaU64(r, fmt.Sprintf("%s/%d/h", storepkg.RollkitHeightToDAHeightKey, b.Height))
		dh, ok2 := metaU64(r, fmt.Sprintf("%s/%d/d", storepkg.RollkitHeightToDAHeightKey, b.Height))
		if !ok1 || !ok2 {
			return &world.Problem{Sig: "da-heights-missing", Msg: fmt.Sprintf("%s: block %d is DA-included but no DA heights are recorded for it", when, b.Height)}
		}
		if !hasU(hdrAt[i], hh) {
			return &world.Problem{Sig: "da-height-wrong", Msg: fmt.Sprintf("%s: recorded header DA height %d of block %d; the header blob is at %v", when, hh, b.Height, hdrAt[i])}
		}
		if b.Empty {
			if dh != hh {
				return &world.Problem{Sig: "da-height-wrong", Msg: fmt.Sprintf("%s: empty block %d records data DA height %d != header DA height %d", when, b.Height, dh, hh)}
			}
		} else if !hasU(dataAt[i], dh) {
			return &world.Problem{Sig: "da-height-wrong", Msg: fmt.Sprintf("%s: recorded data DA height %d of block %d; the data blob is at %v", when, dh, b.Height, dataAt[i])}
		}
	}
	// SetFinal: in order, one at a time, each before the height is reported
	var last uint64
	for _, c := range f.Exec.CallsOf("final") {
		if c.Err != "" {
			continue
		}
		if last != 0 && c.Height != last+1 && !(c.Height <= last && f.CrashRestarts > 0) {
			return &world.Problem{Sig: "setfinal-order", Msg: fmt.Sprintf("%s: SetFinal called for %d after %d", when, c.Height, last)}
		}
		if c.Height > last {
			last = c.Height
		}
		if c.DAIncludedSeen >= c.Height && f.CrashRestarts == 0 {
			return &world.Problem{Sig: "setfinal-after-report", Msg: fmt.Sprintf("%s: SetFinal(%d) was called when DA-included height %d was already reported", when, c.Height, c.DAIncludedSeen)}
		}
	}
	// below the initial height there is no block: a chain starting at height n has its DA-included height at
	// n-1 from the start, without anything to finalize
	if inc >= r.C.Opts.InitialHeight && last < inc && f.CrashRestarts == 0 {
		return &world.Problem{Sig: "setfinal-missing", Msg: fmt.Sprintf("%s: DA-included height %d reported, execution layer asked to finalize only up to %d", when, inc, last)}
	}
	if len(f.Errors) > 0 {
		return &world.Problem{Sig: "loop-error", Msg: fmt.Sprintf("%s: a background loop stopped with an error: %s", when, f.Errors[0])}
	}
	return nil
}

func hasU(a []uint64, x uint64) bool {
	for _, y := range a {
		if x == y {
			return true
		}
	}
	return false
}

func TestC07FullNode(t *testing.T) {
	dir := t.TempDir()
	world.Run(t, "C07", "fullnode-inclusion", world.Scale(120, 800), func(t *rapid.T) c02gen.ScenarioB {
		sc := c02gen.GenB(t, world.Scale(8, 16), true)
		if sc.InitialHeight > 1<<30 {
			sc.InitialHeight = 1 << 20
		}
		if rapid.IntRange(0, 2).Draw(t, "readfaults") == 0 {
			maxDA := uint64(1)
			for _, pl := range sc.Placements {
				if pl.DAHeight > maxDA {
					maxDA = pl.DAHeight
				}
			}
			sc.FetchFaults = c02gen.GenFetchFaults(t, maxDA)
		}
		return sc
	}, func(sc c02gen.ScenarioB) world.Verdict {
		v := c02gen.RunB(sc, dir, "C07", fullSafety, func(r *c02gen.BRun) *world.Problem {
			if p := fullSafety(r, "at the end"); p != nil {
				return p
			}
			// bounded-eventually: everything is visible, the node has scanned the DA layer and the
			// includer was signalled: it must report min(chain height, DA-complete prefix)
			h, _ := r.F.N.Store.Height(context.Background())
			want := r.DAStar
			if h < want {
				want = h
			}
			if got := r.F.N.M.GetDAIncludedHeight(); got < want {
				return &world.Problem{Sig: "stalled", Msg: fmt.Sprintf("both parts of every block up to %d are on the DA layer, the node has synced to %d and scanned the DA layer, the includer was signalled, yet it reports DA-included height %d (crash restarts %d, clean restarts %d)", r.DAStar, h, got, r.F.CrashRestarts, r.F.Restarts-r.F.CrashRestarts)}
			}
			return nil
		})
		return v
	})
}
