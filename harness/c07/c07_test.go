// Package c07 decides C07: the DA-included (final) height is sound, monotone, durable and
// eventually reached — sequencer-node half (marks come from accepted submissions). The
// full-node half (marks come from DA scanning) lives in fullnode_test.go.
package c07

import (
	"fmt"
	"os"
	"testing"
	"time"

	"pgregory.net/rapid"

	"verif/harness/sw"
	"verif/harness/world"
)

func gen(t *rapid.T) sw.Scenario {
	sc := sw.Scenario{MempoolTTL: uint64(rapid.IntRange(1, 2).Draw(t, "ttl")), InitialHeight: rapid.SampledFrom([]uint64{1, 1, 1, 2, 5, 1 << 20}).Draw(t, "initial")}
	n := rapid.IntRange(3, world.Scale(25, 45)).Draw(t, "nops")
	for i := 0; i < n; i++ {
		switch k := rapid.IntRange(0, 19).Draw(t, "op"); {
		case k < 8:
			sc.Ops = append(sc.Ops, sw.GenProduce(t, 40))
		case k < 13:
			sc.Ops = append(sc.Ops, sw.Op{Kind: "tick", N: rapid.IntRange(1, 3).Draw(t, "nt")})
		case k < 15:
			sc.Ops = append(sc.Ops, sw.GenScript(t, 3), sw.Op{Kind: "tick", N: 1})
		case k < 17:
			sc.Ops = append(sc.Ops, sw.Op{Kind: "signal"})
		case k < 19:
			sc.Ops = append(sc.Ops, sw.Op{Kind: "restart"})
		default:
			sc.Ops = append(sc.Ops, sw.Op{Kind: "crash"})
		}
	}
	sc.GenVia(t)
	return sc
}

func run(sc sw.Scenario, dir string) world.Verdict {
	return sw.InBubble(func() world.Verdict {
		root, _ := os.MkdirTemp(dir, "c07")
		defer os.RemoveAll(root)
		w, err := sw.New(world.NodeOpts{ChainID: "c07-chain", InitialHeight: sc.InitialHeight, RootDir: root, MempoolTTL: sc.MempoolTTL, ViaDAClient: sc.ViaClient, DAClientLimit: sc.ClientLimit, Prometheus: sc.Prometheus, DBPath: sc.DBPath})
		if err != nil {
			return world.Fail("C07/start", "NewManager failed: %v", err)
		}
		defer w.Stop()
		labels := map[string]bool{}
		daFault := false
		var known *world.Verdict
		incBefore := uint64(0)
		overEmpty, overNonEmpty := false, false
		for i, o := range sc.Ops {
			if _, err := w.Apply(o); err != nil {
				return world.Fail("C07/restart-fails", "op %d (%s): %v", i, o.Kind, err)
			}
			labels["op:"+o.Kind] = true
			if sc.ViaClient {
				labels["through-the-real-da-client"] = true
			}
			if o.Kind == "script" {
				daFault = true
			}
			if p := w.CheckC07(fmt.Sprintf("after op %d (%s)", i, o.Kind)); p != nil {
				return world.Fail("C07/"+p.Sig, "%s", p.Msg)
			}
			inc := w.P.N.M.GetDAIncludedHeight()
			if inc > incBefore {
				bs, _ := w.Blocks()
				for _, b := range bs {
					if b.Height > incBefore && b.Height <= inc {
						if b.Empty {
							overEmpty = true
						} else {
							overNonEmpty = true
						}
					}
				}
				incBefore = inc
			}
		}
		// bounded-eventually: everything gets onto the DA layer, the includer is signalled; the node
		// must report the chain height
		w.P.DA.ClearScripts()
		w.Settle(61 * time.Second)
		w.Tick(int(2*(sc.MempoolTTL+2)) + 4)
		w.SignalIncluder()
		w.Tick(2)
		if p := w.CheckC07("after the all-accept epilogue"); p != nil {
			return world.Fail("C07/"+p.Sig, "%s", p.Msg)
		}
		h, _ := w.P.N.Store.Height(w.P.Ctx)
		inc := w.P.N.M.GetDAIncludedHeight()
		if inc < h {
			bs, _ := w.Blocks()
			allOn := true
			var first sw.Block
			for _, b := range bs {
				if !b.HdrOnDA || (!b.Empty && !b.DataOnDA) {
					allOn = false
				}
				if b.Height == inc+1 {
					first = b
				}
			}
			if allOn {
				sig := "C07/stalled"
				// root-cause class: the aggregator crashed after the DA layer had accepted the parts of
				// block inc+1; the inclusion marks lived only in memory and nothing re-creates them
				hw, dw := w.P.N.M.VerifLastSubmittedHeaderHeight(), w.P.N.M.VerifLastSubmittedDataHeight()
				if w.CrashRestarts > 0 && first.Height <= hw && (first.Empty || first.Height <= dw) {
					sig = "C07/stalled/aggregator-crash-lost-inclusion-marks"
				}
				v := world.Fail(sig, "every part of every block up to %d is on the DA layer and the includer was signalled, yet the node reports DA-included height %d (crash restarts: %d, clean restarts: %d)", h, inc, w.CrashRestarts, w.Restarts-w.CrashRestarts)
				if world.KnownOpen("C07", sig) {
					known = &v
				} else {
					return v
				}
			}
		}
		ls := []string{}
		for l := range labels {
			ls = append(ls, l)
		}
		if known != nil {
			return *known
		}
		return world.OK(overEmpty && overNonEmpty && (w.Restarts > 0 || daFault), ls...)
	})
}

func TestC07Sequencer(t *testing.T) {
	dir := t.TempDir()
	world.Run(t, "C07", "sequencer-inclusion", world.Scale(300, 2000), gen, func(sc sw.Scenario) world.Verdict { return run(sc, dir) })
}
