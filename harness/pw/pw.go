// Package pw is the producer world shared by the checks that drive the real production step
// (C01, C04, C06, C07, C08, C13): a real block.Manager on a CrashDS with doubles around it,
// bookkeeping of which batch each block was built from, and restart/crash plumbing.
package pw

import (
	"bytes"
	"context"
	"fmt"
	"time"

	coresequencer "github.com/evstack/ev-node/core/sequencer"
	"github.com/evstack/ev-node/pkg/signer"

	"verif/harness/world"
)

// GenesisTime is the fixed genesis time of generated chains.
var GenesisTime = time.Unix(1_700_000_000, 0).UTC()

// Step is one production step: the sequencing-layer response and the execution outcome.
type Step struct {
	Seq      world.SeqResp `json:"seq"`
	ExecFail bool          `json:"exec_fail,omitempty"`
}

// GoodStep returns a well-formed step with the given txs (empty batch when none).
func GoodStep(txs ...[]byte) Step {
	if len(txs) == 0 {
		return Step{Seq: world.SeqResp{Kind: "empty", DeltaNs: 1_000_000}}
	}
	return Step{Seq: world.SeqResp{Kind: "txs", Txs: txs, DeltaNs: 1_000_000}}
}

// Producer is a sequencer-node world.
type Producer struct {
	Ctx   context.Context
	Opts  world.NodeOpts
	N     *world.Node
	Raw   *world.CrashDS
	Exec  *world.ExecDbl
	Seq   *world.SeqDbl
	DA    *world.DADbl
	Sgn   signer.Signer
	TxsOf map[uint64][][]byte
	// SeqOverride, when set, replaces the scripted sequencing double (e.g. the real single sequencer).
	SeqOverride coresequencer.Sequencer
}

// LastTime is the time of the last committed block (genesis time before the first).
func (p *Producer) LastTime() time.Time {
	if p.N == nil {
		return GenesisTime
	}
	h, err := p.N.Store.Height(p.Ctx)
	if err == nil && h >= p.N.Genesis.InitialHeight {
		if hdr, err := p.N.Store.GetHeader(p.Ctx, h); err == nil {
			return hdr.Time()
		}
	}
	return p.N.Genesis.GenesisDAStartTime
}

// New builds a fresh producer world.
func New(o world.NodeOpts) (*Producer, error) {
	ctx := context.Background()
	if o.KeyLabel == "" {
		o.KeyLabel = "proposer"
	}
	sgn, _, pub := world.SignerFromSeed(o.KeyLabel)
	if o.ChainID == "" {
		o.ChainID = "verif-chain"
	}
	if o.InitialHeight == 0 {
		o.InitialHeight = 1
	}
	if o.GenesisTime.IsZero() {
		o.GenesisTime = GenesisTime
	}
	if o.BlockTime == 0 {
		o.BlockTime = time.Second
	}
	if o.DABlockTime == 0 {
		o.DABlockTime = 2 * time.Second
	}
	if o.LazyInterval == 0 {
		o.LazyInterval = 10 * time.Second
	}
	o.Aggregator = true
	p := &Producer{Ctx: ctx, Opts: o, Exec: world.NewExecDbl("pw"), TxsOf: map[uint64][][]byte{}, Raw: world.NewCrashDS(), DA: world.NewDADbl(0), Sgn: sgn}
	p.Seq = world.NewSeqDbl(func() time.Time { return p.LastTime() })
	if o.RefExec {
		p.Exec.Ref = world.NewKVRef(p.Raw)
	}
	n, err := world.NewNode(ctx, o, p.Raw, sgn, pub, p.Exec, p.seq(), p.DA)
	if err != nil {
		return nil, err
	}
	p.N = n
	p.TxsOf[o.InitialHeight] = [][]byte{} // the pre-saved genesis block is built from no batch
	return p, nil
}

func (p *Producer) seq() coresequencer.Sequencer {
	if p.SeqOverride != nil {
		return p.SeqOverride
	}
	return p.Seq
}

// RestartOn starts a new Manager on the given datastore (fresh in-memory state), keeping the
// doubles that model the outside world (execution, sequencing, DA, broadcast recorders).
func (p *Producer) RestartOn(raw *world.CrashDS) error {
	p.Raw = raw
	if p.Opts.RefExec {
		p.Exec.Ref = world.NewKVRef(raw) // the executor's database is part of what survived
	}
	n, err := p.N.Restart(p.Ctx, raw, p.Sgn, p.Exec, p.seq(), p.DA)
	if err != nil {
		return err
	}
	p.N = n
	// what the aggregation loop does first when it starts (the production steps of this world are driven one by one)
	if err := n.M.VerifRepublishCommitted(p.Ctx); err != nil {
		return fmt.Errorf("aggregation loop cannot start: %w", err)
	}
	return nil
}

// StepResult describes what one production step did.
type StepResult struct {
	Before, After uint64
	Err           error
	Panic         any
	Crashed       bool
	AskedSeq      bool
}

// Step runs one production step (recovering panics; a CrashPanic from the datastore is reported
// as Crashed) and records which batch a newly saved block was built from.
func (p *Producer) Step(st Step) (r StepResult) {
	r.Before, _ = p.N.Store.Height(p.Ctx)
	_, _, perr := p.N.Store.GetBlockData(p.Ctx, r.Before+1)
	pendingExists := perr == nil
	ncalls := len(p.Seq.Calls())
	p.Seq.Drain()
	p.Seq.Push(st.Seq)
	if st.ExecFail {
		p.Exec.FailNextExec(1)
	} else {
		p.Exec.FailNextExec(0)
	}
	func() {
		defer func() {
			if rec := recover(); rec != nil {
				if _, ok := rec.(world.CrashPanic); ok {
					r.Crashed = true
					return
				}
				r.Panic = rec
			}
		}()
		r.Err = p.N.M.VerifPublishBlock(p.Ctx)
	}()
	calls := p.Seq.Calls()
	r.AskedSeq = len(calls) > ncalls
	st2 := p.N.Store
	if r.Crashed {
		// look at the image the crash left behind
		st2 = world.StoreOn(world.FromImage(p.Raw.Image()))
	}
	r.After, _ = st2.Height(p.Ctx)
	if !pendingExists && r.AskedSeq {
		resp := calls[len(calls)-1].Resp
		if resp.Kind == "empty" || resp.Kind == "txs" {
			if _, _, e := st2.GetBlockData(p.Ctx, r.Before+1); e == nil {
				if _, seen := p.TxsOf[r.Before+1]; !seen {
					txs := resp.EffTxs()
					if resp.Kind == "empty" {
						txs = [][]byte{}
					}
					p.TxsOf[r.Before+1] = txs
				}
			}
		}
	}
	p.Seq.Drain()
	return
}

// Oracle runs the chain oracle plus the broadcast and execution-call clauses of C01.
func (p *Producer) Oracle(when string, atRest bool, checkBroadcast bool) *world.Problem {
	views, pr := world.CheckChain(p.Ctx, p.N.Spec(p.Exec.GenesisRoot(), func(h uint64) ([][]byte, bool) {
		t, ok := p.TxsOf[h]
		return t, ok
	}, atRest))
	if pr != nil {
		pr.Msg = when + ": " + pr.Msg
		return pr
	}
	height, _ := p.N.Store.Height(p.Ctx)
	if checkBroadcast {
		hp := p.N.HB.Payloads()
		dp := p.N.DB.Payloads()
		want := uint64(0)
		if height >= p.N.Genesis.InitialHeight {
			want = height - p.N.Genesis.InitialHeight + 1
		}
		if uint64(len(hp)) > want || uint64(len(dp)) > want {
			return &world.Problem{Sig: "broadcast-count", Msg: fmt.Sprintf("%s: %d headers / %d data broadcast for %d committed blocks", when, len(hp), len(dp), want)}
		}
		for i, h := range hp {
			eh := p.N.Genesis.InitialHeight + uint64(i)
			sh, err := p.N.Store.GetHeader(p.Ctx, eh)
			if err != nil || h.Height() != eh || !bytes.Equal(sh.Hash(), h.Hash()) {
				return &world.Problem{Sig: "broadcast-header", Msg: fmt.Sprintf("%s: %d-th broadcast header is height %d hash %x, committed block %d differs", when, i, h.Height(), h.Hash(), eh)}
			}
		}
		for i, d := range dp {
			eh := p.N.Genesis.InitialHeight + uint64(i)
			_, sd, err := p.N.Store.GetBlockData(p.Ctx, eh)
			if err != nil || d.Metadata == nil || d.Height() != eh || !bytes.Equal(sd.Hash(), d.Hash()) {
				return &world.Problem{Sig: "broadcast-data", Msg: fmt.Sprintf("%s: %d-th broadcast data differs from committed data of block %d", when, i, eh)}
			}
		}
	}
	// execution calls: the last successful call for each committed height carried the block's txs
	// and the root before it
	byH := map[uint64]world.ExecCall{}
	for _, c := range p.Exec.CallsOf("exec") {
		if c.Err == "" {
			byH[c.Height] = c
		}
	}
	for _, v := range views {
		c, ok := byH[v.Height]
		if !ok {
			return &world.Problem{Sig: "exec-missing", Msg: fmt.Sprintf("%s: block %d committed without a successful ExecuteTxs call", when, v.Height)}
		}
		if !world.EqTxs(c.Txs, v.Txs) || !bytes.Equal(c.Prev, v.AppHash) {
			return &world.Problem{Sig: "exec-args", Msg: fmt.Sprintf("%s: ExecuteTxs for block %d was called with different txs or previous root", when, v.Height)}
		}
	}
	return nil
}

// HeaderHashes returns the header hash of every committed height.
// DataHashes returns the hash of the stored data record (transactions and metadata) of every committed height.
func (p *Producer) DataHashes() map[uint64][]byte {
	out := map[uint64][]byte{}
	h, _ := p.N.Store.Height(p.Ctx)
	for i := p.N.Genesis.InitialHeight; i <= h; i++ {
		if _, d, err := p.N.Store.GetBlockData(p.Ctx, i); err == nil {
			out[i] = d.Hash()
		}
	}
	return out
}

func (p *Producer) HeaderHashes() map[uint64][]byte {
	out := map[uint64][]byte{}
	h, _ := p.N.Store.Height(p.Ctx)
	for i := p.N.Genesis.InitialHeight; i <= h; i++ {
		if hdr, err := p.N.Store.GetHeader(p.Ctx, i); err == nil {
			out[i] = hdr.Hash()
		}
	}
	return out
}
