package rw

import (
	"google.golang.org/protobuf/proto"
	"strings"
	"time"

	"github.com/evstack/ev-node/types"
	pb "github.com/evstack/ev-node/types/pb/evnode/v1"

	"bytes"
	"context"
	"encoding/binary"
	"fmt"

	"pgregory.net/rapid"

	"github.com/evstack/ev-node/block"
	storepkg "github.com/evstack/ev-node/pkg/store"

	"verif/harness/world"
)

// Gen draws a real-wiring scenario: chain parameters, how the full node can learn the chain, when
// it joins, whether it is restarted on the way, and where transactions enter.
func Gen(t *rapid.T) Scenario {
	sc := Scenario{
		InitialHeight: rapid.SampledFrom([]uint64{1, 1, 1, 2, 7, 1 << 20}).Draw(t, "initial"),
		BlockMs:       rapid.SampledFrom([]int{30, 60, 100}).Draw(t, "block"),
		DAMs:          rapid.SampledFrom([]int{60, 150}).Draw(t, "da"),
		Lazy:          rapid.IntRange(0, 3).Draw(t, "lazy") == 0,
		Mode:          rapid.SampledFrom([]string{"both", "both", "p2p-only", "da-only"}).Draw(t, "mode"),
		Blocks:        rapid.IntRange(3, 10).Draw(t, "blocks"),
		CustomPayload: rapid.IntRange(0, 6).Draw(t, "custom") == 0,
		KeyLabel:      fmt.Sprintf("rw-%d", rapid.IntRange(0, 1<<30).Draw(t, "key")),
	}
	if sc.Mode != "da-only" {
		// The P2P stack (pkg/sync over go-header) validates headers with the default signature payload only:
		// on a chain with a custom payload provider a full node with peers cannot even start ("failed to fetch
		// the genesis: signature verification failed"). Not part of any listed statement; DESIGN section 6.
		sc.CustomPayload = false
	}
	if rapid.Bool().Draw(t, "late") {
		sc.JoinAfter = rapid.IntRange(1, sc.Blocks).Draw(t, "joinafter")
	}
	if rapid.IntRange(0, 2).Draw(t, "restart") == 0 {
		sc.RestartFull = rapid.IntRange(1, sc.Blocks-1).Draw(t, "restartat")
	}
	if sc.Mode != "p2p-only" && rapid.IntRange(0, 3).Draw(t, "restartagg") == 0 {
		sc.RestartAgg = rapid.IntRange(1, sc.Blocks-1).Draw(t, "restartaggat")
	}
	if sc.RestartAgg > 0 && rapid.Bool().Draw(t, "submitdelay") {
		sc.SubmitDelayMs = rapid.SampledFrom([]int{30, 100, 300}).Draw(t, "submitdelayms")
	}
	if rapid.IntRange(0, 2).Draw(t, "viaproxy") == 0 {
		sc.ViaProxy = true
		sc.BigTxs = true
		sc.ClientLimit = rapid.SampledFrom([]int{16384, 16384, 40000}).Draw(t, "clientlimit")
		sc.ExactFit = rapid.IntRange(0, 2).Draw(t, "exactfit") == 0
	}
	if rapid.IntRange(0, 3).Draw(t, "maxpending") == 0 {
		sc.MaxPending = rapid.SampledFrom([]int{3, 10, 40}).Draw(t, "maxpendingv")
	}
	n := rapid.IntRange(1, 4).Draw(t, "nsteps")
	at := 0
	seq := 0
	for i := 0; i < n; i++ {
		at += rapid.IntRange(0, 2).Draw(t, "gap")
		if at >= sc.Blocks {
			break
		}
		st := TxStep{AtBlock: at}
		for k := rapid.IntRange(1, 3).Draw(t, "ntx"); k > 0; k-- {
			st.Txs = append(st.Txs, fmt.Sprintf("rw-tx-%d-%s", seq, rapid.StringMatching("[a-z]{0,6}").Draw(t, "tx")))
			seq++
		}
		sc.Steps = append(sc.Steps, st)
	}
	return sc
}

// Labels classifies a finished run.
func (r *Result) ClassLabels() []string {
	labels := append([]string{"rw:mode-" + r.Sc.Mode}, r.Labels...)
	if r.Sc.JoinAfter > 0 {
		labels = append(labels, "rw:late-join")
	}
	if r.Sc.InitialHeight > 1 {
		labels = append(labels, "rw:initial>1")
	}
	if r.Sc.Lazy {
		labels = append(labels, "rw:lazy")
	}
	if r.Sc.CustomPayload {
		labels = append(labels, "rw:custom-payload")
	}
	if r.B != nil && len(r.B.RunErr) > 0 {
		labels = append(labels, "rw:full-node-exited-and-was-restarted")
	}
	return labels
}

func (r *Result) spec(p *Proc) world.ChainSpec {
	return world.ChainSpec{Store: p.Store(), Genesis: r.Genesis, PubKey: r.PubKey, GenesisRoot: p.Exec.GenesisRoot(), AtRest: true,
		EmptyDataHash: block.VerifDataHashForEmptyTxs(), Payload: world.NodeOpts{CustomPayload: r.Sc.CustomPayload}.Payload()}
}

// CheckAggregatorChain applies the chain oracle of DESIGN 1.5 to the aggregator's store (C01 at rest).
func (r *Result) CheckAggregatorChain() *world.Problem {
	_, p := world.CheckChain(context.Background(), r.spec(r.A))
	return p
}

// CheckTxs (C11, no crash): once the aggregator's mempool has drained, every injected transaction is
// in the aggregator's chain exactly once.
func (r *Result) CheckTxs() *world.Problem {
	if r.A.Exec.MempoolLen() != 0 {
		return nil // not drained: nothing to judge
	}
	ctx := context.Background()
	count := map[string]int{}
	for h := r.Genesis.InitialHeight; h <= r.A.Height(); h++ {
		_, d, err := r.A.Store().GetBlockData(ctx, h)
		if err != nil {
			return &world.Problem{Sig: "missing-block", Msg: fmt.Sprintf("aggregator block %d unreadable: %v", h, err)}
		}
		for _, tx := range d.Txs {
			count[string(tx)]++
		}
	}
	for _, tx := range r.Injected {
		switch c := count[string(tx)]; {
		case c == 0:
			return &world.Problem{Sig: "tx-lost", Msg: fmt.Sprintf("transaction %q left the mempool but is in no committed block", tx)}
		case c > 1:
			return &world.Problem{Sig: "tx-twice", Msg: fmt.Sprintf("transaction %q is in %d committed blocks (no crash happened)", tx, c)}
		}
	}
	return nil
}

// CheckSubmissions (C06 safety): the blobs the aggregator put on the DA layer, in DA order, are the
// committed headers (and the data of non-empty blocks) in increasing height order without a gap, each
// decoding to exactly the committed item.
func (r *Result) CheckSubmissions() *world.Problem {
	ctx := context.Background()
	nextH, nextD := r.Genesis.InitialHeight, r.Genesis.InitialHeight
	sa := r.A.Store()
	ha := r.A.Height()
	isEmpty := func(h uint64) bool {
		_, d, err := sa.GetBlockData(ctx, h)
		return err == nil && len(d.Txs) == 0
	}
	for _, sb := range r.A.DA.Stored() {
		if hd, err := decodeHeader(sb.Blob); err == nil && hd.Height() > 0 && len(hd.Signature) > 0 {
			h := hd.Height()
			if h > ha {
				// the block's final save may not have happened when the node was stopped
				continue
			}
			ch, _, err := sa.GetBlockData(ctx, h)
			if err != nil {
				return &world.Problem{Sig: "submitted-unknown-header", Msg: fmt.Sprintf("DA height %d holds a header for height %d the aggregator cannot read back: %v", sb.Height, h, err)}
			}
			if !bytes.Equal(ch.Hash(), hd.Hash()) {
				return &world.Problem{Sig: "submitted-header-differs", Msg: fmt.Sprintf("DA height %d: header blob for height %d hashes to %x, committed header to %x", sb.Height, h, hd.Hash(), ch.Hash())}
			}
			if h > nextH {
				return &world.Problem{Sig: "header-skipped", Msg: fmt.Sprintf("header %d reached the DA layer (DA height %d) before header %d", h, sb.Height, nextH)}
			}
			if h == nextH {
				nextH++
			}
			continue
		}
		if sd, err := decodeData(sb.Blob); err == nil && sd.Metadata != nil && len(sd.Txs) > 0 {
			h := sd.Height()
			if h > ha {
				continue
			}
			for nextD < h && isEmpty(nextD) {
				nextD++
			}
			_, cd, err := sa.GetBlockData(ctx, h)
			if err != nil {
				return &world.Problem{Sig: "submitted-unknown-data", Msg: fmt.Sprintf("DA height %d holds data for height %d the aggregator cannot read back: %v", sb.Height, h, err)}
			}
			if !bytes.Equal(cd.DACommitment(), sd.Data.DACommitment()) {
				return &world.Problem{Sig: "submitted-data-differs", Msg: fmt.Sprintf("DA height %d: data blob for height %d does not commit to the committed transactions", sb.Height, h)}
			}
			if h > nextD {
				return &world.Problem{Sig: "data-skipped", Msg: fmt.Sprintf("data %d reached the DA layer (DA height %d) before data %d", h, sb.Height, nextD)}
			}
			if h == nextD {
				nextD++
			}
		}
	}
	return nil
}

// CheckDAIncluded (C07 safety) for one node: reported height <= chain height, equals the persisted
// one, every height up to it has its header (and data unless empty) on the DA layer the node uses,
// and the execution layer was asked to finalize exactly initial..reported, in order.
func (r *Result) CheckDAIncluded(p *Proc) *world.Problem {
	ctx := context.Background()
	if p.Node == nil {
		return nil
	}
	inc := p.Node.VerifBlockManager().GetDAIncludedHeight()
	h := p.Height()
	if inc > h {
		return &world.Problem{Sig: "included-above-height", Msg: fmt.Sprintf("%s: DA-included height %d exceeds the chain height %d", p.Name, inc, h)}
	}
	if bz, err := p.Store().GetMetadata(ctx, storepkg.DAIncludedHeightKey); err == nil && len(bz) == 8 {
		if per := binary.LittleEndian.Uint64(bz); per != inc {
			return &world.Problem{Sig: "included-not-persisted", Msg: fmt.Sprintf("%s: reports DA-included height %d, persisted is %d", p.Name, inc, per)}
		}
	} else if inc >= r.Genesis.InitialHeight {
		return &world.Problem{Sig: "included-not-persisted", Msg: fmt.Sprintf("%s: reports DA-included height %d, nothing persisted (%v)", p.Name, inc, err)}
	}
	hdrs, datas := map[string]bool{}, map[string]bool{}
	for _, sb := range p.DA.Stored() {
		if hd, err := decodeHeader(sb.Blob); err == nil && hd.Height() > 0 && len(hd.Signature) > 0 {
			hdrs[string(hd.Hash())] = true
		} else if sd, err := decodeData(sb.Blob); err == nil && len(sd.Txs) > 0 {
			datas[string(sd.Data.DACommitment())] = true
		}
	}
	for i := r.Genesis.InitialHeight; i <= inc; i++ {
		hd, d, err := p.Store().GetBlockData(ctx, i)
		if err != nil {
			return &world.Problem{Sig: "missing-block", Msg: fmt.Sprintf("%s: block %d <= DA-included height unreadable: %v", p.Name, i, err)}
		}
		if !hdrs[string(hd.Hash())] {
			return &world.Problem{Sig: "included-without-header", Msg: fmt.Sprintf("%s: reports DA-included height %d but the header of block %d is not on the DA layer", p.Name, inc, i)}
		}
		if len(d.Txs) > 0 && !datas[string(d.DACommitment())] {
			return &world.Problem{Sig: "included-without-data", Msg: fmt.Sprintf("%s: reports DA-included height %d but the data of block %d is not on the DA layer", p.Name, inc, i)}
		}
	}
	next := r.Genesis.InitialHeight
	for _, c := range p.Exec.CallsOf("final") {
		if c.Err != "" {
			continue
		}
		if c.Height != next && c.Height+1 != next {
			return &world.Problem{Sig: "finalize-order", Msg: fmt.Sprintf("%s: SetFinal(%d) called, expected %d", p.Name, c.Height, next)}
		}
		next = c.Height + 1
	}
	if inc >= r.Genesis.InitialHeight && next < inc+1 {
		return &world.Problem{Sig: "finalize-missing", Msg: fmt.Sprintf("%s: reports DA-included height %d but the execution layer was only asked to finalize up to %d", p.Name, inc, next-1)}
	}
	return nil
}

// CheckAll runs every safety oracle (what C13 promises for concurrently running loops).
func (r *Result) CheckAll() *world.Problem {
	for _, f := range []func() *world.Problem{
		r.CheckAggregatorChain, r.CompareChains, r.CheckSubmissions, r.CheckTxs,
		func() *world.Problem { return r.CheckDAIncluded(r.A) }, func() *world.Problem { return r.CheckDAIncluded(r.B) },
	} {
		if p := f(); p != nil {
			return p
		}
	}
	return nil
}

// Judge turns a finished run into a verdict for property id using the given oracle.
// Diagnose describes where things stand (for stall messages): what of the aggregator's chain is on the DA
// layer, the aggregator's watermarks, and where the full node is.
func (r *Result) Diagnose() string {
	hs, ds := map[uint64]bool{}, map[uint64]bool{}
	for _, sb := range r.A.DA.Stored() {
		if hd, err := decodeHeader(sb.Blob); err == nil && hd.Height() > 0 && len(hd.Signature) > 0 {
			hs[hd.Height()] = true
		} else if sd, err := decodeData(sb.Blob); err == nil && sd.Metadata != nil {
			ds[sd.Height()] = true
		}
	}
	var sb strings.Builder
	ctx := context.Background()
	for h := r.Genesis.InitialHeight; h <= r.A.Height(); h++ {
		_, d, err := r.A.Store().GetBlockData(ctx, h)
		ntx := -1
		if err == nil {
			ntx = len(d.Txs)
		}
		fmt.Fprintf(&sb, " [%d: %d txs, header on DA=%v, data on DA=%v]", h, ntx, hs[h], ds[h])
	}
	if r.A.Node != nil {
		m := r.A.Node.VerifBlockManager()
		fmt.Fprintf(&sb, "; aggregator: %d headers / %d data pending, DA-included %d", m.VerifNumPendingHeaders(), m.VerifNumPendingData(), m.GetDAIncludedHeight())
	}
	if ex, err := r.A.exited(); ex {
		fmt.Fprintf(&sb, "; the aggregator's Run has ended by itself: %v", err)
	}
	if len(r.A.RunErr) > 0 {
		fmt.Fprintf(&sb, "; earlier ends of the aggregator's Run: %v", r.A.RunErr)
	}
	if r.B.Node != nil {
		m := r.B.Node.VerifBlockManager()
		fmt.Fprintf(&sb, "; full node: height %d, DA scan at %d (DA head %d), DA-included %d", r.B.Height(), m.VerifDAHeight(), r.B.DA.Head(), m.GetDAIncludedHeight())
	}
	return sb.String()
}

// GenCrash draws a scenario in which the aggregator's process dies (and is started again on what is on
// disk) while the full node can learn the chain from the DA layer too.
func GenCrash(t *rapid.T) Scenario {
	sc := Gen(t)
	if sc.Mode == "p2p-only" {
		sc.Mode = "both"
	}
	sc.RestartAgg, sc.SubmitDelayMs = 0, 0
	sc.CrashAgg = rapid.IntRange(1, sc.Blocks-1).Draw(t, "crashaggat")
	sc.CrashOps = rapid.IntRange(0, 14).Draw(t, "crashops")
	return sc
}

// GenCrashFull draws a scenario in which the full node's process dies and is started again on what is on disk.
func GenCrashFull(t *rapid.T) Scenario {
	sc := Gen(t)
	sc.RestartFull = 0
	sc.CrashFull = rapid.IntRange(1, sc.Blocks).Draw(t, "crashfullat")
	sc.CrashFullOps = rapid.IntRange(0, 14).Draw(t, "crashfullops")
	return sc
}

func (r *Result) Judge(id string, oracle func() *world.Problem) world.Verdict {
	if r.Inconclusive != "" {
		return world.Verdict{Excluded: true, Labels: append([]string{"rw:inconclusive"}, r.Labels...), Observations: []string{"rw-inconclusive: " + r.Inconclusive}}
	}
	labels := r.ClassLabels()
	if r.CrashStart != "" {
		return world.Fail(id+"/real/aggregator-unusable-after-crash", "%s", r.CrashStart)
	}
	if r.TxStuck != "" {
		if id == "C11" || id == "C13" {
			return world.Fail(id+"/real/tx-never-included", "%s", r.TxStuck)
		}
		return world.Verdict{Excluded: true, Labels: append(labels, "rw:tx-never-included")}
	}
	if r.AggStall != "" {
		if id == "C02" || id == "C05" || id == "C07" || (id == "C06" && r.Sc.MaxPending == 0) {
			// not this property's subject (C01 / C08 / C11 / C13 judge it)
			return world.Verdict{Excluded: true, Labels: append(labels, "rw:aggregator-stalled")}
		}
		return world.Fail(id+"/real/aggregator-stalled", "%s", r.AggStall)
	}
	if r.Stall != "" {
		if r.Sc.Mode == "p2p-only" && r.MaxStarve > 200*time.Millisecond {
			// with P2P as the only ingress, progress hangs on one live connection, and nothing makes a node redial a
			// peer promptly: a process that was starved of CPU (timers overrunning by hundreds of milliseconds) can
			// lose it to a keep-alive timeout. A stall under such conditions says nothing about the node.
			return world.Verdict{Excluded: true, Labels: append(labels, "rw:starved-inconclusive"), Observations: []string{fmt.Sprintf("p2p-only stall while the process was starved (timer overrun up to %s)", r.MaxStarve.Round(10*time.Millisecond))}}
		}
		return world.Fail(id+"/real/stalled", "%s", r.Stall)
	}
	if r.IncStall != "" && (id == "C07" || id == "C13" || id == "C06" || id == "C08") {
		return world.Fail(id+"/real/aggregator-inclusion-stalled", "%s", r.IncStall)
	}
	if r.StopLivelock != "" && id == "C13" {
		return world.Fail(id+"/real/stop-ignored-by-busy-loop", "%s", r.StopLivelock)
	}
	if p := oracle(); p != nil {
		return world.Fail(id+"/real/"+p.Sig, "%s", p.Msg)
	}
	if r.B.Height() < r.TargetA {
		return world.Verdict{Excluded: true, Labels: append(labels, "rw:not-reached-inconclusive")}
	}
	return world.OK(true, labels...)
}

// CheckIncludedBoth applies CheckDAIncluded to the aggregator and the full node.
func (r *Result) CheckIncludedBoth() *world.Problem {
	if p := r.CheckDAIncluded(r.A); p != nil {
		return p
	}
	return r.CheckDAIncluded(r.B)
}

// decodeHeader decodes a header blob exactly as the retriever does.
func decodeHeader(bz []byte) (*types.SignedHeader, error) {
	var hp pb.SignedHeader
	if err := proto.Unmarshal(bz, &hp); err != nil {
		return nil, err
	}
	h := new(types.SignedHeader)
	if err := h.FromProto(&hp); err != nil {
		return nil, err
	}
	return h, nil
}

// decodeData decodes a signed-data blob exactly as the retriever does.
func decodeData(bz []byte) (*types.SignedData, error) {
	var sd types.SignedData
	if err := sd.UnmarshalBinary(bz); err != nil {
		return nil, err
	}
	return &sd, nil
}
