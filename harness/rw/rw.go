// Package rw ("real wiring") runs REAL nodes — node.NewNode(...).Run with libp2p on loopback, the
// go-header sync services, the RPC server, the reaper and the single sequencer, all loops as
// FullNode.Run wires them — in real time: an aggregator and a full node that learns the chain
// through the DA double, through the real P2P stack, or both. Nothing inside the nodes is replaced
// except execution (ExecDbl) and the DA layer (DADbl).
//
// Because time is real, the only verdicts taken from the clock are *stalls*: a node that makes no
// progress at all for StallWindow (hundreds of block times) although what it needs is available,
// observed again after a confirmation pause. A run that is merely slow is inconclusive (excluded).
package rw

import (
	"bytes"
	"context"
	"fmt"
	"net"
	"os"
	"strings"
	"sync"
	"time"

	ds "github.com/ipfs/go-datastore"
	dssync "github.com/ipfs/go-datastore/sync"
	"github.com/libp2p/go-libp2p/core/crypto"
	"github.com/libp2p/go-libp2p/core/peer"

	"github.com/evstack/ev-node/block"
	coreda "github.com/evstack/ev-node/core/da"
	proxy "github.com/evstack/ev-node/da/jsonrpc"
	"github.com/evstack/ev-node/node"
	"github.com/evstack/ev-node/pkg/config"
	"github.com/evstack/ev-node/pkg/genesis"
	"github.com/evstack/ev-node/pkg/p2p"
	"github.com/evstack/ev-node/pkg/p2p/key"
	"github.com/evstack/ev-node/pkg/signer"
	storepkg "github.com/evstack/ev-node/pkg/store"
	"github.com/evstack/ev-node/sequencers/single"

	"verif/harness/world"
)

// TxStep injects transactions into the aggregator's mempool once the aggregator has produced
// AtBlock blocks.
type TxStep struct {
	AtBlock int      `json:"at_block"`
	Txs     []string `json:"txs"`
}

// Scenario is one generated run.
type Scenario struct {
	InitialHeight uint64 `json:"initial_height"`
	BlockMs       int    `json:"block_ms"`
	DAMs          int    `json:"da_ms"`
	Lazy          bool   `json:"lazy,omitempty"`
	// Mode: how the full node can learn the chain: "both", "p2p-only" (its DA layer is empty),
	// "da-only" (no peers configured on either side).
	Mode   string   `json:"mode"`
	Steps  []TxStep `json:"steps"`
	Blocks int      `json:"blocks"` // the aggregator runs until it has produced this many blocks
	// JoinAfter: the full node is started when the aggregator has produced this many blocks (0: together).
	JoinAfter int `json:"join_after"`
	// RestartFull: the full node is stopped cleanly and started again once it has applied this many blocks (0: never).
	RestartFull int `json:"restart_full,omitempty"`
	// RestartAgg: the aggregator is stopped cleanly and started again once it has produced this many blocks
	// (0: never). Only drawn when the full node can also learn the chain from the DA layer: nothing makes a
	// full node redial a restarted peer promptly.
	RestartAgg int `json:"restart_agg,omitempty"`
	// SubmitDelayMs: the DA layer answers an accepted submission only after this long, whatever happened to
	// the submitter's context meanwhile (an answer that is on its way when the node is asked to stop).
	SubmitDelayMs int `json:"submit_delay_ms,omitempty"`
	// ViaProxy: the aggregator reaches the DA layer through the REAL JSON-RPC DA client and server (da/jsonrpc)
	// as the applications wire it, with the client's batch size limit set to ClientLimit bytes.
	ViaProxy    bool `json:"via_proxy,omitempty"`
	ClientLimit int  `json:"client_limit,omitempty"`
	// ExactFit: the client's size limit becomes exactly the size of the first data blob the node submits (a
	// block filled exactly up to the limit).
	ExactFit bool `json:"exact_fit,omitempty"`
	// BigTxs: injected transactions are padded to between 90 and 4000 bytes (non-uniform blob sizes).
	BigTxs bool `json:"big_txs,omitempty"`
	// MaxPending: the aggregator's limit on blocks awaiting DA submission (0: none).
	MaxPending    int    `json:"max_pending,omitempty"`
	CustomPayload bool   `json:"custom_payload,omitempty"`
	KeyLabel      string `json:"key_label,omitempty"`
	// CrashAgg > 0: once the aggregator has produced this many blocks its process dies: CrashOps durable writes
	// later its datastore stops taking writes (nothing after that point reaches the disk; what was written
	// stays), the process is torn down and started again on what is on disk. The datastore is shared by the
	// block store, the sequencer's queue, the reaper and the P2P sync stores, as in a real node.
	CrashAgg int `json:"crash_agg,omitempty"`
	CrashOps int `json:"crash_ops,omitempty"`
	// CrashFull > 0: the same for the full node, once it has applied this many blocks (CrashFullOps writes later).
	CrashFull    int `json:"crash_full,omitempty"`
	CrashFullOps int `json:"crash_full_ops,omitempty"`
}

// Tunables (real time).
var (
	StallWindow  = 45 * time.Second
	StallConfirm = 15 * time.Second
	StopWindow   = 40 * time.Second
)

// portBusy: the node could not listen on its configured address (another process of a parallel run took the
// port between two life times of the node): trouble of the environment, never a verdict.
func portBusy(err error) bool {
	return err != nil && (strings.Contains(err.Error(), "address already in use") || strings.Contains(err.Error(), "failed to listen on any addresses"))
}

func freePort() int {
	l, err := net.Listen("tcp", "127.0.0.1:0")
	if err != nil {
		return 0
	}
	defer l.Close()
	return l.Addr().(*net.TCPAddr).Port
}

// Proc is one running (or stopped) real node.
type Proc struct {
	Name string
	Cfg  config.Config
	KV   ds.Batching
	Exec *world.ExecDbl
	DA   *world.DADbl
	// Via, when set, is what the node talks to instead of DA (the JSON-RPC client in front of DA)
	Via    coreda.DA
	NK     *key.NodeKey
	Sgn    signer.Signer
	Gen    genesis.Genesis
	Node   *node.FullNode
	cancel context.CancelFunc
	done   chan error
	RunErr []string
	Starts int
}

// Result is what a run leaves for the oracles.
type Result struct {
	Sc      Scenario
	A, B    *Proc
	PubKey  crypto.PubKey
	Genesis genesis.Genesis
	TargetA uint64 // aggregator height the full node had to reach
	Labels  []string
	// Inconclusive: the run could not be judged (setup failure or slowness that is not a stall).
	Inconclusive string
	// Stall is set when the full node made no progress for the stall window (confirmed).
	Stall string
	// AggStall is set when the aggregator stopped producing / including (confirmed).
	AggStall string
	// IncStall is set when the aggregator, restarted cleanly, no longer reports as DA-included the blocks it
	// had produced before the restart although the DA layer accepts everything (confirmed stall).
	IncStall string
	// StopLivelock is set when a node did not stop within the stop window and one of its loops was found
	// executing (never waiting) in four goroutine dumps over 22 s: a busy loop that ignores the stop request.
	StopLivelock string
	// Injected lists every transaction handed to the aggregator's mempool, in order.
	Injected [][]byte
	// AggCrashed: the aggregator's process died and was started again (CrashAgg); CrashStart is set when it
	// could not be started on what the crash left on disk.
	AggCrashed bool
	CrashStart string
	// MaxStarve: the longest a 50 ms sleep of a monitor goroutine overran during the run (how badly the process was
	// starved of CPU by whatever else runs on the machine).
	MaxStarve time.Duration
	// TxStuck: transactions stayed in the execution layer's mempool (never included) over hundreds of blocks, no crash.
	TxStuck string
}

func (p *Proc) start(sgn signer.Signer, mo block.ManagerOptions) error {
	p2pc, err := p2p.NewClient(p.Cfg, p.NK, dssync.MutexWrap(ds.NewMapDatastore()), world.Logger(), p2p.NopMetrics())
	if err != nil {
		return fmt.Errorf("p2p client: %w", err)
	}
	ctx, cancel := context.WithCancel(context.Background())
	var seq *single.Sequencer
	var nodeDA coreda.DA = p.DA
	if p.Via != nil {
		nodeDA = p.Via
	}
	seq, err = single.NewSequencerWithQueueSize(ctx, world.Logger(), p.KV, nodeDA, []byte(p.Cfg.ChainID), p.Cfg.Node.BlockTime.Duration, seqMetrics(), p.Cfg.Node.Aggregator, 1000)
	if err != nil {
		cancel()
		return fmt.Errorf("sequencer: %w", err)
	}
	n, err := node.NewNode(ctx, p.Cfg, p.Exec, seq, nodeDA, sgn, p2pc, p.Gen, p.KV, node.DefaultMetricsProvider(p.Cfg.Instrumentation), world.Logger(), node.NodeOptions{ManagerOptions: mo})
	if err != nil {
		cancel()
		return fmt.Errorf("node.NewNode: %w", err)
	}
	p.Node = n.(*node.FullNode)
	p.cancel = cancel
	p.done = make(chan error, 1)
	p.Starts++
	go func(fn *node.FullNode, done chan error) { done <- fn.Run(ctx) }(p.Node, p.done)
	return nil
}

// stop cancels the node and waits for Run to return; false if it did not within StopWindow.
func (p *Proc) stop() bool {
	if p.cancel == nil {
		return true
	}
	p.cancel()
	select {
	case err := <-p.done:
		if err != nil && err != context.Canceled {
			p.RunErr = append(p.RunErr, err.Error())
		}
		p.cancel = nil
		return true
	case <-time.After(StopWindow):
		return false
	}
}

// exited reports whether Run has returned by itself (a fatal error in a loop).
func (p *Proc) exited() (bool, error) {
	select {
	case err := <-p.done:
		p.done <- err
		return true, err
	default:
		return false, nil
	}
}

// Height is the node's recorded chain height.
func (p *Proc) Height() uint64 {
	h, err := p.Store().Height(context.Background())
	if err != nil {
		return 0
	}
	return h
}

// Store is a view of the node's block store.
func (p *Proc) Store() storepkg.Store { return world.StoreOn(p.KV) }

// waitProgress polls until cond() holds. progress() is any monotone progress measure; if it does not
// change for StallWindow, and still has not after StallConfirm more, the wait ends with stalled=true.
func waitProgress(cond func() bool, progress func() uint64, abort func() bool) (ok, stalled bool) {
	last := progress()
	lastChange := time.Now()
	confirmed := false
	for {
		if cond() {
			return true, false
		}
		if abort != nil && abort() {
			return false, false
		}
		if p := progress(); p != last {
			last, lastChange, confirmed = p, time.Now(), false
		}
		since := time.Since(lastChange)
		if since > StallWindow && !confirmed {
			confirmed = true
		}
		if since > StallWindow+StallConfirm {
			return false, true
		}
		time.Sleep(50 * time.Millisecond)
	}
}

// Run executes the scenario. Files go under dir.
func Run(sc Scenario, dir string) *Result {
	res := &Result{Sc: sc}
	monDone := make(chan struct{})
	var monWG sync.WaitGroup
	monWG.Add(1)
	go func() {
		defer monWG.Done()
		for {
			t0 := time.Now()
			select {
			case <-monDone:
				return
			case <-time.After(50 * time.Millisecond):
			}
			if over := time.Since(t0) - 50*time.Millisecond; over > res.MaxStarve {
				res.MaxStarve = over
			}
		}
	}()
	defer func() { close(monDone); monWG.Wait() }()
	root, _ := os.MkdirTemp(dir, "rw")
	defer os.RemoveAll(root)
	label := sc.KeyLabel
	if label == "" {
		label = "proposer"
	}
	sgn, _, pub := world.SignerFromSeed(label)
	res.PubKey = pub
	base := world.NodeOpts{ChainID: "rw-chain", InitialHeight: sc.InitialHeight, GenesisTime: time.Now().Add(-time.Minute),
		BlockTime: time.Duration(sc.BlockMs) * time.Millisecond, DABlockTime: time.Duration(sc.DAMs) * time.Millisecond,
		LazyInterval: 400 * time.Millisecond, MempoolTTL: 2, CustomPayload: sc.CustomPayload, MaxPending: uint64(sc.MaxPending)}
	gen := world.MakeGenesis(base, pub)
	res.Genesis = gen
	da := world.NewDADbl(0)
	da.SubmitDelay = time.Duration(sc.SubmitDelayMs) * time.Millisecond
	mk := func(name string, agg bool) *Proc {
		o := base
		o.Aggregator = agg
		o.Lazy = agg && sc.Lazy
		o.RootDir = root + "/" + name
		_ = os.MkdirAll(o.RootDir, 0o755)
		cfg := world.MakeConfig(o)
		cfg.ChainID = o.ChainID
		cfg.P2P.ListenAddress = fmt.Sprintf("/ip4/127.0.0.1/tcp/%d", freePort())
		cfg.RPC.Address = "127.0.0.1:0"
		cfg.Instrumentation = &config.InstrumentationConfig{}
		nk, _ := key.GenerateNodeKey()
		return &Proc{Name: name, Cfg: cfg, KV: dssync.MutexWrap(ds.NewMapDatastore()), Exec: world.NewExecDbl("pw"), DA: da, NK: nk, Gen: gen}
	}
	a, b := mk("agg", true), mk("full", false)
	if sc.CrashAgg > 0 {
		cds := world.NewCrashDS()
		cds.SetNoPanic(true)
		a.KV = cds
	}
	if sc.CrashFull > 0 {
		cds := world.NewCrashDS()
		cds.SetNoPanic(true)
		b.KV = cds
	}
	res.A, res.B = a, b
	if a.NK == nil || b.NK == nil {
		res.Inconclusive = "node key generation failed"
		return res
	}
	if sc.ViaProxy {
		port := freePort()
		srv := proxy.NewServer(world.Logger(), "127.0.0.1", fmt.Sprint(port), da)
		if err := srv.Start(context.Background()); err != nil {
			res.Inconclusive = "JSON-RPC DA server does not start: " + err.Error()
			return res
		}
		defer func() {
			sctx, c := context.WithTimeout(context.Background(), 3*time.Second)
			_ = srv.Stop(sctx)
			c()
		}()
		cl, err := proxy.NewClient(context.Background(), world.Logger(), fmt.Sprintf("http://127.0.0.1:%d", port), "", "")
		if err != nil {
			res.Inconclusive = "JSON-RPC DA client: " + err.Error()
			return res
		}
		defer cl.Close()
		if sc.ClientLimit > 0 {
			cl.DA.MaxBlobSize = uint64(sc.ClientLimit)
		}
		var via coreda.DA = &cl.DA
		if sc.ExactFit {
			via = &exactFit{DA: &cl.DA, api: &cl.DA}
		}
		a.Via = via
		res.Labels = append(res.Labels, "da-via-json-rpc-proxy")
	}
	switch sc.Mode {
	case "p2p-only":
		b.DA = world.NewDADbl(0) // a DA layer on which nothing of this chain ever appears
	case "da-only":
		// no peers on either side
	}
	if sc.Mode != "da-only" {
		id, err := peer.IDFromPrivateKey(a.NK.PrivKey)
		if err != nil {
			res.Inconclusive = "peer id: " + err.Error()
			return res
		}
		b.Cfg.P2P.Peers = fmt.Sprintf("%s/p2p/%s", a.Cfg.P2P.ListenAddress, id.String())
	}
	mo := base.ManagerOptions()
	var mu sync.Mutex
	defer func() {
		mu.Lock()
		defer mu.Unlock()
		// never leave a node running
		if b.cancel != nil && !b.stop() {
			res.Labels = append(res.Labels, "full-node-stop-slow")
			if fn := world.BusyLoop(); fn != "" && res.StopLivelock == "" {
				res.StopLivelock = fmt.Sprintf("the full node did not stop within %s after the stop request; %s has been executing without ever waiting (same goroutine in four goroutine dumps over 22 s)", StopWindow, fn)
			}
		}
		if a.cancel != nil && !a.stop() {
			res.Labels = append(res.Labels, "aggregator-stop-slow")
			if fn := world.BusyLoop(); fn != "" && res.StopLivelock == "" {
				res.StopLivelock = fmt.Sprintf("the aggregator did not stop within %s after the stop request; %s has been executing without ever waiting (same goroutine in four goroutine dumps over 22 s)", StopWindow, fn)
			}
		}
	}()
	if err := a.start(sgn, mo); err != nil {
		res.Inconclusive = "aggregator does not start: " + err.Error()
		return res
	}
	first := sc.InitialHeight
	produced := func() int {
		h := a.Height()
		if h < first {
			return 0
		}
		return int(h-first) + 1
	}
	applied := func() int {
		h := b.Height()
		if h < first {
			return 0
		}
		return int(h-first) + 1
	}
	nextStep := 0
	inject := func() {
		for nextStep < len(sc.Steps) && produced() >= sc.Steps[nextStep].AtBlock {
			for _, tx := range sc.Steps[nextStep].Txs {
				btx := []byte(tx)
				if sc.BigTxs {
					pads := []int{200, 1800, 700, 4000, 90, 2500}
					btx = append(btx, bytes.Repeat([]byte{'.'}, pads[len(res.Injected)%len(pads)])...)
				}
				a.Exec.InjectTx(btx)
				res.Injected = append(res.Injected, btx)
			}
			nextStep++
		}
	}
	aggGone := func() bool { ex, _ := a.exited(); return ex }
	bStarted := false
	startB := func() bool {
		if err := b.start(nil, mo); err != nil {
			res.Inconclusive = "full node does not start: " + err.Error()
			return false
		}
		bStarted = true
		return true
	}
	if sc.JoinAfter == 0 && !startB() {
		return res
	}
	// after a crash the aggregator is started on what is on disk; a start that fails for another reason than a
	// listening port still being closed is what the crash left behind
	startAfterCrash := func() string {
		var err error
		for try := 0; try < 40; try++ {
			if err = a.start(sgn, mo); err == nil {
				return ""
			}
			if !strings.Contains(err.Error(), "address already in use") && !strings.Contains(err.Error(), "bind:") && try >= 2 {
				break
			}
			time.Sleep(100 * time.Millisecond)
		}
		return fmt.Sprintf("the aggregator does not start on what its crash left on disk: %v", err)
	}
	// a crashed aggregator whose Run ends by itself is started again, as a process supervisor would; a streak
	// of such exits without any progress that lasts as long as a stall is a stall
	var aStreakStart time.Time
	aStreakHeight := uint64(0)
	aggGoneSup := func() bool {
		ex, err := a.exited()
		if !ex {
			return false
		}
		if !res.AggCrashed {
			return true
		}
		<-a.done
		a.cancel()
		a.cancel = nil
		if portBusy(err) {
			res.Inconclusive = "the aggregator's listen address was taken by another process while it was down: " + err.Error()
			return true
		}
		if len(a.RunErr) < 12 {
			a.RunErr = append(a.RunErr, fmt.Sprintf("%v", err))
		}
		if h := a.Height(); aStreakStart.IsZero() || h != aStreakHeight {
			aStreakStart, aStreakHeight = time.Now(), h
		}
		if time.Since(aStreakStart) > StallWindow+StallConfirm {
			res.CrashStart = fmt.Sprintf("after its crash the aggregator's Run ends by itself every time it is started (%d times, height stays %d): %v", len(a.RunErr), a.Height(), a.RunErr)
			return true
		}
		if len(a.RunErr) >= 3 {
			// nothing but the one crash ever went wrong in this run: a node that halts itself again and again is
			// not producing blocks, however often a supervisor starts it
			res.CrashStart = fmt.Sprintf("after its crash (and nothing else going wrong) the aggregator halts itself again and again: its Run ended by itself %d times in a row, each time after at most a block or two (height now %d): %v", len(a.RunErr), a.Height(), a.RunErr)
			return true
		}
		time.Sleep(500 * time.Millisecond)
		if msg := startAfterCrash(); msg != "" {
			res.CrashStart = msg
			return true
		}
		return false
	}
	// phase 1: the aggregator produces (transactions are injected at the scripted points)
	aggRestarted := false
	aggHeightAtRestart := uint64(0)
	ok, stalled := waitProgress(func() bool {
		inject()
		if sc.RestartAgg > 0 && !aggRestarted && produced() >= sc.RestartAgg {
			aggRestarted = true
			aggHeightAtRestart = a.Height()
			if !a.stop() {
				res.Inconclusive = "aggregator did not stop within the stop window"
				res.Labels = append(res.Labels, "aggregator-stop-slow")
				return true
			}
			var err error
			for try := 0; try < 20; try++ {
				if err = a.start(sgn, mo); err == nil {
					break
				}
				time.Sleep(100 * time.Millisecond) // the listening port of the previous instance may still be closing
			}
			if err != nil {
				res.Inconclusive = "aggregator does not start again: " + err.Error()
				return true
			}
			res.Labels = append(res.Labels, "agg-restarted")
		}
		if sc.CrashAgg > 0 && !res.AggCrashed && produced() >= sc.CrashAgg {
			res.AggCrashed = true
			res.Labels = append(res.Labels, "agg-crashed")
			raw := a.KV.(*world.CrashDS)
			raw.ArmCrashAfter(sc.CrashOps)
			for t0 := time.Now(); !raw.Dead() && time.Since(t0) < 20*time.Second; {
				time.Sleep(2 * time.Millisecond)
			}
			if !raw.Dead() {
				raw.Kill() // an idle node performs no writes: it dies where it stands
			}
			if !a.stop() {
				res.Inconclusive = "the aggregator's process could not be torn down within the stop window after its datastore died"
				res.Labels = append(res.Labels, "aggregator-stop-slow")
				return true
			}
			img := world.FromImage(raw.Image())
			img.SetNoPanic(true)
			a.KV = img
			if msg := startAfterCrash(); msg != "" {
				res.CrashStart = msg
				return true
			}
		}
		if !bStarted && produced() >= sc.JoinAfter {
			if !startB() {
				return true
			}
		}
		if produced() >= sc.Blocks && nextStep == len(sc.Steps) {
			// a transaction that was reaped and whose batch died with the process stays in the execution layer's
			// mempool for ever (known finding of C11): after a crash the mempool is not waited for
			if a.Exec.MempoolLen() == 0 || res.AggCrashed {
				return true
			}
			if produced() >= sc.Blocks+300 {
				res.TxStuck = fmt.Sprintf("the aggregator has produced %d blocks (%d more than the scenario asks for) and %d of the transactions handed to its mempool are still in no block, although nothing went wrong in this run", produced(), produced()-sc.Blocks, a.Exec.MempoolLen())
				return true
			}
		}
		return false
	}, func() uint64 { return uint64(produced()) }, aggGoneSup)
	if res.CrashStart != "" || res.TxStuck != "" {
		res.TargetA = a.Height()
		return res
	}
	if res.Inconclusive != "" {
		return res
	}
	if !ok {
		if stalled {
			res.TargetA = a.Height()
			res.AggStall = fmt.Sprintf("the aggregator made no progress for %s after %d blocks (%d transactions still in the mempool, %d of %d injection steps done)", StallWindow+StallConfirm, produced(), a.Exec.MempoolLen(), nextStep, len(sc.Steps))
		} else {
			_, err := a.exited()
			res.Inconclusive = fmt.Sprintf("aggregator stopped by itself: %v", err)
		}
		return res
	}
	if !bStarted && !startB() {
		return res
	}
	// A full node whose Run ends by itself (start-up cannot reach a peer yet, or a loop reported a fatal
	// error) is started again, as a process supervisor would; giving up after a few attempts.
	gaveUp := false
	var streakStart time.Time
	streakHeight := uint64(0)
	bGone := func() bool {
		ex, err := b.exited()
		if !ex {
			return false
		}
		<-b.done
		b.cancel()
		b.cancel = nil
		if portBusy(err) {
			// nobody dials the full node: it simply listens elsewhere
			b.Cfg.P2P.ListenAddress = fmt.Sprintf("/ip4/127.0.0.1/tcp/%d", freePort())
			streakStart = time.Time{}
			if !startB() {
				return true
			}
			return false
		}
		if len(b.RunErr) < 12 {
			b.RunErr = append(b.RunErr, fmt.Sprintf("%v", err))
		}
		// a streak of exits without any progress that lasts as long as a stall is a stall
		if h := b.Height(); streakStart.IsZero() || h != streakHeight {
			streakStart, streakHeight = time.Now(), h
		}
		if time.Since(streakStart) > StallWindow+StallConfirm {
			gaveUp = true
			return true
		}
		time.Sleep(time.Second) // libp2p backs off from a peer it could not dial; the aggregator may be restarting
		if !startB() {
			return true
		}
		return false
	}
	bothGone := func() bool {
		if res.AggCrashed && aggGoneSup() {
			return true
		}
		return bGone()
	}
	// phase 2: optional clean restart of the full node once it has applied RestartFull blocks
	if sc.RestartFull > 0 {
		ok, stalled := waitProgress(func() bool { return applied() >= sc.RestartFull }, func() uint64 { return uint64(applied()) }, bothGone)
		if res.CrashStart != "" {
			res.TargetA = a.Height()
			return res
		}
		if !ok && gaveUp {
			res.TargetA = a.Height()
			res.Stall = fmt.Sprintf("the full node's Run ended by itself %d times (height %d, aggregator at %d): %v", len(b.RunErr), b.Height(), res.TargetA, b.RunErr)
			return res
		}
		if res.Inconclusive != "" {
			return res
		}
		if stalled {
			res.TargetA = a.Height()
			res.Stall = fmt.Sprintf("the full node made no progress for %s at height %d (before its restart) while the aggregator is at %d", StallWindow+StallConfirm, b.Height(), a.Height())
			return res
		}
		if ok {
			if !b.stop() {
				res.Inconclusive = "full node did not stop within the stop window"
				res.Labels = append(res.Labels, "full-node-stop-slow")
				return res
			}
			res.Labels = append(res.Labels, "full-restarted")
			if !startB() {
				return res
			}
		}
	}
	// phase 2b: the full node's process dies once it has applied CrashFull blocks and is started again on what is on disk
	if sc.CrashFull > 0 {
		ok, stalled := waitProgress(func() bool { return applied() >= sc.CrashFull }, func() uint64 { return uint64(applied()) }, bothGone)
		if res.CrashStart != "" {
			res.TargetA = a.Height()
			return res
		}
		if !ok && gaveUp {
			res.TargetA = a.Height()
			res.Stall = fmt.Sprintf("the full node's Run ended by itself %d times (height %d, aggregator at %d): %v", len(b.RunErr), b.Height(), res.TargetA, b.RunErr)
			return res
		}
		if res.Inconclusive != "" {
			return res
		}
		if stalled {
			res.TargetA = a.Height()
			res.Stall = fmt.Sprintf("the full node made no progress for %s at height %d (before its crash) while the aggregator is at %d; %s", StallWindow+StallConfirm, b.Height(), a.Height(), res.Diagnose())
			return res
		}
		if ok {
			raw := b.KV.(*world.CrashDS)
			raw.ArmCrashAfter(sc.CrashFullOps)
			for t0 := time.Now(); !raw.Dead() && time.Since(t0) < 10*time.Second; {
				time.Sleep(2 * time.Millisecond)
			}
			if !raw.Dead() {
				raw.Kill()
			}
			if b.cancel != nil && !b.stop() {
				res.Inconclusive = "the full node's process could not be torn down within the stop window after its datastore died"
				res.Labels = append(res.Labels, "full-node-stop-slow")
				return res
			}
			img := world.FromImage(raw.Image())
			img.SetNoPanic(true)
			b.KV = img
			res.Labels = append(res.Labels, "full-crashed")
			var err error
			for try := 0; try < 40; try++ {
				if err = b.start(nil, mo); err == nil {
					break
				}
				if !strings.Contains(err.Error(), "address already in use") && !strings.Contains(err.Error(), "bind:") && try >= 2 {
					break
				}
				time.Sleep(100 * time.Millisecond)
			}
			if err != nil {
				res.TargetA = a.Height()
				res.Stall = fmt.Sprintf("the full node does not start on what its crash left on disk: %v", err)
				return res
			}
			bStarted = true
		}
	}
	// phase 3: the full node has to reach what the aggregator had produced at this moment
	res.TargetA = a.Height()
	ok, stalled = waitProgress(func() bool { return b.Height() >= res.TargetA }, func() uint64 { return b.Height() }, bothGone)
	if res.CrashStart != "" {
		return res
	}
	if stalled {
		res.Stall = fmt.Sprintf("the full node made no progress for %s at height %d while the aggregator (height >= %d) is reachable via %s; %s", StallWindow+StallConfirm, b.Height(), res.TargetA, sc.Mode, res.Diagnose())
		return res
	}
	if !ok && gaveUp {
		res.Stall = fmt.Sprintf("the full node's Run ended by itself %d times (height %d, aggregator >= %d): %v", len(b.RunErr), b.Height(), res.TargetA, b.RunErr)
		return res
	}
	if res.Inconclusive != "" {
		return res
	}
	// a cleanly restarted aggregator must again report as DA-included what it had produced before the restart
	// (its submissions are accepted; the inclusion marks were saved at shutdown)
	if res.TargetA >= first && a.Node != nil && !res.AggCrashed { // (after a crash: known finding of C07, judged there)
		inc := func() uint64 { return a.Node.VerifBlockManager().GetDAIncludedHeight() }
		want := res.TargetA
		_, stalled := waitProgress(func() bool { return inc() >= want }, inc, aggGone)
		if stalled {
			how := "the DA layer accepts every submission"
			if aggRestarted {
				how = fmt.Sprintf("the aggregator was stopped cleanly at height %d and started again; the DA layer accepts every submission", aggHeightAtRestart)
			}
			res.IncStall = fmt.Sprintf("%s, yet for %s the aggregator's DA-included height has stayed at %d (it had produced block %d long before; chain height %d, %d headers / %d data pending)", how, StallWindow+StallConfirm, inc(), want, a.Height(),
				a.Node.VerifBlockManager().VerifNumPendingHeaders(), a.Node.VerifBlockManager().VerifNumPendingData())
		}
	}
	// let the aggregator's DA submissions and the full node's DA-inclusion settle a little (best effort)
	time.Sleep(time.Duration(3*sc.DAMs) * time.Millisecond)
	mu.Lock()
	if !b.stop() {
		res.Labels = append(res.Labels, "full-node-stop-slow")
		if fn := world.BusyLoop(); fn != "" {
			res.StopLivelock = fmt.Sprintf("the full node did not stop within %s after the stop request; %s has been executing without ever waiting (same goroutine in four goroutine dumps over 22 s)", StopWindow, fn)
		}
	}
	if !a.stop() {
		res.Labels = append(res.Labels, "aggregator-stop-slow")
		if fn := world.BusyLoop(); fn != "" && res.StopLivelock == "" {
			res.StopLivelock = fmt.Sprintf("the aggregator did not stop within %s after the stop request; %s has been executing without ever waiting (same goroutine in four goroutine dumps over 22 s)", StopWindow, fn)
		}
	}
	mu.Unlock()
	return res
}

// CompareChains checks that every block the full node holds equals the aggregator's block of that
// height (header hash, transactions), that the full node's chain is valid on its own (CheckChain:
// links, signatures, roots, recorded state = recorded height) and that its execution layer was asked
// to execute exactly those blocks in height order (a block may be executed again after a restart).
func (r *Result) CompareChains() *world.Problem {
	ctx := context.Background()
	sa, sb := r.A.Store(), r.B.Store()
	ha, hb := r.A.Height(), r.B.Height()
	if hb > ha {
		return &world.Problem{Sig: "beyond-proposer", Msg: fmt.Sprintf("full node height %d exceeds the aggregator's %d", hb, ha)}
	}
	payload := world.NodeOpts{CustomPayload: r.Sc.CustomPayload}.Payload()
	spec := world.ChainSpec{Store: sb, Genesis: r.Genesis, PubKey: r.PubKey, GenesisRoot: r.B.Exec.GenesisRoot(), AtRest: true,
		EmptyDataHash: block.VerifDataHashForEmptyTxs(), Payload: payload}
	if _, p := world.CheckChain(ctx, spec); p != nil {
		return &world.Problem{Sig: p.Sig, Msg: "full node's own chain: " + p.Msg}
	}
	for h := r.Genesis.InitialHeight; h <= hb; h++ {
		ah, ad, err := sa.GetBlockData(ctx, h)
		if err != nil {
			return &world.Problem{Sig: "harness/agg-block", Msg: fmt.Sprintf("aggregator block %d unreadable: %v", h, err)}
		}
		bh, bd, err := sb.GetBlockData(ctx, h)
		if err != nil {
			return &world.Problem{Sig: "missing-block", Msg: fmt.Sprintf("full node height is %d but block %d is not retrievable: %v", hb, h, err)}
		}
		if !bytes.Equal(ah.Hash(), bh.Hash()) {
			return &world.Problem{Sig: "header-differs", Msg: fmt.Sprintf("block %d: full node header hash %x, aggregator's %x", h, bh.Hash(), ah.Hash())}
		}
		if len(ad.Txs) != len(bd.Txs) {
			return &world.Problem{Sig: "txs-differ", Msg: fmt.Sprintf("block %d: full node has %d txs, aggregator %d", h, len(bd.Txs), len(ad.Txs))}
		}
		for i := range ad.Txs {
			if !bytes.Equal(ad.Txs[i], bd.Txs[i]) {
				return &world.Problem{Sig: "txs-differ", Msg: fmt.Sprintf("block %d tx %d differs", h, i)}
			}
		}
	}
	next := r.Genesis.InitialHeight
	for _, c := range r.B.Exec.CallsOf("exec") {
		if c.Err != "" {
			continue
		}
		if c.Height > next || c.Height+1 < next {
			return &world.Problem{Sig: "exec-order", Msg: fmt.Sprintf("full node ExecuteTxs called for height %d, expected %d (or a re-execution of %d)", c.Height, next, next-1)}
		}
		next = c.Height + 1
	}
	if hb >= r.Genesis.InitialHeight && next < hb+1 {
		return &world.Problem{Sig: "exec-missing", Msg: fmt.Sprintf("full node height %d but its execution layer only executed up to %d", hb, next-1)}
	}
	return nil
}

// exactFit sits between the node and the JSON-RPC DA client: the client's size limit follows the size of the
// largest data blob the node has offered so far (a block filled exactly up to the limit).
type exactFit struct {
	coreda.DA
	api  *proxy.API
	done bool
	mu   sync.RWMutex
}

func (e *exactFit) SubmitWithOptions(ctx context.Context, blobs []coreda.Blob, gp float64, ns []byte, opts []byte) ([]coreda.ID, error) {
	// the client reads its limit without synchronisation: the limit is only changed while no call is in flight
	need := uint64(0)
	e.mu.RLock()
	cur, done := e.api.MaxBlobSize, e.done
	e.mu.RUnlock()
	for _, b := range blobs {
		if sd, err := decodeData(b); err == nil && len(sd.Txs) > 0 && (!done || uint64(len(b)) > cur) && uint64(len(b)) > need {
			need = uint64(len(b))
		}
	}
	if need > 0 {
		e.mu.Lock()
		if !e.done || need > e.api.MaxBlobSize {
			// the limit is the size of the largest data blob offered so far: every blob can be accepted, the
			// largest one fills a submission exactly
			e.api.MaxBlobSize = need
			e.done = true
		}
		e.mu.Unlock()
	}
	e.mu.RLock()
	defer e.mu.RUnlock()
	return e.DA.SubmitWithOptions(ctx, blobs, gp, ns, opts)
}

func (e *exactFit) Submit(ctx context.Context, blobs []coreda.Blob, gp float64, ns []byte) ([]coreda.ID, error) {
	return e.SubmitWithOptions(ctx, blobs, gp, ns, nil)
}

// seqMetrics are the sequencing layer's metrics as the applications pass them when instrumentation is off
// (discard collectors; the sequencer then goes through its whole metrics path, as in a real node).
func seqMetrics() *single.Metrics {
	m, _ := single.NopMetrics()
	return m
}
