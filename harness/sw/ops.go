package sw

import (
	"fmt"

	"pgregory.net/rapid"

	"verif/harness/pw"
	"verif/harness/world"
)

// Op is one harness action, taken at a quiescent point.
type Op struct {
	// Kind: produce | produce-crash | produce-burst | tick | script | restart | crash | signal
	Kind   string             `json:"kind"`
	Step   *pw.Step           `json:"step,omitempty"`
	N      int                `json:"n,omitempty"`
	Target string             `json:"target,omitempty"` // header | data (script)
	Script []world.SubmitResp `json:"script,omitempty"`
}

// Scenario is a submission-world history.
type Scenario struct {
	InitialHeight uint64 `json:"initial_height"`
	MaxBlob       uint64 `json:"max_blob,omitempty"`
	MempoolTTL    uint64 `json:"mempool_ttl"`
	MaxPending    uint64 `json:"max_pending,omitempty"`
	Ops           []Op   `json:"ops"`
	// ViaClient: the node submits through its real DA client (da/jsonrpc.API, see world.ViaClient), whose own
	// batch limit is ClientLimit (0 = the client's default of about 2 MB).
	ViaClient   bool   `json:"via_client,omitempty"`
	ClientLimit uint64 `json:"client_limit,omitempty"`
	// Prometheus: the node runs with instrumentation.prometheus = true (labelled collectors).
	Prometheus bool `json:"prometheus,omitempty"`
	// DBPath: the configured database path below the home directory (rollkit.db_path; "" = the default "data").
	DBPath string `json:"db_path,omitempty"`
}

// GenVia draws whether the scenario runs through the real DA client, and the client's limit.
func (sc *Scenario) GenVia(t *rapid.T) {
	sc.Prometheus = rapid.IntRange(0, 4).Draw(t, "prometheus") == 0
	sc.DBPath = rapid.SampledFrom([]string{"", "", "", "db", "chain/db", "-"}).Draw(t, "dbpath")
	if rapid.IntRange(0, 3).Draw(t, "viaclient") != 0 {
		return
	}
	sc.ViaClient = true
	sc.ClientLimit = rapid.SampledFrom([]uint64{0, 0, 700, 1000, 1600, 5000}).Draw(t, "clientlimit")
}

// GenTxs draws a small list of small transactions.
func GenTxs(t *rapid.T) [][]byte {
	n := rapid.IntRange(1, 4).Draw(t, "ntx")
	out := make([][]byte, n)
	for i := range out {
		out[i] = rapid.SliceOfN(rapid.Byte(), 1, 24).Draw(t, "tx")
	}
	return out
}

// GenProduce draws a well-formed production step; emptyBias in [0,100] is the percentage of empty batches.
func GenProduce(t *rapid.T, emptyBias int) Op {
	var st pw.Step
	if rapid.IntRange(0, 99).Draw(t, "empty?") < emptyBias {
		st = pw.GoodStep()
	} else if rapid.IntRange(0, 4).Draw(t, "repeat?") == 0 {
		// a transaction list that other blocks of the history carry as well (e.g. a client re-sending
		// the same transaction): same data commitment at different heights
		st = pw.GoodStep([]byte("resent-tx-" + rapid.SampledFrom([]string{"a", "b"}).Draw(t, "which")))
	} else {
		st = pw.GoodStep(GenTxs(t)...)
	}
	return Op{Kind: "produce", Step: &st}
}

// GenResp draws one scripted DA response.
func GenResp(t *rapid.T) world.SubmitResp {
	k := rapid.SampledFrom([]string{"accept", "accept", "prefix", "timeout", "mempool", "toobig", "error", "acklost", "seqerr", "deadline", "canceled", "da-canceled"}).Draw(t, "resp")
	r := world.SubmitResp{Kind: k}
	if k == "prefix" {
		r.K = rapid.IntRange(1, 3).Draw(t, "k")
	}
	return r
}

// GenScript draws a script op.
func GenScript(t *rapid.T, maxLen int) Op {
	tg := rapid.SampledFrom([]string{"header", "data"}).Draw(t, "target")
	n := rapid.IntRange(1, maxLen).Draw(t, "nresp")
	o := Op{Kind: "script", Target: tg}
	for i := 0; i < n; i++ {
		o.Script = append(o.Script, GenResp(t))
	}
	return o
}

// Apply performs one op; it returns the production result for produce ops.
func (w *World) Apply(o Op) (*pw.StepResult, error) {
	switch o.Kind {
	case "produce":
		r := w.Produce(*o.Step)
		return &r, nil
	case "produce-crash":
		// the process dies at the N-th durable write of this production step (or right after the step if it
		// performs fewer), then the node is started again on what is on disk
		w.P.Raw.SetNoPanic(true)
		w.P.Raw.ArmCrashAfter(o.N)
		r := w.Produce(*o.Step)
		w.P.Raw.Disarm()
		if err := w.Restart(false); err != nil {
			return &r, err
		}
		return &r, nil
	case "produce-burst":
		// N blocks in a row (every third one empty): a long backlog before the next submission round
		var last pw.StepResult
		for i := 0; i < o.N; i++ {
			st := *o.Step
			if i%3 == 2 {
				st = pw.GoodStep()
			}
			last = w.Produce(st)
			if last.After != last.Before+1 {
				break
			}
		}
		return &last, nil
	case "tick":
		n := o.N
		if n < 1 {
			n = 1
		}
		w.Tick(n)
	case "script":
		w.P.DA.PushScript(o.Target, o.Script...)
	case "restart":
		return nil, w.Restart(true)
	case "crash":
		return nil, w.Restart(false)
	case "signal":
		w.SignalIncluder()
	default:
		return nil, fmt.Errorf("unknown op %q", o.Kind)
	}
	return nil, nil
}

// InBubble runs f inside a synctest bubble, converting a panic inside the bubble into a returned
// value so that rapid's control-flow panics never cross the bubble (draws happen outside).
func InBubble(f func() world.Verdict) (v world.Verdict) {
	var pan any
	runBubble(func() {
		defer func() {
			if r := recover(); r != nil {
				pan = r
			}
		}()
		v = f()
	})
	if pan != nil {
		return world.Fail("panic", "panic inside the bubble: %v", pan)
	}
	return v
}
