// Package sw is the submission world shared by C06, C07 and C08 (and C13): the producer world
// of package pw with the UNMODIFIED HeaderSubmissionLoop, DataSubmissionLoop and DAIncluderLoop
// running as goroutines inside a testing/synctest bubble. The harness owns the clock: a Tick
// advances virtual time by one DA block time + 1 ms and waits for quiescence, so each tick is one
// real iteration of each loop; retries and back-offs inside an iteration elapse in virtual time.
// All methods must be called from inside synctest.Run, on its root goroutine.
package sw

import (
	"bytes"
	"context"
	"encoding/binary"
	"fmt"
	"strings"
	"sync"
	"testing/synctest"
	"time"

	"google.golang.org/protobuf/proto"

	storepkg "github.com/evstack/ev-node/pkg/store"
	"github.com/evstack/ev-node/types"
	pb "github.com/evstack/ev-node/types/pb/evnode/v1"

	"verif/harness/pw"
	"verif/harness/world"
)

// KindOf classifies a blob the way the retriever does: header first, else signed data.
func KindOf(b []byte) string { return KindOfP(nil)(b) }

// KindOfP is KindOf for a chain with the given signature payload provider (nil: default).
func KindOfP(provider types.SignaturePayloadProvider) func([]byte) string {
	return func(b []byte) string { return kindOf(b, provider) }
}

func kindOf(b []byte, provider types.SignaturePayloadProvider) string {
	var hp pb.SignedHeader
	if proto.Unmarshal(b, &hp) == nil {
		sh := new(types.SignedHeader)
		if sh.FromProto(&hp) == nil {
			if provider != nil {
				sh.SetCustomVerifier(provider)
			}
			if sh.ValidateBasic() == nil {
				return "header"
			}
		}
	}
	var sd types.SignedData
	if sd.UnmarshalBinary(b) == nil && len(sd.Txs) > 0 {
		return "data"
	}
	return "other"
}

// World is a sequencer node with its DA-facing loops running.
type World struct {
	P      *pw.Producer
	cancel context.CancelFunc
	wg     *sync.WaitGroup
	ErrCh  chan error
	// Errors collects what the loops reported on their error channel.
	Errors []string
	// MaxHdrWM / MaxDataWM track the highest watermarks observed (monotonicity across restarts).
	MaxHdrWM, MaxDataWM uint64
	// MaxDAIncluded is the highest DA-included height ever reported.
	MaxDAIncluded uint64
	// Restarts counts restarts; CrashRestarts those without a clean shutdown.
	Restarts, CrashRestarts int
	// RestartCall records, per restart, the index in the DA call log at which the new process started,
	// together with the persisted header watermark it started from.
	RestartMarks []RestartMark
	dabt         time.Duration
	mu           sync.Mutex
	decCache     map[*world.StoredBlob]DecodedBlob
}

// RestartMark describes the state a restarted process resumed from.
type RestartMark struct {
	CallIndex   int
	PersistedH  uint64
	PersistedD  uint64
	ChainHeight uint64
}

// New builds the world (inside the bubble) and starts the loops.
func New(o world.NodeOpts) (*World, error) {
	p, err := pw.New(o)
	if err != nil {
		return nil, err
	}
	p.DA.KindOf = KindOfP(p.Opts.Payload())
	w := &World{P: p, dabt: p.Opts.DABlockTime}
	p.Exec.Sampler = func() uint64 { return w.P.N.M.GetDAIncludedHeight() }
	w.start()
	return w, nil
}

func (w *World) start() {
	ctx, cancel := context.WithCancel(context.Background())
	w.cancel = cancel
	w.wg = &sync.WaitGroup{}
	w.ErrCh = make(chan error, 8)
	m := w.P.N.M
	w.wg.Add(3)
	// a panic inside a loop would take the whole node down: it is reported like a loop error
	guard := func(name string, f func()) {
		defer w.wg.Done()
		defer func() {
			if r := recover(); r != nil {
				w.mu.Lock()
				w.Errors = append(w.Errors, fmt.Sprintf("panic in %s: %v", name, r))
				w.mu.Unlock()
			}
		}()
		f()
	}
	go guard("HeaderSubmissionLoop", func() { m.HeaderSubmissionLoop(ctx) })
	go guard("DataSubmissionLoop", func() { m.DataSubmissionLoop(ctx) })
	go guard("DAIncluderLoop", func() { m.DAIncluderLoop(ctx, w.ErrCh) })
	synctest.Wait()
}

func (w *World) drainErrs() {
	for {
		select {
		case e := <-w.ErrCh:
			if e != nil {
				w.mu.Lock()
				w.Errors = append(w.Errors, e.Error())
				w.mu.Unlock()
			}
		default:
			return
		}
	}
}

// Stop cancels the loops and joins them.
func (w *World) Stop() {
	w.cancel()
	w.wg.Wait()
	w.drainErrs()
}

// Tick advances virtual time by n DA block times (+1 ms each) and waits for quiescence after each.
func (w *World) Tick(n int) {
	for i := 0; i < n; i++ {
		time.Sleep(w.dabt + time.Millisecond)
		synctest.Wait()
	}
	w.drainErrs()
	w.observe()
}

// Settle waits until virtual time has passed long enough for any back-off to expire (bounded).
func (w *World) Settle(d time.Duration) {
	time.Sleep(d)
	synctest.Wait()
	w.drainErrs()
	w.observe()
}

// Produce runs one production step at a quiescent point.
func (w *World) Produce(st pw.Step) pw.StepResult {
	r := w.P.Step(st)
	synctest.Wait()
	w.observe()
	return r
}

// SignalIncluder wakes the DA includer loop.
func (w *World) SignalIncluder() {
	select {
	case w.P.N.M.VerifDAIncluderCh() <- struct{}{}:
	default:
	}
	synctest.Wait()
	w.drainErrs()
	w.observe()
}

func (w *World) observe() {
	m := w.P.N.M
	if v := m.VerifLastSubmittedHeaderHeight(); v > w.MaxHdrWM {
		w.MaxHdrWM = v
	}
	if v := m.VerifLastSubmittedDataHeight(); v > w.MaxDataWM {
		w.MaxDataWM = v
	}
	if v := m.GetDAIncludedHeight(); v > w.MaxDAIncluded {
		w.MaxDAIncluded = v
	}
}

// Restart stops the node (cleanly: loops joined and caches saved, as FullNode.Run does; or as a
// crash: the process dies, nothing is saved) and starts a new one on the persisted image.
func (w *World) Restart(clean bool) error {
	w.observe()
	if !clean {
		w.P.Raw.Kill()
		w.P.DA.SetDeadFn(w.P.Raw.Dead)
	}
	w.Stop()
	if clean {
		if err := w.P.N.M.SaveCache(); err != nil {
			return fmt.Errorf("SaveCache: %w", err)
		}
	}
	img := w.P.Raw.Image()
	fresh := world.FromImage(img)
	w.P.DA.SetDeadFn(nil)
	if err := w.P.RestartOn(fresh); err != nil {
		return err
	}
	w.Restarts++
	if !clean {
		w.CrashRestarts++
	}
	ph, pd := w.PersistedWatermarks()
	ch, _ := w.P.N.Store.Height(w.P.Ctx)
	w.RestartMarks = append(w.RestartMarks, RestartMark{CallIndex: w.P.DA.NumCalls(), PersistedH: ph, PersistedD: pd, ChainHeight: ch})
	w.start()
	return nil
}

func metaU64(w *World, key string) (uint64, bool) {
	b, err := w.P.N.Store.GetMetadata(w.P.Ctx, key)
	if err != nil || len(b) != 8 {
		return 0, false
	}
	return binary.LittleEndian.Uint64(b), true
}

// PersistedWatermarks returns the persisted header and data watermarks (0 when absent).
func (w *World) PersistedWatermarks() (uint64, uint64) {
	h, _ := metaU64(w, storepkg.LastSubmittedHeaderHeightKey)
	d, _ := metaU64(w, "last-submitted-data-height")
	return h, d
}

// PersistedDAIncluded returns the persisted DA-included height.
func (w *World) PersistedDAIncluded() uint64 {
	v, _ := metaU64(w, storepkg.DAIncludedHeightKey)
	return v
}

// Block is the committed block at a height, from the node's store.
type Block struct {
	Height   uint64
	Header   *types.SignedHeader
	Data     *types.Data
	Empty    bool
	HdrOnDA  bool
	DataOnDA bool
	HdrDAHs  []uint64 // DA heights at which the header blob is stored
	DataDAHs []uint64 // DA heights at which the data blob is stored
	// DataDAHsByCommit: DA heights of any data blob with this block's commitment (ordered transaction
	// list only, C12) — the identification the inclusion marks use
	DataDAHsByCommit []uint64
}

// DecodedBlob is a node-submitted blob on the DA double, decoded.
type DecodedBlob struct {
	DAHeight uint64
	Kind     string
	Header   *types.SignedHeader
	Data     *types.SignedData
	Raw      []byte
	Key      string // header hash / data commitment
	SigOK    bool   // verifies under the proposer key held by the harness
}

// DecodeStored decodes all node-submitted blobs on the DA double (memoised per stored blob).
func (w *World) DecodeStored() []DecodedBlob {
	if w.decCache == nil {
		w.decCache = map[*world.StoredBlob]DecodedBlob{}
	}
	out := []DecodedBlob{}
	for _, sb := range w.P.DA.Stored() {
		if sb.Third {
			continue
		}
		if d, ok := w.decCache[sb]; ok {
			out = append(out, d)
			continue
		}
		d := DecodedBlob{DAHeight: sb.Height, Kind: "other", Raw: sb.Blob}
		var hp pb.SignedHeader
		if proto.Unmarshal(sb.Blob, &hp) == nil {
			sh := new(types.SignedHeader)
			if sh.FromProto(&hp) == nil {
				sh.SetCustomVerifier(w.P.Opts.Payload())
				if sh.ValidateBasic() == nil {
					d.Kind, d.Header = "header", sh
				}
			}
		}
		if d.Kind == "other" {
			var sd types.SignedData
			if sd.UnmarshalBinary(sb.Blob) == nil && len(sd.Txs) > 0 {
				d.Kind, d.Data = "data", &sd
			}
		}
		if d.Header != nil {
			d.Key = string(d.Header.Hash())
			payload, _ := w.P.Opts.Payload()(&d.Header.Header)
			ok, err := w.P.N.PubKey.Verify(payload, d.Header.Signature)
			d.SigOK = err == nil && ok
		}
		if d.Data != nil {
			d.Key = string(d.Data.Data.DACommitment())
			bz, _ := d.Data.Data.MarshalBinary()
			ok, err := w.P.N.PubKey.Verify(bz, d.Data.Signature)
			d.SigOK = err == nil && ok
		}
		w.decCache[sb] = d
		out = append(out, d)
	}
	return out
}

// Blocks returns the committed chain with DA presence per block.
func (w *World) Blocks() ([]Block, error) {
	st := w.P.N.Store
	h, err := st.Height(w.P.Ctx)
	if err != nil {
		return nil, err
	}
	hdrAt := map[string][]uint64{}
	dataAt := map[string][]uint64{}
	dataAtCommit := map[string][]uint64{}
	for _, d := range w.DecodeStored() {
		switch d.Kind {
		case "header":
			hdrAt[d.Key] = append(hdrAt[d.Key], d.DAHeight)
		case "data":
			// a signed-data blob belongs to the block its metadata names: two blocks with the same
			// transaction list have the same commitment but different blobs
			k := fmt.Sprintf("%s/%d", d.Key, dataHeight(d.Data))
			dataAt[k] = append(dataAt[k], d.DAHeight)
			dataAtCommit[d.Key] = append(dataAtCommit[d.Key], d.DAHeight)
		}
	}
	out := []Block{}
	for i := w.P.N.Genesis.InitialHeight; i <= h; i++ {
		hdr, data, err := st.GetBlockData(w.P.Ctx, i)
		if err != nil {
			return nil, fmt.Errorf("block %d: %w", i, err)
		}
		b := Block{Height: i, Header: hdr, Data: data, Empty: len(data.Txs) == 0}
		if hs, ok := hdrAt[string(hdr.Hash())]; ok {
			b.HdrOnDA, b.HdrDAHs = true, hs
		}
		if !b.Empty {
			if hs, ok := dataAt[fmt.Sprintf("%s/%d", string(data.DACommitment()), i)]; ok {
				b.DataOnDA, b.DataDAHs = true, hs
			}
			b.DataDAHsByCommit = dataAtCommit[string(data.DACommitment())]
		}
		out = append(out, b)
	}
	return out, nil
}

// GenuinelyWaiting counts committed blocks whose header is not on the DA layer or whose non-empty
// data is not on the DA layer.
func (w *World) GenuinelyWaiting() (int, error) {
	bs, err := w.Blocks()
	if err != nil {
		return 0, err
	}
	n := 0
	for _, b := range bs {
		if !b.HdrOnDA || (!b.Empty && !b.DataOnDA) {
			n++
		}
	}
	return n, nil
}

func pr(sig, f string, a ...any) *world.Problem {
	return &world.Problem{Sig: sig, Msg: fmt.Sprintf(f, a...)}
}

// CheckC06 evaluates the C06 clauses on the DA call log and the stores (DESIGN §2 C06 O 1-5).
func (w *World) CheckC06(when string) *world.Problem {
	w.observe()
	m := w.P.N.M
	initial := w.P.N.Genesis.InitialHeight
	bs, err := w.Blocks()
	if err != nil {
		return pr("blocks", "%s: %v", when, err)
	}
	byHash := map[string]Block{}
	byData := map[string]Block{}
	for _, b := range bs {
		byHash[string(b.Header.Hash())] = b
		if !b.Empty {
			byData[fmt.Sprintf("%s/%d", string(b.Data.DACommitment()), b.Height)] = b
		}
	}
	w.mu.Lock()
	nerr := len(w.Errors)
	first := ""
	if nerr > 0 {
		first = w.Errors[0]
	}
	w.mu.Unlock()
	if nerr > 0 {
		return pr("loop-error", "%s: a background loop terminated: %s", when, first)
	}
	// (4) every blob the node stored decodes to exactly a committed header/data and verifies under the
	// proposer key held by the harness
	for _, d := range w.DecodeStored() {
		switch d.Kind {
		case "header":
			b, ok := byHash[string(d.Header.Hash())]
			if !ok {
				return pr("blob-not-committed", "%s: header blob at DA height %d (block height %d, hash %x) is not a committed header", when, d.DAHeight, d.Header.Height(), d.Header.Hash())
			}
			if !d.SigOK {
				return pr("blob-signature", "%s: header blob of block %d does not verify under the proposer key", when, b.Height)
			}
			if d.Header.Signer.PubKey == nil || !d.Header.Signer.PubKey.Equals(w.P.N.PubKey) {
				return pr("blob-signer", "%s: header blob of block %d carries a foreign signer key", when, b.Height)
			}
		case "data":
			b, ok := byData[fmt.Sprintf("%s/%d", string(d.Data.Data.DACommitment()), dataHeight(d.Data))]
			if !ok {
				return pr("blob-not-committed", "%s: data blob at DA height %d is not the data of a committed block", when, d.DAHeight)
			}
			if d.Data.Metadata == nil || d.Data.Height() != b.Height || !world.EqTxs(txs(d.Data.Txs), txs(b.Data.Txs)) {
				return pr("blob-data-mismatch", "%s: data blob does not decode to the committed data of block %d", when, b.Height)
			}
			if !d.SigOK {
				return pr("blob-signature", "%s: data blob of block %d does not verify under the proposer key", when, b.Height)
			}
			if d.Data.Signer.PubKey == nil || !d.Data.Signer.PubKey.Equals(w.P.N.PubKey) || !bytes.Equal(d.Data.Signer.Address, w.P.N.Genesis.ProposerAddress) {
				return pr("blob-signer", "%s: data blob of block %d carries a foreign signer", when, b.Height)
			}
		default:
			return pr("blob-undecodable", "%s: the node submitted a blob at DA height %d that decodes neither as header nor as signed data", when, d.DAHeight)
		}
	}
	// (1) order: replay the call log
	hdrStored := map[uint64]bool{}
	dataStored := map[uint64]bool{}
	nonEmpty := []uint64{}
	for _, b := range bs {
		if !b.Empty {
			nonEmpty = append(nonEmpty, b.Height)
		}
	}
	marks := map[int]RestartMark{}
	for _, rm := range w.RestartMarks {
		marks[rm.CallIndex] = rm
	}
	firstHdrAfterRestart := map[int]bool{}
	calls := w.P.DA.Calls(0)
	var pendingMark *RestartMark
	for ci, c := range calls {
		if rm, ok := marks[ci]; ok {
			r := rm
			pendingMark = &r
		}
		if c.Op != "submit" {
			continue
		}
		hs := []uint64{}
		kind := ""
		for _, bl := range c.Blobs {
			k := kindOf(bl, w.P.Opts.Payload())
			if kind == "" {
				kind = k
			} else if kind != k {
				return pr("mixed-submit", "%s: one Submit call mixes %s and %s blobs", when, kind, k)
			}
			switch k {
			case "header":
				var hp pb.SignedHeader
				_ = proto.Unmarshal(bl, &hp)
				sh := new(types.SignedHeader)
				_ = sh.FromProto(&hp)
				hs = append(hs, sh.Height())
			case "data":
				var sd types.SignedData
				_ = sd.UnmarshalBinary(bl)
				hs = append(hs, sd.Height())
			default:
				return pr("blob-undecodable", "%s: Submit call %d carries an undecodable blob", when, ci)
			}
		}
		if len(hs) == 0 {
			continue
		}
		if kind == "header" {
			for i := 1; i < len(hs); i++ {
				if hs[i] != hs[i-1]+1 {
					return pr("header-order", "%s: header Submit call %d carries heights %v (not consecutive increasing)", when, ci, hs)
				}
			}
			for h := initial; h < hs[0]; h++ {
				if !hdrStored[h] {
					return pr("header-skip", "%s: header Submit call %d starts at height %d although header %d has not been accepted by the DA layer", when, ci, hs[0], h)
				}
			}
			if pendingMark != nil && !firstHdrAfterRestart[pendingMark.CallIndex] {
				firstHdrAfterRestart[pendingMark.CallIndex] = true
				want := pendingMark.PersistedH + 1
				if want < initial {
					want = initial
				}
				if hs[0] != want {
					return pr("resume-point", "%s: after restart (persisted header watermark %d) the first header submitted is %d, want %d", when, pendingMark.PersistedH, hs[0], want)
				}
			}
			for i := 0; i < c.Stored; i++ {
				hdrStored[hs[i]] = true
			}
		} else {
			// data: increasing, consecutive among the non-empty heights, nothing non-empty skipped
			idx := map[uint64]int{}
			for i, h := range nonEmpty {
				idx[h] = i
			}
			for i, h := range hs {
				if _, ok := idx[h]; !ok {
					return pr("data-unknown-height", "%s: data Submit call %d carries height %d which is not a committed non-empty block", when, ci, h)
				}
				if i > 0 && idx[h] != idx[hs[i-1]]+1 {
					return pr("data-order", "%s: data Submit call %d carries heights %v (not consecutive among non-empty blocks %v)", when, ci, hs, nonEmpty)
				}
			}
			for _, h := range nonEmpty {
				if h >= hs[0] {
					break
				}
				if !dataStored[h] {
					return pr("data-skip", "%s: data Submit call %d starts at height %d although the data of block %d has not been accepted by the DA layer", when, ci, hs[0], h)
				}
			}
			for i := 0; i < c.Stored; i++ {
				dataStored[hs[i]] = true
			}
		}
	}
	// (2) watermarks: monotone and never past a height whose blob the DA layer did not accept
	hw, dw := m.VerifLastSubmittedHeaderHeight(), m.VerifLastSubmittedDataHeight()
	// (2c) an acceptance the DA layer acknowledged to this process is recorded at once (before the next DA
	// call or pause): otherwise the node counts accepted blocks as still waiting and submits them again.
	// Calls made before the last restart are not judged (a crash may fall between acknowledgement and record).
	lastRestart := -1
	for _, rm := range w.RestartMarks {
		if rm.CallIndex > lastRestart {
			lastRestart = rm.CallIndex
		}
	}
	for ci, c := range calls {
		if ci < lastRestart || c.Op != "submit" || c.Stored == 0 || !(strings.HasPrefix(c.Result, "accept(") || strings.HasPrefix(c.Result, "prefix(")) {
			continue
		}
		top, kind := uint64(0), ""
		for i, bl := range c.Blobs {
			if i >= c.Stored {
				break
			}
			kind = kindOf(bl, w.P.Opts.Payload())
			switch kind {
			case "header":
				var hp pb.SignedHeader
				_ = proto.Unmarshal(bl, &hp)
				sh := new(types.SignedHeader)
				_ = sh.FromProto(&hp)
				top = sh.Height()
			case "data":
				var sd types.SignedData
				_ = sd.UnmarshalBinary(bl)
				top = sd.Height()
			}
		}
		if kind == "header" && hw < top {
			return pr("acknowledged-not-recorded", "%s: the DA layer accepted and acknowledged headers up to %d (Submit call %d: %s), the header watermark is still %d", when, top, ci, c.Result, hw)
		}
		if kind == "data" && dw < top {
			return pr("acknowledged-not-recorded", "%s: the DA layer accepted and acknowledged data up to height %d (Submit call %d: %s), the data watermark is still %d", when, top, ci, c.Result, dw)
		}
	}
	ph, pd := w.PersistedWatermarks()
	if hw < w.MaxHdrWM && hw < ph {
		return pr("watermark-decreased", "%s: header watermark %d is below an earlier value %d", when, hw, w.MaxHdrWM)
	}
	if ph > hw || pd > dw {
		return pr("persisted-watermark-ahead", "%s: persisted watermarks (%d,%d) are ahead of the in-memory ones (%d,%d)", when, ph, pd, hw, dw)
	}
	// no metadata write fails in this world: at a quiescent point the persisted watermark equals the
	// in-memory one (a value that only lives in memory would be lost by a restart). The in-memory value may
	// be the floor initial-1 that is never written.
	floor := initial - 1
	if (hw > floor && ph != hw) || (dw > floor && pd != dw) {
		return pr("watermark-not-persisted", "%s: in-memory watermarks (%d,%d) but persisted (%d,%d)", when, hw, dw, ph, pd)
	}
	for _, b := range bs {
		if b.Height <= hw && !b.HdrOnDA {
			return pr("header-watermark-unsound", "%s: header watermark is %d but the header of block %d was never accepted by the DA layer", when, hw, b.Height)
		}
		if b.Height <= dw && !b.Empty && !b.DataOnDA {
			return pr("data-watermark-unsound", "%s: data watermark is %d but the data of block %d was never accepted by the DA layer", when, dw, b.Height)
		}
	}
	h, _ := w.P.N.Store.Height(w.P.Ctx)
	if hw > h && h >= initial || dw > h && h >= initial {
		return pr("watermark-above-chain", "%s: watermark (%d,%d) above chain height %d", when, hw, dw, h)
	}
	return nil
}

// CheckPersistedMonotone compares persisted watermarks with the highest persisted values seen.
func (w *World) CheckAllOnDA(when string) *world.Problem {
	bs, err := w.Blocks()
	if err != nil {
		return pr("blocks", "%s: %v", when, err)
	}
	for _, b := range bs {
		if !b.HdrOnDA {
			return pr("header-never-submitted", "%s: the DA layer accepts everything, yet the header of committed block %d is still not on it", when, b.Height)
		}
		if !b.Empty && !b.DataOnDA {
			return pr("data-never-submitted", "%s: the DA layer accepts everything, yet the data of committed block %d is still not on it", when, b.Height)
		}
	}
	return nil
}

func txs(t types.Txs) [][]byte {
	out := make([][]byte, len(t))
	for i, x := range t {
		out[i] = x
	}
	return out
}

// CheckC07 evaluates the safety clauses of C07 at a quiescent point.
func (w *World) CheckC07(when string) *world.Problem {
	w.observe()
	m := w.P.N.M
	inc := m.GetDAIncludedHeight()
	h, _ := w.P.N.Store.Height(w.P.Ctx)
	if inc < w.MaxDAIncluded {
		return pr("da-included-decreased", "%s: DA-included height %d is below the earlier reported %d", when, inc, w.MaxDAIncluded)
	}
	if inc > h {
		return pr("da-included-above-chain", "%s: DA-included height %d exceeds chain height %d", when, inc, h)
	}
	if p := w.PersistedDAIncluded(); p > inc {
		return pr("da-included-persisted-ahead", "%s: persisted DA-included height %d ahead of reported %d", when, p, inc)
	}
	if len(w.Errors) > 0 {
		return pr("loop-error", "%s: a background loop terminated with an error: %s", when, w.Errors[0])
	}
	bs, err := w.Blocks()
	if err != nil {
		return pr("blocks", "%s: %v", when, err)
	}
	for _, b := range bs {
		if b.Height > inc {
			break
		}
		if !b.HdrOnDA {
			return pr("included-without-header", "%s: DA-included height is %d but the header of block %d is not on the DA layer", when, inc, b.Height)
		}
		// transaction data is identified by its commitment (ordered transaction list only, C12)
		if !b.Empty && len(b.DataDAHsByCommit) == 0 {
			return pr("included-without-data", "%s: DA-included height is %d but the data of block %d is not on the DA layer", when, inc, b.Height)
		}
		// recorded DA heights name heights at which the blobs really are
		hh, ok1 := metaU64(w, fmt.Sprintf("%s/%d/h", storepkg.RollkitHeightToDAHeightKey, b.Height))
		dh, ok2 := metaU64(w, fmt.Sprintf("%s/%d/d", storepkg.RollkitHeightToDAHeightKey, b.Height))
		if !ok1 || !ok2 {
			return pr("da-heights-missing", "%s: block %d is DA-included but no DA heights are recorded for it", when, b.Height)
		}
		if !containsU(b.HdrDAHs, hh) {
			return pr("da-height-wrong", "%s: recorded header DA height %d of block %d, the header blob is at %v", when, hh, b.Height, b.HdrDAHs)
		}
		if b.Empty {
			if dh != hh {
				return pr("da-height-wrong", "%s: empty block %d records data DA height %d != header DA height %d", when, b.Height, dh, hh)
			}
		} else if !containsU(b.DataDAHsByCommit, dh) {
			return pr("da-height-wrong", "%s: recorded data DA height %d of block %d, data with its commitment is at %v", when, dh, b.Height, b.DataDAHsByCommit)
		}
	}
	// SetFinal log: exactly initial.., in order, one at a time, each before the height is reported
	finals := w.P.Exec.CallsOf("final")
	next := w.P.N.Genesis.InitialHeight
	if next < 1 {
		next = 1
	}
	_ = next
	var last uint64
	for i, c := range finals {
		if c.Err != "" {
			continue
		}
		if i == 0 || last == 0 {
			last = c.Height
		} else {
			if c.Height != last+1 && !(c.Height <= last && w.CrashRestarts > 0) {
				return pr("setfinal-order", "%s: SetFinal called for %d after %d", when, c.Height, last)
			}
			if c.Height > last {
				last = c.Height
			}
		}
		if c.DAIncludedSeen >= c.Height && w.CrashRestarts == 0 {
			return pr("setfinal-after-report", "%s: SetFinal(%d) was called when DA-included height %d was already reported", when, c.Height, c.DAIncludedSeen)
		}
	}
	if inc >= w.P.N.Genesis.InitialHeight && last < inc && w.CrashRestarts == 0 {
		return pr("setfinal-missing", "%s: DA-included height %d reported but the execution layer was only asked to finalize up to %d", when, inc, last)
	}
	return nil
}

func containsU(a []uint64, x uint64) bool {
	for _, y := range a {
		if x == y {
			return true
		}
	}
	return false
}

func dataHeight(sd *types.SignedData) uint64 {
	if sd == nil || sd.Metadata == nil {
		return 0
	}
	return sd.Height()
}
