package sw

import "testing/synctest"

func runBubble(f func()) { synctest.Run(f) }
