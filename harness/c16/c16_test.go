// Package c16 decides C16: for the node, a DA layer reached through the JSON-RPC client and server
// (da/jsonrpc) is indistinguishable from the same DA layer called in-process, and the client's
// size filter submits exactly the longest prefix that fits and reports exactly what was taken.
//
// Two identical backing instances receive the same generated call sequence, one called directly
// and one through a real jsonrpc.Server + jsonrpc.Client on loopback. The calls are made with
// the functions the node uses (types.SubmitWithHelpers / types.RetrieveWithHelpers); their results
// are compared field by field (messages may differ). A separate model of the size rule judges
// what reached the DA behind the wire.
package c16

import (
	"bytes"
	"context"
	"fmt"
	"math"
	"os"
	"sort"
	"strings"
	"sync"
	"testing"
	"time"

	"pgregory.net/rapid"

	coreda "github.com/evstack/ev-node/core/da"
	"github.com/evstack/ev-node/types"

	"verif/harness/world"
)

// IDRef names an id for a raw Get / GetProofs / Validate call.
type IDRef struct {
	Known int    `json:"known,omitempty"` // index (mod count) into the ids the DA holds so far
	Raw   []byte `json:"raw,omitempty"`   // or: arbitrary bytes nobody was ever given
	IsRaw bool   `json:"is_raw,omitempty"`
}

// Op is one call of the sequence; both instances receive it.
type Op struct {
	// Kind: submit | retrieve | get | aux | sethead | place | advance
	Kind string `json:"kind"`

	// submit / aux(commit, submitplain): blob sizes; contents are derived from (op index, blob index)
	Sizes    []int   `json:"sizes,omitempty"`
	GasPrice float64 `json:"gas_price,omitempty"`
	Options  []byte  `json:"options,omitempty"`
	// Accept > 0: the backing DA takes only the first Accept blobs of what it is given (dadbl only)
	Accept int `json:"accept,omitempty"`

	// retrieve: HKind zero | below | populated | head | future | huge ; HIdx selects among candidates
	HKind string `json:"hkind,omitempty"`
	HIdx  int    `json:"hidx,omitempty"`
	// Fetch is a scripted outcome of the DA double for that height (dadbl only)
	Fetch *world.FetchOutcome `json:"fetch,omitempty"`

	// get / aux(proofs, validate)
	IDs []IDRef `json:"ids,omitempty"`

	// aux: gasprice | gasmult | commit | proofs | validate | submitplain
	Aux string `json:"aux,omitempty"`

	// sethead: head += N ; place: N blobs of size Sizes[0] put at head+1+Gap by a third party
	N   int `json:"n,omitempty"`
	Gap int `json:"gap,omitempty"`

	// Fault: misbehaviour of the backing DA during this op. Cancel: "" | pre | during | deadline
	Fault  *Fault `json:"fault,omitempty"`
	Cancel string `json:"cancel,omitempty"`
}

// Scenario is one generated call sequence with its configuration.
type Scenario struct {
	Backing string `json:"backing"` // dadbl | dummy
	// Limit is the client's MaxBlobSize. BackMode says how the backing DA's own limit relates to it:
	// equal | unlimited | larger | smaller
	Limit      uint64 `json:"limit"`
	BackMode   string `json:"back_mode"`
	NilOnEmpty bool   `json:"nil_on_empty,omitempty"` // backing answers (nil,nil) for empty heights like LocalDA
	Ops        []Op   `json:"ops"`
}

func (sc Scenario) backLimit() uint64 {
	switch sc.BackMode {
	case "unlimited":
		return 0
	case "larger":
		return sc.Limit*2 + 3
	case "smaller":
		if sc.Limit/2 == 0 {
			return 1
		}
		return sc.Limit / 2
	}
	return sc.Limit
}

// modelPrefix is the size rule of the statement: the longest prefix whose cumulative size fits;
// an examined blob that is itself over the limit is an error. limit 0 = unlimited.
func modelPrefix(sizes []int, limit uint64) (n int, tooBig bool) {
	if limit == 0 {
		return len(sizes), false
	}
	var cur uint64
	for _, s := range sizes {
		l := uint64(s)
		if l > limit {
			return 0, true
		}
		if cur+l > limit {
			break
		}
		cur += l
		n++
	}
	return n, false
}

func mkBlob(op, j, size int) []byte {
	b := make([]byte, size)
	for k := range b {
		b[k] = byte(op*31 + j*7 + k*3 + 1)
	}
	if size >= 4 {
		b[0], b[1], b[2], b[3] = byte(op), byte(j>>8), byte(j), 0xC1
	}
	return b
}

func mkBlobs(op int, sizes []int) [][]byte {
	out := make([][]byte, len(sizes))
	for j, s := range sizes {
		out[j] = mkBlob(op, j, s)
	}
	return out
}

// ---------------------------------------------------------------------------------------------
// one side (direct or proxied) of the differential
// ---------------------------------------------------------------------------------------------

type side struct {
	name  string
	da    coreda.DA // what the node helpers are given
	w     *faultDA  // the wrapper in front of the backing instance
	dbl   *world.DADbl
	dummy *coreda.DummyDA
	ids   [][]byte // ids handed out by successful submits (dummy backing has no listing)
	ticks bool
}

func newSide(name string, sc Scenario) *side {
	s := &side{name: name}
	bl := sc.backLimit()
	var inner coreda.DA
	if sc.Backing == "dummy" {
		if bl == 0 {
			bl = math.MaxUint64
		}
		s.dummy = coreda.NewDummyDA(bl, 0.25, 1.5, 100*time.Microsecond)
		inner = s.dummy
	} else {
		s.dbl = world.NewDADbl(0)
		s.dbl.MaxBlob = bl
		inner = s.dbl
	}
	s.w = newFaultDA(inner, sc.NilOnEmpty)
	s.da = s.w
	return s
}

func (s *side) close() {
	if s.ticks {
		s.dummy.StopHeightTicker()
		s.ticks = false
	}
}

// advance lets a DummyDA reach height >= 1 (its height only moves with its real-time ticker) and
// freezes it again. The height reached differs between instances; only heights 0, 1 and far
// future ones are queried afterwards, and nothing is submitted any more.
func (s *side) advance() {
	if s.dummy == nil || s.ticks {
		return
	}
	s.dummy.StartHeightTicker()
	s.ticks = true
	deadline := time.Now().Add(20 * time.Second)
	for {
		if _, err := s.dummy.GetIDs(context.Background(), 1, nil); err == nil {
			break
		}
		if time.Now().After(deadline) {
			panic("c16 harness: DummyDA height ticker did not reach height 1 within 20s")
		}
		time.Sleep(100 * time.Microsecond)
	}
	s.dummy.StopHeightTicker()
	s.ticks = false
}

// deadlineCtx is a context whose deadline passes when the harness says so (Err = DeadlineExceeded).
type deadlineCtx struct {
	context.Context
	done chan struct{}
	mu   sync.Mutex
	err  error
}

func (c *deadlineCtx) Done() <-chan struct{} { return c.done }

func (c *deadlineCtx) Err() error {
	c.mu.Lock()
	defer c.mu.Unlock()
	return c.err
}

func (c *deadlineCtx) expire() {
	c.mu.Lock()
	defer c.mu.Unlock()
	if c.err == nil {
		c.err = context.DeadlineExceeded
		close(c.done)
	}
}

// withCtx runs fn under the op's cancellation mode and waits until the backing is idle again.
func (s *side) withCtx(mode string, fn func(ctx context.Context)) {
	ctx, cancel := context.WithCancel(context.Background())
	defer cancel()
	switch mode {
	case "pre":
		cancel()
		fn(ctx)
	case "during":
		done := make(chan struct{})
		ent := s.w.enteredCh()
		go func() {
			select {
			case <-ent:
				cancel()
			case <-done:
			}
		}()
		fn(ctx)
		close(done)
	case "deadline":
		// the caller's deadline passes while the backing hangs; no real timer is involved, so a
		// call that never reaches the hanging backing completes undisturbed
		dc := &deadlineCtx{Context: ctx, done: make(chan struct{})}
		done := make(chan struct{})
		ent := s.w.enteredCh()
		go func() {
			select {
			case <-ent:
				dc.expire()
			case <-done:
			}
		}()
		fn(dc)
		close(done)
		dc.expire()
	default:
		fn(ctx)
	}
	cancel()
	s.w.waitIdle()
}

// ---------------------------------------------------------------------------------------------
// comparison helpers
// ---------------------------------------------------------------------------------------------

func eqBytesList(a, b [][]byte) bool {
	if len(a) != len(b) {
		return false
	}
	for i := range a {
		if !bytes.Equal(a[i], b[i]) {
			return false
		}
	}
	return true
}

func short(b [][]byte) string {
	if len(b) > 4 {
		return fmt.Sprintf("%d items, first %x", len(b), b[0])
	}
	return fmt.Sprintf("%x", b)
}

// errClass is how the node tells raw DA errors apart where it does not use the helpers
// (block/retriever.go and the helpers themselves classify these two by substring).
func errClass(err error) string {
	if err == nil {
		return "ok"
	}
	switch {
	case strings.Contains(err.Error(), coreda.ErrBlobNotFound.Error()):
		return "notfound"
	case strings.Contains(err.Error(), coreda.ErrHeightFromFuture.Error()):
		return "future"
	}
	return "error"
}

var submitIdentityCodes = map[coreda.StatusCode]string{
	coreda.StatusNotIncludedInBlock:       "ErrTxTimedOut",
	coreda.StatusAlreadyInMempool:         "ErrTxAlreadyInMempool",
	coreda.StatusTooBig:                   "ErrBlobSizeOverLimit",
	coreda.StatusContextDeadline:          "ErrContextDeadline",
	coreda.StatusIncorrectAccountSequence: "ErrTxIncorrectAccountSequence",
}

func describeFault(op Op) string {
	s := ""
	if op.Fault != nil {
		s = fmt.Sprintf(" [backing answers %s", op.Fault.Err)
		if op.Fault.Wrap != "" {
			s += " wrapped(" + op.Fault.Wrap + ")"
		}
		s += " at " + op.Fault.At
		if op.Fault.After {
			s += " after executing"
		}
		s += "]"
	}
	if op.Cancel != "" {
		s += " [caller context: " + op.Cancel + "]"
	}
	return s
}

// ---------------------------------------------------------------------------------------------
// run
// ---------------------------------------------------------------------------------------------

type runner struct {
	sc     Scenario
	D, P   *side
	labels map[string]bool
	nt     bool // an error or a size-limit cut occurred
	obs    []string
}

func (r *runner) label(l string) { r.labels[l] = true }

// knownIDs lists the ids the direct instance holds (the proxied one must hold the same).
func (r *runner) knownIDs() [][]byte {
	if r.D.dbl != nil {
		out := [][]byte{}
		for _, sb := range r.D.dbl.Stored() {
			out = append(out, sb.ID)
		}
		return out
	}
	return r.D.ids
}

func (r *runner) resolveIDs(refs []IDRef) [][]byte {
	known := r.knownIDs()
	out := [][]byte{}
	for _, ref := range refs {
		if ref.IsRaw || len(known) == 0 {
			out = append(out, append([]byte{}, ref.Raw...))
			continue
		}
		k := ref.Known % len(known)
		if k < 0 {
			k = -k
		}
		out = append(out, known[k])
	}
	return out
}

func (r *runner) resolveHeight(op Op) uint64 {
	idx := op.HIdx
	if idx < 0 {
		idx = -idx
	}
	if r.D.dummy != nil {
		switch op.HKind {
		case "zero", "below":
			return 0
		case "populated", "head":
			return 1
		case "future":
			return 1<<40 + uint64(idx%3)
		}
		return math.MaxUint64 - uint64(idx%2)
	}
	head := r.D.dbl.Head()
	switch op.HKind {
	case "zero":
		return 0
	case "head":
		return head
	case "populated":
		hs := []uint64{}
		seen := map[uint64]bool{}
		for _, sb := range r.D.dbl.Stored() {
			if !seen[sb.Height] {
				seen[sb.Height] = true
				hs = append(hs, sb.Height)
			}
		}
		if len(hs) == 0 {
			return head
		}
		return hs[idx%len(hs)]
	case "below":
		empties := []uint64{}
		for h := uint64(0); h <= head && h < 64; h++ {
			if len(r.D.dbl.At(h)) == 0 {
				empties = append(empties, h)
			}
		}
		if len(empties) == 0 {
			return 0
		}
		return empties[idx%len(empties)]
	case "future":
		return head + 1 + uint64(idx%3)
	}
	if idx%2 == 0 {
		return math.MaxUint64
	}
	return 1 << 63
}

func (r *runner) prepare(op Op, s *side, withFault bool) {
	if withFault {
		s.w.arm(op.Fault)
	} else {
		s.w.arm(nil)
	}
	if s.dbl != nil {
		s.dbl.ClearScripts()
	}
}

func (r *runner) doSubmit(i int, op Op) *world.Verdict {
	px := getPair()
	input := mkBlobs(i, op.Sizes)
	n, tooBig := modelPrefix(op.Sizes, r.sc.Limit)
	reaches := !tooBig && n > 0 // a correct client forwards something to the DA
	if tooBig {
		r.label("submit:oversize-blob")
		r.nt = true
	} else if n < len(input) {
		r.label("submit:size-cut")
		r.nt = true
	}
	if len(input) == 0 {
		r.label("submit:empty-list")
	}
	if len(input) > 100 {
		r.label("submit:>100-blobs")
	}
	mode := op.Cancel
	if op.Fault != nil && op.Fault.Err == "hang" && mode != "during" && mode != "deadline" {
		mode = "during"
	}
	what := fmt.Sprintf("op %d submit of %d blobs (sizes %v, client limit %d, backing limit %d)%s", i, len(input), trunc(op.Sizes), r.sc.Limit, r.sc.backLimit(), describeFault(op))

	// proxied side: the node helper over the JSON-RPC client
	r.prepare(op, r.P, true)
	if op.Accept > 0 && r.P.dbl != nil {
		r.P.dbl.PushScript("other", world.SubmitResp{Kind: "prefix", K: op.Accept})
	}
	var resP coreda.ResultSubmit
	r.P.withCtx(mode, func(ctx context.Context) {
		resP = types.SubmitWithHelpers(ctx, &px.client.DA, logger, input, op.GasPrice, op.Options)
	})
	callsP := r.P.w.callsOf("submit")

	// size rule, judged behind the wire
	for _, c := range callsP {
		if !eqBytesList(c.Blobs, input[:min(len(input), max(n, 0))]) || tooBig {
			v := world.Fail("C16/client-forwarded-not-the-longest-fitting-prefix",
				"%s: the client forwarded %d blobs (sizes %v) to the DA; the longest prefix that fits the limit is %d blobs (oversize blob examined: %v)",
				what, len(c.Blobs), sizesOf(c.Blobs), n, tooBig)
			return &v
		}
		if !bytes.Equal(c.Options, op.Options) || c.GasPrice != op.GasPrice {
			v := world.Fail("C16/submit-arguments-changed-on-the-wire", "%s: options/gas price reached the DA as %x/%v, sent %x/%v", what, c.Options, c.GasPrice, op.Options, op.GasPrice)
			return &v
		}
	}
	if len(callsP) > 1 {
		v := world.Fail("C16/client-submitted-twice", "%s: one helper call produced %d submissions at the DA", what, len(callsP))
		return &v
	}
	taken := 0
	var takenIDs [][]byte
	if len(callsP) == 1 && callsP[0].Reached && callsP[0].Err == nil {
		taken = len(callsP[0].IDs)
		takenIDs = callsP[0].IDs
	}
	if int(resP.SubmittedCount) > taken || len(resP.IDs) > taken || !eqBytesList(resP.IDs, takenIDs[:min(len(resP.IDs), taken)]) {
		v := world.Fail("C16/reported-more-than-the-da-took", "%s: the caller is told %d blobs were submitted (ids %s) but the DA took %d (ids %s): an unsent blob would be marked as submitted",
			what, resP.SubmittedCount, short(resP.IDs), taken, short(takenIDs))
		return &v
	}
	if resP.Code == coreda.StatusSuccess && int(resP.SubmittedCount) != taken {
		v := world.Fail("C16/reported-count-not-what-was-taken", "%s: success reports %d blobs, the DA took %d", what, resP.SubmittedCount, taken)
		return &v
	}

	// reference: the same backing called directly (with what a correct client forwards, when the
	// client's limit is not the backing's own)
	inputD := input
	if r.sc.BackMode != "equal" {
		inputD = input[:n]
	}
	var resD coreda.ResultSubmit
	if tooBig && r.sc.BackMode != "equal" {
		resD = coreda.ResultSubmit{BaseResult: coreda.BaseResult{Code: coreda.StatusTooBig}}
	} else {
		r.prepare(op, r.D, reaches)
		if op.Accept > 0 && r.D.dbl != nil && reaches {
			r.D.dbl.PushScript("other", world.SubmitResp{Kind: "prefix", K: op.Accept})
		}
		modeD := mode
		if !reaches {
			modeD = ""
		}
		r.D.withCtx(modeD, func(ctx context.Context) {
			resD = types.SubmitWithHelpers(ctx, r.D.da, logger, inputD, op.GasPrice, op.Options)
		})
	}
	if r.P.dbl != nil {
		r.P.dbl.ClearScripts()
		r.D.dbl.ClearScripts()
	}
	r.label(fmt.Sprintf("submit:code=%d", resD.Code))
	if resD.Code != coreda.StatusSuccess {
		r.nt = true
	}
	if resD.Code == coreda.StatusSuccess && int(resD.SubmittedCount) < n {
		r.label("submit:backing-took-fewer")
		r.nt = true
	}
	if resD.Code == coreda.StatusSuccess {
		r.D.ids = append(r.D.ids, resD.IDs...)
	}
	if resP.Code == coreda.StatusSuccess {
		r.P.ids = append(r.P.ids, resP.IDs...)
	}

	if resD.Code != resP.Code {
		sig := fmt.Sprintf("C16/submit-classified-%d-direct-%d-proxied", resD.Code, resP.Code)
		if _, ok := submitIdentityCodes[resD.Code]; ok && resP.Code == coreda.StatusError {
			// classified by errors.Is directly, unrecognisable after the wire
			sig = "C16/submit-error-identity-lost-on-the-wire"
		} else if resD.Code == coreda.StatusError && resP.Code == coreda.StatusContextCanceled && op.Cancel == "" {
			// nobody cancelled the caller's context: the DA itself answered "canceled"
			sig = "C16/da-cancel-answer-is-error-directly-canceled-proxied"
		}
		v := world.Fail(sig, "%s: SubmitWithHelpers classifies the outcome as status %d when the DA is called directly and as status %d through the JSON-RPC proxy (direct message %q, proxied message %q)",
			what, resD.Code, resP.Code, resD.Message, resP.Message)
		return &v
	}
	if resD.SubmittedCount != resP.SubmittedCount {
		v := world.Fail("C16/submit-count-differs", "%s: SubmittedCount %d direct vs %d proxied (status %d)", what, resD.SubmittedCount, resP.SubmittedCount, resD.Code)
		return &v
	}
	if !eqBytesList(resD.IDs, resP.IDs) {
		v := world.Fail("C16/submit-ids-differ", "%s: ids direct %s vs proxied %s", what, short(resD.IDs), short(resP.IDs))
		return &v
	}
	if resD.Height != resP.Height {
		v := world.Fail("C16/submit-height-differs", "%s: height %d direct vs %d proxied", what, resD.Height, resP.Height)
		return &v
	}
	return nil
}

func trunc(s []int) []int {
	if len(s) > 12 {
		return append(append([]int{}, s[:12]...), -len(s))
	}
	return s
}

func sizesOf(b [][]byte) []int {
	out := make([]int, len(b))
	for i := range b {
		out[i] = len(b[i])
	}
	return trunc(out)
}

func (r *runner) doRetrieve(i int, op Op) *world.Verdict {
	px := getPair()
	h := r.resolveHeight(op)
	mode := op.Cancel
	if op.Fault != nil && op.Fault.Err == "hang" && mode != "during" && mode != "deadline" {
		mode = "during"
	}
	what := fmt.Sprintf("op %d retrieve of height %d (%s)%s", i, h, op.HKind, describeFault(op))
	if op.Fetch != nil {
		what += fmt.Sprintf(" [DA outcome scripted: %s/%d]", op.Fetch.Kind, op.Fetch.Chunk)
	}
	var res [2]coreda.ResultRetrieve
	for k, s := range []*side{r.D, r.P} {
		r.prepare(op, s, true)
		if s.dbl != nil {
			if op.Fetch != nil {
				s.dbl.SetFetchScript(h, []world.FetchOutcome{*op.Fetch})
			} else {
				s.dbl.SetFetchScript(h, nil)
			}
		}
		da := s.da
		if s == r.P {
			da = &px.client.DA
		}
		s.withCtx(mode, func(ctx context.Context) {
			res[k] = types.RetrieveWithHelpers(ctx, da, logger, h, []byte("ns"))
		})
		if s.dbl != nil {
			s.dbl.SetFetchScript(h, nil)
		}
	}
	d, p := res[0], res[1]
	r.label(fmt.Sprintf("retrieve:code=%d", d.Code))
	if d.Code != coreda.StatusSuccess {
		r.nt = true
	}
	if len(d.IDs) > 100 {
		r.label("retrieve:>100-ids")
	}
	if d.Code != p.Code {
		v := world.Fail(fmt.Sprintf("C16/retrieve-classified-%d-direct-%d-proxied", d.Code, p.Code),
			"%s: RetrieveWithHelpers classifies the outcome as status %d directly and as status %d through the JSON-RPC proxy (direct message %q, proxied message %q)",
			what, d.Code, p.Code, d.Message, p.Message)
		return &v
	}
	if d.Height != p.Height {
		v := world.Fail("C16/retrieve-height-differs", "%s: height %d direct vs %d proxied", what, d.Height, p.Height)
		return &v
	}
	if !eqBytesList(d.IDs, p.IDs) {
		v := world.Fail("C16/retrieve-ids-differ", "%s: ids direct %s vs proxied %s", what, short(d.IDs), short(p.IDs))
		return &v
	}
	if !eqBytesList(d.Data, p.Data) {
		v := world.Fail("C16/retrieve-blobs-differ", "%s: %d blobs direct vs %d proxied, or contents differ", what, len(d.Data), len(p.Data))
		return &v
	}
	if p.Code != coreda.StatusSuccess && len(p.Data) != 0 {
		v := world.Fail("C16/retrieve-data-with-failure", "%s: status %d carries %d blobs through the proxy", what, p.Code, len(p.Data))
		return &v
	}
	if r.D.dbl != nil && d.Code == coreda.StatusSuccess && !d.Timestamp.Equal(p.Timestamp) {
		v := world.Fail("C16/retrieve-timestamp-differs", "%s: DA block time %v direct vs %v proxied", what, d.Timestamp, p.Timestamp)
		return &v
	}
	return nil
}

func (r *runner) doGet(i int, op Op) *world.Verdict {
	px := getPair()
	ids := r.resolveIDs(op.IDs)
	what := fmt.Sprintf("op %d Get of %d ids%s", i, len(ids), describeFault(op))
	type out struct {
		blobs [][]byte
		err   error
	}
	var res [2]out
	mode := op.Cancel
	if op.Fault != nil && op.Fault.Err == "hang" && mode != "during" && mode != "deadline" {
		mode = "during"
	}
	for k, s := range []*side{r.D, r.P} {
		r.prepare(op, s, true)
		da := s.da
		if s == r.P {
			da = &px.client.DA
		}
		s.withCtx(mode, func(ctx context.Context) {
			b, err := da.Get(ctx, ids, []byte("ns"))
			res[k] = out{b, err}
		})
	}
	d, p := res[0], res[1]
	r.label("get:" + errClass(d.err))
	if d.err != nil {
		r.nt = true
	}
	if errClass(d.err) != errClass(p.err) {
		v := world.Fail(fmt.Sprintf("C16/get-%s-direct-%s-proxied", errClass(d.err), errClass(p.err)),
			"%s: direct answer is %q (%v), proxied answer is %q (%v)", what, errClass(d.err), d.err, errClass(p.err), p.err)
		return &v
	}
	if d.err == nil && !eqBytesList(d.blobs, p.blobs) {
		v := world.Fail("C16/get-blobs-differ", "%s: %d blobs direct vs %d proxied, or contents differ", what, len(d.blobs), len(p.blobs))
		return &v
	}
	return nil
}

func (r *runner) doAux(i int, op Op) *world.Verdict {
	px := getPair()
	ctx := context.Background()
	what := fmt.Sprintf("op %d %s", i, op.Aux)
	r.label("aux:" + op.Aux)
	r.prepare(op, r.D, false)
	r.prepare(op, r.P, false)
	das := []coreda.DA{r.D.da, &px.client.DA}
	fail := func(format string, a ...any) *world.Verdict {
		v := world.Fail("C16/aux-"+op.Aux+"-differs", what+": "+format, a...)
		return &v
	}
	switch op.Aux {
	case "gasprice", "gasmult":
		var val [2]float64
		var errs [2]error
		for k, da := range das {
			if op.Aux == "gasprice" {
				val[k], errs[k] = da.GasPrice(ctx)
			} else {
				val[k], errs[k] = da.GasMultiplier(ctx)
			}
		}
		if (errs[0] == nil) != (errs[1] == nil) || val[0] != val[1] {
			return fail("direct %v (%v) vs proxied %v (%v)", val[0], errs[0], val[1], errs[1])
		}
	case "commit":
		blobs := mkBlobs(i, op.Sizes)
		var val [2][][]byte
		var errs [2]error
		for k, da := range das {
			val[k], errs[k] = da.Commit(ctx, blobs, []byte("ns"))
		}
		if (errs[0] == nil) != (errs[1] == nil) || !eqBytesList(val[0], val[1]) {
			return fail("commitments direct %s (%v) vs proxied %s (%v)", short(val[0]), errs[0], short(val[1]), errs[1])
		}
	case "proofs", "validate":
		ids := r.resolveIDs(op.IDs)
		var proofs [2][][]byte
		var errs [2]error
		for k, da := range das {
			proofs[k], errs[k] = da.GetProofs(ctx, ids, []byte("ns"))
		}
		if (errs[0] == nil) != (errs[1] == nil) || (errs[0] == nil && !eqBytesList(proofs[0], proofs[1])) {
			return fail("proofs direct %s (%v) vs proxied %s (%v)", short(proofs[0]), errs[0], short(proofs[1]), errs[1])
		}
		if errs[0] != nil {
			r.nt = true
		}
		if op.Aux == "validate" {
			pr := proofs[0]
			if op.N%3 == 1 && len(pr) > 0 {
				pr = pr[:len(pr)-1] // number of proofs differs from number of ids
			}
			var oks [2][]bool
			for k, da := range das {
				oks[k], errs[k] = da.Validate(ctx, ids, pr, []byte("ns"))
			}
			if (errs[0] == nil) != (errs[1] == nil) || fmt.Sprint(oks[0]) != fmt.Sprint(oks[1]) {
				return fail("validity direct %v (%v) vs proxied %v (%v)", oks[0], errs[0], oks[1], errs[1])
			}
		}
	case "submitplain":
		// DA.Submit (no options, no client-side filter): the backing's own rule decides on both sides
		blobs := mkBlobs(i, op.Sizes)
		var val [2][][]byte
		var errs [2]error
		for k, da := range das {
			val[k], errs[k] = da.Submit(ctx, blobs, op.GasPrice, []byte("ns"))
		}
		if (errs[0] == nil) != (errs[1] == nil) || !eqBytesList(val[0], val[1]) {
			return fail("ids direct %s (%v) vs proxied %s (%v)", short(val[0]), errs[0], short(val[1]), errs[1])
		}
		if errs[0] != nil {
			r.nt = true
		} else {
			r.D.ids = append(r.D.ids, val[0]...)
			r.P.ids = append(r.P.ids, val[1]...)
		}
	}
	return nil
}

func run(sc Scenario) (v world.Verdict) {
	px := getPair()
	r := &runner{sc: sc, labels: map[string]bool{}}
	r.D = newSide("direct", sc)
	r.P = newSide("proxied", sc)
	px.sw.set(r.P.w)
	px.client.DA.MaxBlobSize = sc.Limit
	defer func() {
		r.D.close()
		r.P.close()
		r.P.w.waitIdle()
		px.sw.set(nil)
	}()
	r.label("backing:" + sc.Backing)
	r.label("limits:" + sc.BackMode)
	if sc.NilOnEmpty {
		r.label("backing-answers-nil-for-empty-height")
	}
	advanced := false
	for i, op := range sc.Ops {
		if op.Fault != nil {
			r.label("fault:" + op.Fault.At + "/" + op.Fault.Err)
			if op.Fault.Wrap != "" {
				r.label("fault-wrapped:" + op.Fault.Wrap)
			}
		}
		if op.Cancel != "" {
			r.label("cancel:" + op.Cancel + "/" + op.Kind)
		}
		var bad *world.Verdict
		switch op.Kind {
		case "submit":
			if advanced {
				continue // a ticking DummyDA lands submissions at instance-specific heights
			}
			bad = r.doSubmit(i, op)
		case "retrieve":
			if sc.Backing == "dummy" && !advanced && (op.HKind == "populated" || op.HKind == "head") {
				// height 1 is still in the future for a DummyDA that never ticked
				r.label("retrieve:dummy-height-1-before-first-tick")
			}
			bad = r.doRetrieve(i, op)
		case "get":
			bad = r.doGet(i, op)
		case "aux":
			if advanced && op.Aux == "submitplain" {
				continue
			}
			bad = r.doAux(i, op)
		case "sethead":
			if r.D.dbl != nil {
				n := uint64(op.N%5 + 1)
				r.D.dbl.SetHead(r.D.dbl.Head() + n)
				r.P.dbl.SetHead(r.P.dbl.Head() + n)
			}
		case "place":
			if r.D.dbl != nil {
				size := 8
				if len(op.Sizes) > 0 {
					size = op.Sizes[0]
				}
				h := r.D.dbl.Head() + 1 + uint64(op.Gap%3)
				for j := 0; j < op.N; j++ {
					b := mkBlob(i, j, size)
					r.D.dbl.Place(h, b)
					r.P.dbl.Place(h, b)
				}
				if op.N > 100 {
					r.label("place:>100-blobs-at-one-height")
				}
			}
		case "advance":
			if r.D.dummy != nil && !advanced {
				r.D.advance()
				r.P.advance()
				advanced = true
				r.label("dummy:advanced")
			}
		}
		if bad != nil {
			return *bad
		}
	}
	// the two instances must hold the same blobs at the same places afterwards
	if r.D.dbl != nil {
		ds, ps := r.D.dbl.Stored(), r.P.dbl.Stored()
		same := len(ds) == len(ps)
		for k := 0; same && k < len(ds); k++ {
			same = ds[k].Height == ps[k].Height && bytes.Equal(ds[k].ID, ps[k].ID) && bytes.Equal(ds[k].Blob, ps[k].Blob)
		}
		if !same {
			return world.Fail("C16/da-contents-differ-after-the-same-calls", "after the same %d calls the directly called DA holds %d blobs and the proxied one %d (or at different places)", len(sc.Ops), len(ds), len(ps))
		}
	} else if !eqBytesList(r.D.ids, r.P.ids) {
		return world.Fail("C16/da-contents-differ-after-the-same-calls", "after the same calls the two DummyDA instances handed out different ids")
	}
	ls := make([]string, 0, len(r.labels))
	for l := range r.labels {
		ls = append(ls, l)
	}
	sort.Strings(ls)
	return world.OK(r.nt, ls...)
}

// ---------------------------------------------------------------------------------------------
// generators
// ---------------------------------------------------------------------------------------------

func genSizes(t *rapid.T, limit int) []int {
	L := limit
	around := func(label string) int {
		return rapid.SampledFrom([]int{0, 1, L / 2, L - 1, L, L + 1, 2*L + 1}).Draw(t, label)
	}
	switch rapid.IntRange(0, 9).Draw(t, "sizeshape") {
	case 0:
		return []int{}
	case 1:
		return []int{around("single")}
	case 2: // two blobs whose sum is around the limit
		a := rapid.IntRange(0, L).Draw(t, "a")
		b := L - a + rapid.IntRange(-1, 1).Draw(t, "slack")
		if b < 0 {
			b = 0
		}
		return []int{a, b}
	case 3: // many small blobs whose sum crosses the limit somewhere (or not)
		n := rapid.IntRange(1, 40).Draw(t, "nsmall")
		if rapid.IntRange(0, 5).Draw(t, "many") == 0 {
			n = rapid.IntRange(101, 300).Draw(t, "nmany")
		}
		top := L / 8
		if rapid.Bool().Draw(t, "tiny") {
			top = 2
		}
		out := make([]int, n)
		for i := range out {
			out[i] = rapid.IntRange(0, top).Draw(t, "small")
		}
		return out
	case 4: // a blob over the limit somewhere in a list of small ones (before or after the cut)
		n := rapid.IntRange(1, 8).Draw(t, "nlist")
		out := make([]int, n)
		for i := range out {
			out[i] = rapid.IntRange(0, L/3+1).Draw(t, "part")
		}
		out[rapid.IntRange(0, n-1).Draw(t, "overpos")] = L + rapid.IntRange(1, 3).Draw(t, "over")
		return out
	case 5: // a blob that does not fit any more, followed by one that would
		h := L / 2
		return []int{h, L - h + rapid.IntRange(0, 2).Draw(t, "big"), rapid.IntRange(0, 1).Draw(t, "tail")}
	default:
		n := rapid.IntRange(1, 10).Draw(t, "nany")
		out := make([]int, n)
		for i := range out {
			if rapid.Bool().Draw(t, "edge") {
				out[i] = around("anyedge")
			} else {
				out[i] = rapid.IntRange(0, L+2).Draw(t, "any")
			}
		}
		return out
	}
}

func genFault(t *rapid.T, sites []string, allowHang bool) (*Fault, string) {
	if rapid.IntRange(0, 9).Draw(t, "faulty") >= 3 {
		return nil, ""
	}
	f := &Fault{At: rapid.SampledFrom(sites).Draw(t, "at")}
	if allowHang && rapid.IntRange(0, 7).Draw(t, "hang") == 7 {
		f.Err = "hang"
		return f, rapid.SampledFrom([]string{"during", "during", "deadline"}).Draw(t, "giveup")
	}
	f.Err = rapid.SampledFrom(errNames).Draw(t, "err")
	f.Wrap = rapid.SampledFrom(wrapNames).Draw(t, "wrap")
	if f.At == "get" {
		f.Nth = rapid.IntRange(0, 2).Draw(t, "nth")
	}
	f.After = rapid.IntRange(0, 5).Draw(t, "after") == 5
	return f, ""
}

func genIDRefs(t *rapid.T) []IDRef {
	n := rapid.IntRange(0, 5).Draw(t, "nids")
	out := make([]IDRef, n)
	for i := range out {
		if rapid.IntRange(0, 3).Draw(t, "rawid") == 0 {
			ln := rapid.SampledFrom([]int{0, 1, 7, 8, 9, 16, 40}).Draw(t, "rawlen")
			out[i] = IDRef{IsRaw: true, Raw: rapid.SliceOfN(rapid.Byte(), ln, ln).Draw(t, "raw")}
		} else {
			out[i] = IDRef{Known: rapid.IntRange(0, 400).Draw(t, "known")}
		}
	}
	return out
}

func genOp(t *rapid.T, sc *Scenario, advanced *bool) Op {
	L := int(sc.Limit)
	dummy := sc.Backing == "dummy"
	kinds := []string{"submit", "submit", "submit", "submit", "retrieve", "retrieve", "retrieve", "get", "aux"}
	if dummy {
		if *advanced {
			kinds = []string{"retrieve", "retrieve", "get", "aux"}
		} else {
			kinds = append(kinds, "advance")
		}
	} else {
		kinds = append(kinds, "sethead", "place")
	}
	op := Op{Kind: rapid.SampledFrom(kinds).Draw(t, "kind")}
	switch op.Kind {
	case "submit":
		op.Sizes = genSizes(t, L)
		op.GasPrice = rapid.SampledFrom([]float64{0, 0.002, 1.5, -1}).Draw(t, "gas")
		if rapid.Bool().Draw(t, "hasopts") {
			op.Options = rapid.SliceOfN(rapid.Byte(), 0, 12).Draw(t, "opts")
		}
		if !dummy && rapid.IntRange(0, 5).Draw(t, "partial") == 5 {
			op.Accept = rapid.IntRange(1, 4).Draw(t, "accept")
		}
		var giveup string
		op.Fault, giveup = genFault(t, []string{"submit"}, true)
		if giveup != "" {
			op.Cancel = giveup
		} else if rapid.IntRange(0, 15).Draw(t, "precancel") == 0 {
			op.Cancel = "pre"
		}
	case "retrieve":
		op.HKind = rapid.SampledFrom([]string{"zero", "below", "populated", "populated", "populated", "populated", "head", "future", "huge"}).Draw(t, "hkind")
		op.HIdx = rapid.IntRange(0, 7).Draw(t, "hidx")
		if !dummy && rapid.IntRange(0, 3).Draw(t, "scripted") == 0 {
			op.Fetch = &world.FetchOutcome{Kind: rapid.SampledFrom([]string{"notfound", "future", "listerr", "chunkerr"}).Draw(t, "fetch"),
				Chunk: rapid.IntRange(0, 2).Draw(t, "chunk")}
		}
		var giveup string
		op.Fault, giveup = genFault(t, []string{"getids", "getids", "get"}, true)
		if giveup != "" {
			op.Cancel = giveup
		} else if rapid.IntRange(0, 15).Draw(t, "precancel") == 0 {
			op.Cancel = "pre"
		}
	case "get":
		op.IDs = genIDRefs(t)
		var giveup string
		op.Fault, giveup = genFault(t, []string{"get"}, true)
		if op.Fault != nil {
			op.Fault.Nth = 0
		}
		if giveup != "" {
			op.Cancel = giveup
		} else if rapid.IntRange(0, 15).Draw(t, "precancel") == 0 {
			op.Cancel = "pre"
		}
	case "aux":
		op.Aux = rapid.SampledFrom([]string{"gasprice", "gasmult", "commit", "proofs", "validate", "submitplain"}).Draw(t, "aux")
		switch op.Aux {
		case "commit", "submitplain":
			op.Sizes = genSizes(t, L)
		case "proofs", "validate":
			op.IDs = genIDRefs(t)
			op.N = rapid.IntRange(0, 2).Draw(t, "proofcut")
		}
	case "sethead":
		op.N = rapid.IntRange(0, 4).Draw(t, "raise")
	case "place":
		op.N = rapid.IntRange(1, 6).Draw(t, "nplace")
		if rapid.IntRange(0, 3).Draw(t, "bigplace") == 0 {
			op.N = rapid.IntRange(99, 260).Draw(t, "nplacemany")
		}
		op.Sizes = []int{rapid.IntRange(0, 24).Draw(t, "placesize")}
		op.Gap = rapid.IntRange(0, 2).Draw(t, "gap")
	case "advance":
		*advanced = true
	}
	return op
}

func genScenario(t *rapid.T) Scenario {
	sc := Scenario{}
	sc.Backing = rapid.SampledFrom([]string{"dadbl", "dadbl", "dadbl", "dummy"}).Draw(t, "backing")
	sc.Limit = uint64(rapid.SampledFrom([]int{16, 64, 100, 257, 1000, 4096}).Draw(t, "limit"))
	sc.BackMode = rapid.SampledFrom([]string{"equal", "equal", "equal", "equal", "unlimited", "unlimited", "larger", "smaller"}).Draw(t, "backmode")
	sc.NilOnEmpty = rapid.IntRange(0, 3).Draw(t, "nilonempty") == 3
	n := rapid.IntRange(1, world.Scale(10, 30)).Draw(t, "nops")
	advanced := false
	// usually start from a DA that already holds something
	if rapid.IntRange(0, 2).Draw(t, "seeded") > 0 {
		if sc.Backing == "dummy" {
			sc.Ops = append(sc.Ops, Op{Kind: "submit", Sizes: []int{rapid.IntRange(0, 8).Draw(t, "seed0"), rapid.IntRange(0, 8).Draw(t, "seed1")}})
			if rapid.Bool().Draw(t, "ticked") {
				sc.Ops = append(sc.Ops, Op{Kind: "advance"})
				advanced = true
			}
		} else {
			np := rapid.IntRange(1, 6).Draw(t, "seedn")
			if rapid.IntRange(0, 4).Draw(t, "seedmany") == 0 {
				np = rapid.IntRange(99, 260).Draw(t, "seednmany")
			}
			sc.Ops = append(sc.Ops, Op{Kind: "place", N: np, Sizes: []int{rapid.IntRange(0, 24).Draw(t, "seedsize")}})
		}
	}
	for i := 0; i < n; i++ {
		sc.Ops = append(sc.Ops, genOp(t, &sc, &advanced))
	}
	return sc
}

// matrix is the enumerated part: every error the DA interface defines x every wrapping x every
// call site x both backings, the cancellation modes, and the size boundaries around the limit.
func matrix() []Scenario {
	out := []Scenario{}
	for _, backing := range []string{"dadbl", "dummy"} {
		base := func(ops ...Op) Scenario {
			return Scenario{Backing: backing, Limit: 100, BackMode: "equal", Ops: ops}
		}
		sub := Op{Kind: "submit", Sizes: []int{10, 20}, GasPrice: 0.002, Options: []byte("opt")}
		adv := Op{Kind: "advance"}
		ret := func(f *Fault, cancel string) Op {
			return Op{Kind: "retrieve", HKind: "populated", Fault: f, Cancel: cancel}
		}
		for _, e := range errNames {
			for _, w := range wrapNames {
				for _, after := range []bool{false, true} {
					if after && w != "" && w != "pre" {
						continue
					}
					s := sub
					s.Fault = &Fault{At: "submit", Err: e, Wrap: w, After: after}
					out = append(out, base(s, adv, ret(nil, "")))
					out = append(out, base(sub, adv, ret(&Fault{At: "getids", Err: e, Wrap: w, After: after}, "")))
					out = append(out, base(sub, adv, ret(&Fault{At: "get", Err: e, Wrap: w, After: after}, "")))
				}
			}
		}
		for _, c := range []string{"pre", "during", "deadline"} {
			s := sub
			s.Cancel = c
			if c != "pre" {
				s.Fault = &Fault{At: "submit", Err: "hang"}
			}
			out = append(out, base(s, sub, adv, ret(nil, "")))
			for _, at := range []string{"getids", "get"} {
				var f *Fault
				if c != "pre" {
					f = &Fault{At: at, Err: "hang"}
				}
				out = append(out, base(sub, adv, ret(f, c), ret(nil, "")))
			}
		}
		for _, L := range []int{16, 100} {
			h := L / 2
			lists := [][]int{{}, {0}, {L - 1}, {L}, {L + 1}, {L, 0}, {L - 1, 1}, {L - 1, 2}, {1, L}, {1, L - 1}, {1, L + 1}, {L + 1, 1},
				{h, L - h}, {h, L - h, 1}, {h, L - h, 0}, {h, L - h + 1, 1}, {h, L - h + 1, 0, 1}, {1, 1, L + 1, 1}, {L, L + 1}, {0, 0, 0}}
			ones := make([]int, L+5)
			for i := range ones {
				ones[i] = 1
			}
			lists = append(lists, ones)
			for _, bm := range []string{"equal", "unlimited", "larger", "smaller"} {
				for _, sz := range lists {
					out = append(out, Scenario{Backing: backing, Limit: uint64(L), BackMode: bm, Ops: []Op{
						{Kind: "submit", Sizes: sz}, {Kind: "submit", Sizes: []int{1}}, adv,
						{Kind: "retrieve", HKind: "populated", HIdx: 0}, {Kind: "retrieve", HKind: "populated", HIdx: 1},
						{Kind: "get", IDs: []IDRef{{Known: 0}, {Known: 1}}},
					}})
				}
			}
		}
		// the limit a client has by default (about 2 MB), with payloads near it: what the client's size
		// filter lets through must also get through the wire
		if D := int(getPair().defaultLimit); D > 4096 && backing == "dadbl" {
			q := D / 4
			small := make([]int, 1100)
			for i := range small {
				small[i] = D / 1000
			}
			for _, sz := range [][]int{{D / 2}, {D * 9 / 10}, {D}, {D - 1, 1}, {q, q, q, D - 3*q}, {q, q, q, q, q}, small, {D + 1}} {
				for _, bm := range []string{"equal", "unlimited"} {
					out = append(out, Scenario{Backing: backing, Limit: uint64(D), BackMode: bm, Ops: []Op{
						{Kind: "submit", Sizes: sz}, adv, {Kind: "retrieve", HKind: "populated", HIdx: 0}}})
				}
			}
		}
		// heights: nothing there / future / far future, with the LocalDA shape of "nothing there"
		for _, nilOnEmpty := range []bool{false, true} {
			for _, hk := range []string{"zero", "below", "head", "future", "huge"} {
				out = append(out, Scenario{Backing: backing, Limit: 100, BackMode: "equal", NilOnEmpty: nilOnEmpty, Ops: []Op{
					sub, {Kind: "sethead", N: 2}, adv, {Kind: "retrieve", HKind: hk, HIdx: 0}, {Kind: "retrieve", HKind: hk, HIdx: 1}}})
			}
		}
	}
	return out
}

func TestMain(m *testing.M) {
	code := m.Run()
	shutdownPair()
	os.Exit(code)
}

// TestC16Matrix enumerates the error/cancellation/size-boundary matrix (exhaustive over its list).
func TestC16Matrix(t *testing.T) {
	world.Enumerate(t, "C16", "error-matrix", matrix(), true, run)
}

// TestC16Sequences draws whole call sequences.
func TestC16Sequences(t *testing.T) {
	world.Run(t, "C16", "call-sequences", world.Scale(300, 10000), genScenario, run)
}
