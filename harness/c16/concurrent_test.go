package c16

import (
	"bytes"
	"context"
	"fmt"
	"sync"
	"testing"

	"pgregory.net/rapid"

	coreda "github.com/evstack/ev-node/core/da"

	"verif/harness/world"
)

// ConcScenario: several submitters (the node's header and data submission loops are two) share ONE
// JSON-RPC client and submit at the same time. Every call must get back ids for exactly the blobs it
// handed in (the longest prefix that fits), whoever else is submitting: "a caller never marks an unsent
// blob as submitted".
type ConcScenario struct {
	Workers int `json:"workers"`
	Rounds  int `json:"rounds"`
	// Sizes[w] are the blob sizes of worker w's batch in every round
	Sizes [][]int `json:"sizes"`
}

func genConcSubmit(t *rapid.T) ConcScenario {
	sc := ConcScenario{Workers: rapid.IntRange(2, 4).Draw(t, "workers"), Rounds: rapid.IntRange(5, 40).Draw(t, "rounds")}
	for w := 0; w < sc.Workers; w++ {
		n := rapid.IntRange(1, 5).Draw(t, "nblobs")
		sz := make([]int, n)
		for i := range sz {
			sz[i] = rapid.SampledFrom([]int{16, 64, 1024, 40_000}).Draw(t, "size")
		}
		sc.Sizes = append(sc.Sizes, sz)
	}
	return sc
}

func runConcSubmit(sc ConcScenario) world.Verdict {
	px := getPair()
	backing := world.NewDADbl(0)
	px.sw.set(backing)
	defer px.sw.set(nil)
	px.client.DA.MaxBlobSize = px.defaultLimit
	ctx := context.Background()
	var mu sync.Mutex
	var problem string
	var wg sync.WaitGroup
	calls := 0
	for w := 0; w < sc.Workers; w++ {
		w := w
		wg.Add(1)
		go func() {
			defer wg.Done()
			for r := 0; r < sc.Rounds; r++ {
				blobs := make([]coreda.Blob, len(sc.Sizes[w]))
				for i, n := range sc.Sizes[w] {
					tag := []byte(fmt.Sprintf("worker-%d/round-%d/blob-%d/", w, r, i))
					blobs[i] = append(tag, bytes.Repeat([]byte{byte('a' + w)}, n)...)
				}
				ids, err := px.client.DA.SubmitWithOptions(ctx, blobs, 1, nil, nil)
				msg := ""
				switch {
				case err != nil:
					msg = fmt.Sprintf("worker %d round %d: submission through the proxy failed: %v", w, r, err)
				case len(ids) > len(blobs):
					msg = fmt.Sprintf("worker %d round %d: %d ids returned for %d blobs", w, r, len(ids), len(blobs))
				default:
					got, gerr := backing.Get(ctx, ids, nil)
					if gerr != nil || len(got) != len(ids) {
						msg = fmt.Sprintf("worker %d round %d: the ids the call reported do not resolve on the backing DA layer: %v", w, r, gerr)
						break
					}
					for i := range got {
						if !bytes.Equal(got[i], blobs[i]) {
							g := got[i]
							if len(g) > 40 {
								g = g[:40]
							}
							msg = fmt.Sprintf("worker %d round %d: id %d reported for blob %q identifies %q on the DA layer: the call reports a blob as submitted that was not sent (another caller's blob went instead)", w, r, i, blobs[i][:28], g)
							break
						}
					}
				}
				mu.Lock()
				calls++
				if msg != "" && problem == "" {
					problem = msg
				}
				stop := problem != ""
				mu.Unlock()
				if stop {
					return
				}
			}
		}()
	}
	wg.Wait()
	if problem != "" {
		return world.Fail("C16/concurrent-submit-mixup", "%s", problem)
	}
	return world.OK(true, fmt.Sprintf("workers=%d", sc.Workers))
}

// TestC16ConcurrentSubmits: overlapping submissions through one shared client.
func TestC16ConcurrentSubmits(t *testing.T) {
	world.Run(t, "C16", "concurrent-submits", world.Scale(25, 200), genConcSubmit, runConcSubmit)
}
