package c16

import (
	"context"
	"errors"
	"fmt"
	"sync"
	"testing"
	"time"

	"pgregory.net/rapid"

	coreda "github.com/evstack/ev-node/core/da"

	"verif/harness/world"
)

// SlowScenario: the backing DA layer takes a long time to answer (a submission that waits for inclusion
// in a slow DA block, or that finally gives up with "not included"). The caller's context is alive and has
// no deadline. A slow answer is the same answer: ids for a late success, and a late error classified as
// when it comes at once.
type SlowScenario struct {
	DelayS int    `json:"delay_s"`
	Err    string `json:"err"` // "" success | timedout | mempool | generic
	NBlobs int    `json:"nblobs"`
}

type slowDA struct {
	coreda.DA
	delay time.Duration
	err   error
}

func (s slowDA) SubmitWithOptions(ctx context.Context, blobs []coreda.Blob, gp float64, ns []byte, opts []byte) ([]coreda.ID, error) {
	select {
	case <-ctx.Done():
		return nil, ctx.Err()
	case <-time.After(s.delay):
	}
	if s.err != nil {
		return nil, s.err
	}
	return s.DA.SubmitWithOptions(ctx, blobs, gp, ns, opts)
}

func (s slowDA) Submit(ctx context.Context, blobs []coreda.Blob, gp float64, ns []byte) ([]coreda.ID, error) {
	return s.SubmitWithOptions(ctx, blobs, gp, ns, nil)
}

func classifyErr(err error) string {
	switch {
	case err == nil:
		return "success"
	case errors.Is(err, coreda.ErrTxTimedOut):
		return "not-included"
	case errors.Is(err, coreda.ErrTxAlreadyInMempool):
		return "already-in-mempool"
	case errors.Is(err, context.Canceled) || errors.Is(err, coreda.ErrContextCanceled):
		return "canceled"
	case errors.Is(err, context.DeadlineExceeded) || errors.Is(err, coreda.ErrContextDeadline):
		return "deadline"
	}
	return "error"
}

func runSlow(sc SlowScenario) world.Verdict {
	px := getPair()
	px.client.DA.MaxBlobSize = px.defaultLimit
	var berr error
	switch sc.Err {
	case "timedout":
		berr = fmt.Errorf("gave up waiting for inclusion: %w", coreda.ErrTxTimedOut)
	case "mempool":
		berr = coreda.ErrTxAlreadyInMempool
	case "generic":
		berr = errors.New("backend unavailable")
	}
	delay := time.Duration(sc.DelayS) * time.Second
	direct := slowDA{DA: world.NewDADbl(0), delay: delay, err: berr}
	proxied := slowDA{DA: world.NewDADbl(0), delay: delay, err: berr}
	px.sw.set(proxied)
	defer px.sw.set(nil)
	blobs := make([]coreda.Blob, sc.NBlobs)
	for i := range blobs {
		blobs[i] = []byte(fmt.Sprintf("slow-blob-%d", i))
	}
	var wg sync.WaitGroup
	var dIDs, pIDs []coreda.ID
	var dErr, pErr error
	wg.Add(2)
	go func() {
		defer wg.Done()
		dIDs, dErr = direct.SubmitWithOptions(context.Background(), blobs, 1, nil, nil)
	}()
	go func() {
		defer wg.Done()
		pIDs, pErr = px.client.DA.SubmitWithOptions(context.Background(), blobs, 1, nil, nil)
	}()
	wg.Wait()
	if classifyErr(dErr) != classifyErr(pErr) || len(dIDs) != len(pIDs) {
		return world.Fail("C16/slow-answer-differs", "a submission of %d blobs that the DA layer answers after %d s (%s): called directly %d ids, %s; through the proxy %d ids, %s (%v)", sc.NBlobs, sc.DelayS,
			map[bool]string{true: "success", false: sc.Err}[sc.Err == ""], len(dIDs), classifyErr(dErr), len(pIDs), classifyErr(pErr), pErr)
	}
	return world.OK(true, "slow:"+classifyErr(dErr))
}

// TestC16SlowAnswers: answers that take longer than typical transport deadlines (quick: 11 s; thorough: up
// to 65 s, beyond the node's own 60 s per attempt no answer matters).
// The direct and the proxied call of a scenario run at the same time: a scenario costs one delay of wall clock.
func TestC16SlowAnswers(t *testing.T) {
	world.Run(t, "C16", "slow-answers", world.Scale(1, 3), func(t *rapid.T) SlowScenario {
		return SlowScenario{DelayS: rapid.SampledFrom([]int{world.Scale(11, 11), world.Scale(11, 35)}).Draw(t, "delay"), Err: rapid.SampledFrom([]string{"", "timedout", "mempool"}).Draw(t, "err"), NBlobs: rapid.IntRange(1, 3).Draw(t, "nblobs")}
	}, runSlow)
}
