package c16

import (
	"context"
	"encoding/hex"
	"errors"
	"fmt"
	"net"
	"os"
	"strconv"
	"strings"
	"sync"
	"sync/atomic"
	"time"

	logging "github.com/ipfs/go-log/v2"

	coreda "github.com/evstack/ev-node/core/da"
	proxy "github.com/evstack/ev-node/da/jsonrpc"
)

// ---------------------------------------------------------------------------------------------
// error catalogue: every error core/da/errors.go defines, the two context errors, DummyDA's own
// "future" value and one error that is not a sentinel at all.
// ---------------------------------------------------------------------------------------------

var errGeneric = errors.New("backend unavailable: connection reset by peer")

// errors that are no sentinel either, but whose text talks about something "not found" (a DA node that
// has not synced a height yet; an endpoint whose DA module is not registered)
var errLagging = errors.New("header: not found")
var errNoMethod = errors.New("method 'da.GetIDs' not found")

var errNames = []string{"notfound", "toobig", "timedout", "mempool", "seq", "deadline", "future", "futurestr",
	"canceled", "ctxcanceled", "ctxdeadline", "generic", "lagging", "nomethod"}

var wrapNames = []string{"", "pre", "post", "join", "deep", "cause-deadline", "join-deadline", "long-pre"}

func baseErr(name string) error {
	switch name {
	case "notfound":
		return coreda.ErrBlobNotFound
	case "toobig":
		return coreda.ErrBlobSizeOverLimit
	case "timedout":
		return coreda.ErrTxTimedOut
	case "mempool":
		return coreda.ErrTxAlreadyInMempool
	case "seq":
		return coreda.ErrTxIncorrectAccountSequence
	case "deadline":
		return coreda.ErrContextDeadline
	case "future":
		return coreda.ErrHeightFromFuture
	case "futurestr":
		return coreda.ErrHeightFromFutureStr
	case "canceled":
		return coreda.ErrContextCanceled
	case "ctxcanceled":
		return context.Canceled
	case "ctxdeadline":
		return context.DeadlineExceeded
	case "lagging":
		return errLagging
	case "nomethod":
		return errNoMethod
	}
	return errGeneric
}

// mkErr builds the error value the backing DA answers with: the sentinel bare, or wrapped the
// ways Go code wraps (%w in front, %w at the end, errors.Join, two levels).
func mkErr(name, wrap string) error {
	e := baseErr(name)
	switch wrap {
	case "pre":
		return fmt.Errorf("da backend rejected the request: %w", e)
	case "long-pre":
		// a backend that echoes the offending request in front of the cause (hundreds of bytes)
		return fmt.Errorf("broadcast of tx %s refused by the backend: %w", strings.Repeat("deadbeef", 60), e)
	case "post":
		return fmt.Errorf("%w: requested 7, current 3", e)
	case "join":
		return errors.Join(errors.New("attempt 1 failed"), e)
	case "deep":
		return fmt.Errorf("rpc: %w", fmt.Errorf("celestia: %w", e))
	case "cause-deadline":
		// "gave up waiting for inclusion": the DA error with the expired deadline as its cause
		if e == context.DeadlineExceeded {
			return e
		}
		return fmt.Errorf("%w: %w", e, context.DeadlineExceeded)
	case "join-deadline":
		if e == context.DeadlineExceeded {
			return e
		}
		return errors.Join(e, context.DeadlineExceeded)
	}
	return e
}

// Fault is one scripted misbehaviour of the backing DA during one operation.
type Fault struct {
	At    string `json:"at"`              // submit | getids | get
	Err   string `json:"err"`             // one of errNames, or "hang" (block until the caller gives up)
	Wrap  string `json:"wrap,omitempty"`  // one of wrapNames
	Nth   int    `json:"nth,omitempty"`   // which call of that kind inside the operation (0-based)
	After bool   `json:"after,omitempty"` // the backing DA executes the call, then the answer is lost
}

// backingCall is what reached the backing DA (behind the wire for the proxied side).
type backingCall struct {
	Op       string
	Blobs    [][]byte
	Options  []byte
	GasPrice float64
	Reached  bool // the inner DA really executed the call
	IDs      [][]byte
	Err      error
}

// faultDA wraps a backing DA: it honours the caller's context like a real DA client, injects the
// armed fault and records what reached the backing DA.
type faultDA struct {
	inner      coreda.DA
	nilOnEmpty bool // answer (nil, nil) for a height without blobs, as LocalDA does

	mu      sync.Mutex
	fault   *Fault
	counts  map[string]int
	calls   []backingCall
	entered chan struct{}
	wg      sync.WaitGroup
}

var _ coreda.DA = (*faultDA)(nil)

func newFaultDA(inner coreda.DA, nilOnEmpty bool) *faultDA {
	return &faultDA{inner: inner, nilOnEmpty: nilOnEmpty, counts: map[string]int{}, entered: make(chan struct{}, 1)}
}

// arm installs the fault for the next operation and clears the call record.
func (f *faultDA) arm(fl *Fault) {
	f.mu.Lock()
	defer f.mu.Unlock()
	f.fault = fl
	f.counts = map[string]int{}
	f.calls = nil
	f.entered = make(chan struct{}, 1)
}

func (f *faultDA) enteredCh() chan struct{} {
	f.mu.Lock()
	defer f.mu.Unlock()
	return f.entered
}

func (f *faultDA) take(kind string) *Fault {
	f.mu.Lock()
	defer f.mu.Unlock()
	n := f.counts[kind]
	f.counts[kind] = n + 1
	if f.fault != nil && f.fault.At == kind && f.fault.Nth == n {
		return f.fault
	}
	return nil
}

func (f *faultDA) record(c backingCall) {
	f.mu.Lock()
	defer f.mu.Unlock()
	f.calls = append(f.calls, c)
}

func (f *faultDA) callsOf(op string) []backingCall {
	f.mu.Lock()
	defer f.mu.Unlock()
	out := []backingCall{}
	for _, c := range f.calls {
		if c.Op == op {
			out = append(out, c)
		}
	}
	return out
}

// waitIdle waits until no call is executing inside the wrapper (a handler of a cancelled request
// may outlive the client call). A timeout here is a harness failure, never a verdict.
func (f *faultDA) waitIdle() {
	done := make(chan struct{})
	go func() { f.wg.Wait(); close(done) }()
	select {
	case <-done:
	case <-time.After(30 * time.Second):
		panic("c16 harness: a server-side handler did not finish within 30s after its request ended")
	}
}

func (f *faultDA) hang(ctx context.Context) error {
	select {
	case f.enteredCh() <- struct{}{}:
	default:
	}
	<-ctx.Done()
	return ctx.Err()
}

func cloneBlobs(b [][]byte) [][]byte {
	out := make([][]byte, len(b))
	for i := range b {
		out[i] = append([]byte{}, b[i]...)
	}
	return out
}

func (f *faultDA) submit(ctx context.Context, blobs []coreda.Blob, gp float64, ns, opts []byte, plain bool) ([]coreda.ID, error) {
	f.wg.Add(1)
	defer f.wg.Done()
	if err := ctx.Err(); err != nil {
		return nil, err
	}
	c := backingCall{Op: "submit", Blobs: cloneBlobs(blobs), Options: append([]byte{}, opts...), GasPrice: gp}
	fl := f.take("submit")
	if fl != nil && !fl.After {
		if fl.Err == "hang" {
			return nil, f.hang(ctx)
		}
		c.Err = mkErr(fl.Err, fl.Wrap)
		f.record(c)
		return nil, c.Err
	}
	var ids []coreda.ID
	var err error
	if plain {
		ids, err = f.inner.Submit(ctx, blobs, gp, ns)
	} else {
		ids, err = f.inner.SubmitWithOptions(ctx, blobs, gp, ns, opts)
	}
	c.Reached = true
	c.IDs = cloneBlobs(ids)
	c.Err = err
	f.record(c)
	if fl != nil && fl.After {
		return nil, mkErr(fl.Err, fl.Wrap)
	}
	return ids, err
}

func (f *faultDA) Submit(ctx context.Context, blobs []coreda.Blob, gp float64, ns []byte) ([]coreda.ID, error) {
	return f.submit(ctx, blobs, gp, ns, nil, true)
}

func (f *faultDA) SubmitWithOptions(ctx context.Context, blobs []coreda.Blob, gp float64, ns []byte, opts []byte) ([]coreda.ID, error) {
	return f.submit(ctx, blobs, gp, ns, opts, false)
}

func (f *faultDA) GetIDs(ctx context.Context, height uint64, ns []byte) (*coreda.GetIDsResult, error) {
	f.wg.Add(1)
	defer f.wg.Done()
	if err := ctx.Err(); err != nil {
		return nil, err
	}
	fl := f.take("getids")
	if fl != nil && !fl.After {
		if fl.Err == "hang" {
			return nil, f.hang(ctx)
		}
		return nil, mkErr(fl.Err, fl.Wrap)
	}
	res, err := f.inner.GetIDs(ctx, height, ns)
	f.record(backingCall{Op: "getids", Reached: true, Err: err})
	if fl != nil && fl.After {
		return nil, mkErr(fl.Err, fl.Wrap)
	}
	if err == nil && f.nilOnEmpty && (res == nil || len(res.IDs) == 0) {
		return nil, nil
	}
	return res, err
}

func (f *faultDA) Get(ctx context.Context, ids []coreda.ID, ns []byte) ([]coreda.Blob, error) {
	f.wg.Add(1)
	defer f.wg.Done()
	if err := ctx.Err(); err != nil {
		return nil, err
	}
	fl := f.take("get")
	if fl != nil && !fl.After {
		if fl.Err == "hang" {
			return nil, f.hang(ctx)
		}
		return nil, mkErr(fl.Err, fl.Wrap)
	}
	res, err := f.inner.Get(ctx, ids, ns)
	f.record(backingCall{Op: "get", Reached: true, Err: err})
	if fl != nil && fl.After {
		return nil, mkErr(fl.Err, fl.Wrap)
	}
	return res, err
}

func (f *faultDA) GetProofs(ctx context.Context, ids []coreda.ID, ns []byte) ([]coreda.Proof, error) {
	return f.inner.GetProofs(ctx, ids, ns)
}

func (f *faultDA) Commit(ctx context.Context, blobs []coreda.Blob, ns []byte) ([]coreda.Commitment, error) {
	return f.inner.Commit(ctx, blobs, ns)
}

func (f *faultDA) Validate(ctx context.Context, ids []coreda.ID, proofs []coreda.Proof, ns []byte) ([]bool, error) {
	return f.inner.Validate(ctx, ids, proofs, ns)
}

func (f *faultDA) GasPrice(ctx context.Context) (float64, error) { return f.inner.GasPrice(ctx) }

func (f *faultDA) GasMultiplier(ctx context.Context) (float64, error) {
	return f.inner.GasMultiplier(ctx)
}

// ---------------------------------------------------------------------------------------------
// switchDA: what the one JSON-RPC server of this process serves; every scenario points it at its
// own proxied backing instance.
// ---------------------------------------------------------------------------------------------

type switchDA struct{ cur atomic.Pointer[coreda.DA] }

var errNoBacking = errors.New("c16 harness: no backing DA installed behind the server")

func (s *switchDA) set(d coreda.DA) {
	if d == nil {
		s.cur.Store(nil)
		return
	}
	s.cur.Store(&d)
}

func (s *switchDA) get() coreda.DA {
	p := s.cur.Load()
	if p == nil {
		return nil
	}
	return *p
}

func (s *switchDA) Get(ctx context.Context, ids []coreda.ID, ns []byte) ([]coreda.Blob, error) {
	if d := s.get(); d != nil {
		return d.Get(ctx, ids, ns)
	}
	return nil, errNoBacking
}
func (s *switchDA) GetIDs(ctx context.Context, h uint64, ns []byte) (*coreda.GetIDsResult, error) {
	if d := s.get(); d != nil {
		return d.GetIDs(ctx, h, ns)
	}
	return nil, errNoBacking
}
func (s *switchDA) GetProofs(ctx context.Context, ids []coreda.ID, ns []byte) ([]coreda.Proof, error) {
	if d := s.get(); d != nil {
		return d.GetProofs(ctx, ids, ns)
	}
	return nil, errNoBacking
}
func (s *switchDA) Commit(ctx context.Context, blobs []coreda.Blob, ns []byte) ([]coreda.Commitment, error) {
	if d := s.get(); d != nil {
		return d.Commit(ctx, blobs, ns)
	}
	return nil, errNoBacking
}
func (s *switchDA) Submit(ctx context.Context, blobs []coreda.Blob, gp float64, ns []byte) ([]coreda.ID, error) {
	if d := s.get(); d != nil {
		return d.Submit(ctx, blobs, gp, ns)
	}
	return nil, errNoBacking
}
func (s *switchDA) SubmitWithOptions(ctx context.Context, blobs []coreda.Blob, gp float64, ns []byte, o []byte) ([]coreda.ID, error) {
	if d := s.get(); d != nil {
		return d.SubmitWithOptions(ctx, blobs, gp, ns, o)
	}
	return nil, errNoBacking
}
func (s *switchDA) Validate(ctx context.Context, ids []coreda.ID, proofs []coreda.Proof, ns []byte) ([]bool, error) {
	if d := s.get(); d != nil {
		return d.Validate(ctx, ids, proofs, ns)
	}
	return nil, errNoBacking
}
func (s *switchDA) GasPrice(ctx context.Context) (float64, error) {
	if d := s.get(); d != nil {
		return d.GasPrice(ctx)
	}
	return 0, errNoBacking
}
func (s *switchDA) GasMultiplier(ctx context.Context) (float64, error) {
	if d := s.get(); d != nil {
		return d.GasMultiplier(ctx)
	}
	return 0, errNoBacking
}

// ---------------------------------------------------------------------------------------------
// the real jsonrpc.Server + jsonrpc.Client pair of this process (own loopback port)
// ---------------------------------------------------------------------------------------------

type proxyPair struct {
	sw     *switchDA
	srv    *proxy.Server
	client *proxy.Client
	port   int
	// defaultLimit is the MaxBlobSize a client has when nobody overrides it
	defaultLimit uint64
}

var (
	pairOnce sync.Once
	pair     *proxyPair
	logger   = logging.Logger("c16")
)

// probeDA answers GasPrice with a process-unique token so the client can make sure it talks to
// the server of this very process (ports are picked, released and re-bound).
type probeDA struct {
	coreda.DA
	token float64
}

func (p probeDA) GasPrice(context.Context) (float64, error) { return p.token, nil }

func getPair() *proxyPair {
	pairOnce.Do(func() {
		logging.SetAllLoggers(logging.LevelFatal)
		ctx := context.Background()
		token := float64(os.Getpid()) + 0.4242
		var lastErr error
		for attempt := 0; attempt < 40; attempt++ {
			l, err := net.Listen("tcp", "127.0.0.1:0")
			if err != nil {
				lastErr = err
				continue
			}
			port := l.Addr().(*net.TCPAddr).Port
			_ = l.Close()
			sw := &switchDA{}
			srv := proxy.NewServer(logger, "127.0.0.1", strconv.Itoa(port), sw)
			// Start is given a context that ends as soon as Start has returned (a bounded start-up context):
			// the server's life time is governed by Stop, and a call served later runs under its caller's
			// context, not under the one that happened to be passed to Start
			sctx, scancel := context.WithCancel(ctx)
			err = srv.Start(sctx)
			scancel()
			if err != nil {
				lastErr = err
				continue
			}
			cl, err := proxy.NewClient(ctx, logger, fmt.Sprintf("http://127.0.0.1:%d", port), "", hex.EncodeToString([]byte("c16ns")))
			if err != nil {
				lastErr = err
				_ = srv.Stop(ctx)
				continue
			}
			sw.set(probeDA{token: token})
			got, err := cl.DA.GasPrice(ctx)
			sw.set(nil)
			if err != nil || got != token {
				lastErr = fmt.Errorf("probe through the proxy answered %v, %v", got, err)
				cl.Close()
				_ = srv.Stop(ctx)
				continue
			}
			logging.SetAllLoggers(logging.LevelFatal)
			pair = &proxyPair{sw: sw, srv: srv, client: cl, port: port, defaultLimit: cl.DA.MaxBlobSize}
			return
		}
		panic(fmt.Sprintf("c16 harness: cannot start a JSON-RPC server/client pair on loopback: %v", lastErr))
	})
	if pair == nil {
		panic("c16 harness: JSON-RPC pair unavailable")
	}
	return pair
}

func shutdownPair() {
	if pair != nil {
		pair.client.Close()
		ctx, cancel := context.WithTimeout(context.Background(), 5*time.Second)
		defer cancel()
		_ = pair.srv.Stop(ctx)
	}
}
