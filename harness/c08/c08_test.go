// Package c08 decides C08: the pending-submission limit throttles block production only while
// that many committed blocks are genuinely waiting for the DA layer, and never deadlocks it.
package c08

import (
	"fmt"
	"os"
	"testing"
	"time"

	"pgregory.net/rapid"

	"verif/harness/pw"
	"verif/harness/sw"
	"verif/harness/world"
)

func gen(t *rapid.T) sw.Scenario {
	sc := sw.Scenario{MempoolTTL: uint64(rapid.IntRange(1, 2).Draw(t, "ttl")), MaxPending: uint64(rapid.IntRange(1, 6).Draw(t, "limit"))}
	switch rapid.IntRange(0, 4).Draw(t, "ih") {
	case 0, 1, 2:
		sc.InitialHeight = 1
	case 3:
		sc.InitialHeight = uint64(rapid.IntRange(2, 5).Draw(t, "ihs"))
	default:
		sc.InitialHeight = 1<<20 + uint64(rapid.IntRange(0, 3).Draw(t, "ihb")) // large, but a pending range wrongly starting at 0 stays allocatable (2^32 would be a 32 GiB slice: a hang, not a verdict)
	}
	emptyBias := rapid.SampledFrom([]int{100, 100, 70, 40, 0}).Draw(t, "emptybias")
	n := rapid.IntRange(4, world.Scale(30, 60)).Draw(t, "nops")
	for i := 0; i < n; i++ {
		switch k := rapid.IntRange(0, 19).Draw(t, "op"); {
		case k < 11:
			sc.Ops = append(sc.Ops, sw.GenProduce(t, emptyBias))
		case k < 16:
			sc.Ops = append(sc.Ops, sw.Op{Kind: "tick", N: rapid.IntRange(1, 2).Draw(t, "nt")})
		case k < 17:
			// the node is restarted (cleanly or after a crash), possibly before the DA layer ever
			// acknowledged anything
			sc.Ops = append(sc.Ops, sw.Op{Kind: rapid.SampledFrom([]string{"restart", "crash"}).Draw(t, "restartkind")})
		default:
			// a DA outage of finite length for one kind of submission
			tg := rapid.SampledFrom([]string{"header", "data"}).Draw(t, "target")
			ln := rapid.IntRange(1, 8).Draw(t, "outage")
			o := sw.Op{Kind: "script", Target: tg}
			kind := rapid.SampledFrom([]string{"timeout", "error", "mempool", "toobig", "canceled", "da-canceled", "hang"}).Draw(t, "outkind")
			if kind == "hang" {
				ln = 1 // a request that is swallowed (no answer at all): only its own deadline ends it
			}
			for j := 0; j < ln; j++ {
				o.Script = append(o.Script, world.SubmitResp{Kind: kind})
			}
			sc.Ops = append(sc.Ops, o)
		}
	}
	sc.GenVia(t)
	return sc
}

func run(sc sw.Scenario, dir string) world.Verdict {
	return sw.InBubble(func() world.Verdict {
		root, _ := os.MkdirTemp(dir, "c08")
		defer os.RemoveAll(root)
		w, err := sw.New(world.NodeOpts{ChainID: "c08-chain", InitialHeight: sc.InitialHeight, RootDir: root, MempoolTTL: sc.MempoolTTL, MaxPending: sc.MaxPending, ViaDAClient: sc.ViaClient, DAClientLimit: sc.ClientLimit, Prometheus: sc.Prometheus, DBPath: sc.DBPath})
		if err != nil {
			return world.Fail("C08/start", "NewManager failed: %v", err)
		}
		defer w.Stop()
		L := int(sc.MaxPending)
		throttled, empties, produced := 0, 0, 0
		var knownHit *world.Verdict
		restarted := false
		for i, o := range sc.Ops {
			var waitingBefore int
			if o.Kind == "produce" {
				waitingBefore, err = w.GenuinelyWaiting()
				if err != nil {
					return world.Fail("C08/blocks", "%v", err)
				}
			}
			r, err := w.Apply(o)
			if err != nil {
				return world.Fail("C08/restart-fails", "op %d (%s): %v", i, o.Kind, err)
			}
			if o.Kind == "restart" || o.Kind == "crash" {
				restarted = true
			}
			if r == nil {
				continue
			}
			if r.Panic != nil {
				return world.Fail("C08/panic", "op %d panicked: %v", i, r.Panic)
			}
			if r.After == r.Before+1 {
				produced++
				if o.Step.Seq.Kind == "empty" {
					empties++
				}
				continue
			}
			// the node declined although a batch was available
			throttled++
			if waitingBefore < L {
				hw, dw := w.P.N.M.VerifNumPendingHeaders(), w.P.N.M.VerifNumPendingData()
				sig := "C08/refused-without-backlog"
				if waitingBefore == 0 {
					sig = "C08/refused-with-nothing-pending"
				}
				// root-cause class: the refusal comes from the data counter (= chain height - data
				// watermark), which counts blocks WITHOUT transactions although their data is never
				// published; the header counter alone would not have refused
				if hw < uint64(L) && dw >= uint64(L) {
					empties := 0
					bs, _ := w.Blocks()
					for _, b := range bs {
						if b.Height > w.P.N.M.VerifLastSubmittedDataHeight() && b.Empty {
							empties++
						}
					}
					if empties > 0 && int(dw)-empties < L {
						sig = "C08/refused-without-backlog/data-counter-counts-empty-blocks"
					}
				}
				v := world.Fail(sig, "op %d: production declined (err=%v) with limit %d although only %d committed block(s) are genuinely waiting for the DA layer (pending counters: headers %d, data %d)", i, r.Err, L, waitingBefore, hw, dw)
				if world.KnownOpen("C08", sig) {
					// keep exploring behind the known finding; report it at the end if nothing else fails
					if knownHit == nil {
						knownHit = &v
					}
					continue
				}
				return v
			}
		}
		// liveness: with an accepting DA layer production never stops: R rounds of tick;produce grow the chain by >= R-L
		w.P.DA.ClearScripts()
		w.Settle(61 * time.Second)
		w.Tick(int(2*(sc.MempoolTTL+2)) + 4)
		if n, _ := w.GenuinelyWaiting(); n != 0 {
			return world.Fail("C08/backlog-not-drained", "the DA layer accepts everything, yet %d committed block(s) are still waiting", n)
		}
		h0, _ := w.P.N.Store.Height(w.P.Ctx)
		R := L + 4
		for k := 0; k < R; k++ {
			w.Tick(2)
			st := pw.GoodStep()
			if k%3 == 2 && sc.Ops[0].Kind != "" {
				st = pw.GoodStep([]byte(fmt.Sprintf("live-%d", k)))
			}
			waiting, _ := w.GenuinelyWaiting()
			r := w.Produce(st)
			if r.After != r.Before+1 && waiting == 0 {
				hw, dw := w.P.N.M.VerifNumPendingHeaders(), w.P.N.M.VerifNumPendingData()
				return world.Fail("C08/deadlock", "round %d of the epilogue: nothing is waiting for the DA layer, the DA layer accepts everything, yet production is declined (limit %d, pending counters: headers %d, data %d, err=%v)", k, L, hw, dw, r.Err)
			}
		}
		h1, _ := w.P.N.Store.Height(w.P.Ctx)
		if int(h1-h0) < R-L {
			return world.Fail("C08/stalled", "over %d rounds with an accepting DA layer the chain grew by only %d (limit %d)", R, h1-h0, L)
		}
		ls := []string{fmt.Sprintf("limit=%d", L)}
		if throttled > 0 {
			ls = append(ls, "throttled")
		}
		if produced > 0 && empties == produced {
			ls = append(ls, "all-empty")
		}
		if sc.InitialHeight > 1 {
			ls = append(ls, "initial>1")
		}
		if restarted {
			ls = append(ls, "restarted")
		}
		if knownHit != nil {
			return *knownHit
		}
		return world.OK(throttled > 0 && empties > 0, ls...)
	})
}

func TestC08(t *testing.T) {
	dir := t.TempDir()
	world.Run(t, "C08", "pending-limit", world.Scale(300, 2000), gen, func(sc sw.Scenario) world.Verdict { return run(sc, dir) })
}
