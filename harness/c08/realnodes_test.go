package c08

import (
	"testing"

	"verif/harness/rw"
	"verif/harness/world"
)

// TestC08RealNodes: the pending limit on REAL nodes (node.NewNode(...).Run; the aggregator may reach the DA
// layer through the real JSON-RPC DA client): with a DA layer that accepts submissions the aggregator keeps
// producing and what it produced ends up DA-included (stall verdicts only; see package rw).
func TestC08RealNodes(t *testing.T) {
	dir := t.TempDir()
	world.Run(t, "C08", "real-nodes", world.Scale(4, 16), rw.Gen, func(sc rw.Scenario) world.Verdict {
		r := rw.Run(sc, dir)
		return r.Judge("C08", r.CheckSubmissions)
	})
}
