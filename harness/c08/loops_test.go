package c08

import (
	"context"
	"fmt"
	"os"
	"sync"
	"testing"
	"time"

	"pgregory.net/rapid"

	"github.com/evstack/ev-node/block"
	"github.com/evstack/ev-node/sequencers/single"

	"verif/harness/pw"
	"verif/harness/sw"
	"verif/harness/world"
)

// LoopScenario: the REAL aggregation loop (normal or lazy), reaper, single sequencer and both submission
// loops run in virtual time with a pending limit, through a DA outage of finite length.
type LoopScenario struct {
	InitialHeight uint64 `json:"initial_height"`
	BlockMs       int    `json:"block_ms"`
	Lazy          bool   `json:"lazy,omitempty"`
	LazyRatio     int    `json:"lazy_ratio,omitempty"`
	Limit         int    `json:"limit"`
	OutageFromMs  int    `json:"outage_from_ms"`
	OutageMs      int    `json:"outage_ms"`
	OutageKind    string `json:"outage_kind"`
	ExecMs        int    `json:"exec_ms,omitempty"`
	// WatermarkFaultMs > 0: at this moment one durable write of a submission watermark (the persisted
	// "last submitted header/data height") fails with an I/O error, once.
	WatermarkFaultMs int    `json:"watermark_fault_ms,omitempty"`
	WatermarkOf      string `json:"watermark_of,omitempty"` // header | data
	// Arrivals: transactions entering the mempool (none: an idle chain that produces only empty blocks).
	Arrivals []Arrival `json:"arrivals,omitempty"`
}

type Arrival struct {
	AtMs int      `json:"at_ms"`
	Txs  [][]byte `json:"txs"`
}

func genLoops(t *rapid.T) LoopScenario {
	sc := LoopScenario{
		InitialHeight: rapid.SampledFrom([]uint64{1, 1, 3, 1 << 20}).Draw(t, "initial"),
		BlockMs:       rapid.SampledFrom([]int{10, 100, 1000}).Draw(t, "block"),
		Lazy:          rapid.Bool().Draw(t, "lazy"),
		LazyRatio:     rapid.IntRange(2, 8).Draw(t, "lazyratio"),
		Limit:         rapid.SampledFrom([]int{1, 1, 2, 3, 5, 10}).Draw(t, "limit"),
		OutageKind:    rapid.SampledFrom([]string{"error", "error", "timeout", "mempool", "deadline"}).Draw(t, "kind"),
	}
	interval := sc.BlockMs
	if sc.Lazy {
		interval *= sc.LazyRatio
	}
	sc.OutageFromMs = rapid.IntRange(0, 6*interval).Draw(t, "from")
	// most outages are long enough for the limit to be reached
	sc.OutageMs = rapid.IntRange(1, 3*sc.Limit+6).Draw(t, "len") * interval
	if rapid.IntRange(0, 11).Draw(t, "congestion") == 0 {
		// a congestion of thousands of refused attempts per submission loop (each answered "already in the
		// mempool" / "not included in a block", the answers that make the node raise its gas price)
		sc.BlockMs = 10
		sc.OutageKind = rapid.SampledFrom([]string{"mempool", "timeout"}).Draw(t, "congestionkind")
		sc.OutageMs = rapid.SampledFrom([]int{45_000, 90_000}).Draw(t, "congestionlen")
	}
	if rapid.IntRange(0, 5).Draw(t, "wmfault") == 0 {
		sc.WatermarkFaultMs = 1 + rapid.IntRange(0, 12).Draw(t, "wmfaultat")*interval
		sc.WatermarkOf = rapid.SampledFrom([]string{"header", "data"}).Draw(t, "wmfaultof")
	}
	if rapid.IntRange(0, 4).Draw(t, "slowexec") == 0 {
		sc.ExecMs = rapid.SampledFrom([]int{sc.BlockMs / 2, 2 * sc.BlockMs}).Draw(t, "exec")
	}
	for n := rapid.SampledFrom([]int{0, 0, 0, 1, 3}).Draw(t, "narr"); n > 0; n-- {
		sc.Arrivals = append(sc.Arrivals, Arrival{AtMs: rapid.IntRange(0, sc.OutageFromMs+sc.OutageMs+10*interval).Draw(t, "at"), Txs: sw.GenTxs(t)})
	}
	return sc
}

func runLoops(sc LoopScenario, dir string) world.Verdict {
	return sw.InBubble(func() world.Verdict {
		root, _ := os.MkdirTemp(dir, "c08l")
		defer os.RemoveAll(root)
		t0 := time.Now()
		interval := time.Duration(sc.BlockMs) * time.Millisecond
		if sc.Lazy {
			interval *= time.Duration(sc.LazyRatio)
		}
		o := world.NodeOpts{ChainID: "c08-loops", InitialHeight: sc.InitialHeight, RootDir: root, GenesisTime: t0.Add(-time.Minute), Lazy: sc.Lazy,
			BlockTime: time.Duration(sc.BlockMs) * time.Millisecond, DABlockTime: 2 * time.Duration(sc.BlockMs) * time.Millisecond,
			LazyInterval: interval, MempoolTTL: 2, MaxPending: uint64(sc.Limit)}
		p, err := pw.New(o)
		if err != nil {
			return world.Fail("C08/loops/start", "aggregator does not start: %v", err)
		}
		p.DA.KindOf = sw.KindOf
		seq, err := single.NewSequencerWithQueueSize(p.Ctx, world.Logger(), p.Raw, p.DA, []byte(p.Opts.ChainID), o.BlockTime, seqMetrics(), true, 1000)
		if err != nil {
			return world.Fail("C08/loops/start", "sequencer does not start: %v", err)
		}
		p.SeqOverride = seq
		if err := p.RestartOn(p.Raw); err != nil {
			return world.Fail("C08/loops/start", "aggregator does not start: %v", err)
		}
		p.Exec.Latency = time.Duration(sc.ExecMs) * time.Millisecond
		from := t0.Add(time.Duration(sc.OutageFromMs) * time.Millisecond)
		until := from.Add(time.Duration(sc.OutageMs) * time.Millisecond)
		p.DA.Down = func() bool { n := time.Now(); return !n.Before(from) && n.Before(until) }
		p.DA.DownKind = sc.OutageKind
		reaper := block.NewReaper(p.Ctx, p.Exec, seq, p.Opts.ChainID, o.BlockTime, world.Logger(), p.N.KV)
		reaper.SetManager(p.N.M)
		ctx, cancel := context.WithCancel(context.Background())
		errCh := make(chan error, 16)
		var wg sync.WaitGroup
		spawn := func(fn func()) {
			wg.Add(1)
			go func() { defer wg.Done(); fn() }()
		}
		m := p.N.M
		spawn(func() { m.AggregationLoop(ctx, errCh) })
		spawn(func() { reaper.Start(ctx) })
		spawn(func() { m.HeaderSubmissionLoop(ctx) })
		spawn(func() { m.DataSubmissionLoop(ctx) })
		if sc.WatermarkFaultMs > 0 {
			spawn(func() {
				select {
				case <-ctx.Done():
				case <-time.After(time.Duration(sc.WatermarkFaultMs) * time.Millisecond):
					p.Raw.SetErrOnPrefix("/0/m/last-submitted-" + map[bool]string{true: "data", false: "header"}[sc.WatermarkOf == "data"] + "-height")
				}
			})
		}
		for _, a := range sc.Arrivals {
			a := a
			spawn(func() {
				select {
				case <-ctx.Done():
				case <-time.After(time.Duration(a.AtMs) * time.Millisecond):
					for _, tx := range a.Txs {
						p.Exec.InjectTx(tx)
					}
				}
			})
		}
		height := func() uint64 { h, _ := p.N.Store.Height(p.Ctx); return h }
		stop := func() {
			cancel()
			wg.Wait()
		}
		// until the end of the outage
		time.Sleep(time.Until(until))
		hOutageEnd := height()
		pendingAtEnd := m.VerifNumPendingHeaders() // what waits for the DA layer at this moment
		// The DA layer accepts again. The submission loops retry with a back-off that is bounded by the
		// DA block time and by the mempool TTL; give them ample virtual time, then watch production.
		settle := 20*time.Duration(sc.BlockMs)*time.Millisecond*time.Duration(o.MempoolTTL+1) + 65*time.Second
		time.Sleep(settle)
		hSettled := height()
		watch := 12*interval + 4*time.Duration(sc.ExecMs)*time.Millisecond
		time.Sleep(watch)
		hEnd := height()
		var loopErr string
		select {
		case e := <-errCh:
			if e != nil {
				loopErr = e.Error()
			}
		default:
		}
		stop()
		labels := []string{}
		if sc.Lazy {
			labels = append(labels, "lazy")
		}
		if len(sc.Arrivals) == 0 {
			labels = append(labels, "idle-chain")
		}
		if sc.WatermarkFaultMs > 0 {
			labels = append(labels, "watermark-write-fault")
		}
		if sc.OutageMs >= 45_000 && (sc.OutageKind == "mempool" || sc.OutageKind == "timeout") {
			labels = append(labels, "congestion-of-thousands-of-refused-attempts")
		}
		limitHit := pendingAtEnd >= uint64(sc.Limit)
		if limitHit {
			labels = append(labels, "limit-reached-during-outage")
		}
		if loopErr != "" {
			return world.Fail("C08/loops/loop-error", "a loop reported a fatal error: %s", loopErr)
		}
		// with a DA layer that accepts submissions production never stops permanently: over 12 production
		// intervals (plus execution time) after everything had ample time to be accepted, blocks must appear
		if hEnd < hSettled+3 {
			return world.Fail("C08/loops/stopped-for-good", "limit %d, %s mode: the DA layer has been accepting submissions again for %s (outage %s..%s of %s errors, %d headers were pending at its end, chain height %d), yet during the last %s (12 production intervals) the height only went from %d to %d",
				sc.Limit, map[bool]string{true: "lazy", false: "normal"}[sc.Lazy], settle+watch, time.Duration(sc.OutageFromMs)*time.Millisecond, time.Duration(sc.OutageFromMs+sc.OutageMs)*time.Millisecond, sc.OutageKind, pendingAtEnd, hOutageEnd, watch, hSettled, hEnd)
		}
		_ = fmt.Sprint
		return world.OK(limitHit, labels...)
	})
}

// TestC08Loops: pending limit with the REAL aggregation loop (normal and lazy mode), reaper, single
// sequencer and submission loops in virtual time through a DA outage of finite length: once the DA layer
// accepts again, block production must resume (idle chains included).
func TestC08Loops(t *testing.T) {
	dir := t.TempDir()
	world.Run(t, "C08", "loops-through-outage", world.Scale(40, 200), genLoops, func(sc LoopScenario) world.Verdict { return runLoops(sc, dir) })
}

// seqMetrics are the sequencing layer's metrics as the applications pass them when instrumentation is off
// (discard collectors; the sequencer then goes through its whole metrics path, as in a real node).
func seqMetrics() *single.Metrics {
	m, _ := single.NopMetrics()
	return m
}
