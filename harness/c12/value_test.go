package c12

import (
	"bytes"
	"context"
	"encoding/gob"
	"fmt"
	"os"
	"path/filepath"
	"sync"
	"testing"
	"time"

	goheader "github.com/celestiaorg/go-header"
	"google.golang.org/protobuf/proto"

	"github.com/evstack/ev-node/block"
	"github.com/evstack/ev-node/pkg/cache"
	storepkg "github.com/evstack/ev-node/pkg/store"
	"github.com/evstack/ev-node/types"
	pb "github.com/evstack/ev-node/types/pb/evnode/v1"

	"verif/harness/world"
)

// cworld is the shared surrounding of all C12 checks: a real full-node Manager (for the real
// DA blob decoders), a scratch directory for cache files.
type cworld struct {
	ctx      context.Context
	dir      string
	node     *world.Node
	propAddr []byte
	mu       sync.Mutex
	blobMu   sync.Mutex
	seq      int
}

var (
	theWorld     *cworld
	theWorldOnce sync.Once
	theWorldErr  error
)

func getWorld() (*cworld, error) {
	theWorldOnce.Do(func() {
		gob.Register(&types.SignedHeader{}) // as Manager.LoadCache does
		gob.Register(&types.Data{})
		// cache files are real files; the disk of the shared machine costs ~10-20 ms per
		// save/load, the memory file system < 1 ms, so prefer it when it is there
		var dir string
		var err error
		for _, base := range []string{"/dev/shm", os.Getenv("VERIF_WORKDIR"), os.TempDir()} {
			if base == "" {
				continue
			}
			if dir, err = os.MkdirTemp(base, "verif-c12-"); err == nil {
				break
			}
		}
		if err != nil {
			theWorldErr = err
			return
		}
		w := &cworld{ctx: context.Background(), dir: dir}
		_, pub := keyFor(proposerLabel, "ed25519")
		w.propAddr = types.KeyAddress(pub)
		o := world.NodeOpts{ChainID: "c12-chain", InitialHeight: 1, GenesisTime: time.Unix(1_700_000_000, 0).UTC(),
			BlockTime: time.Second, DABlockTime: 2 * time.Second, LazyInterval: 10 * time.Second, RootDir: dir}
		exec := world.NewExecDbl("c12")
		seq := world.NewSeqDbl(func() time.Time { return o.GenesisTime })
		n, err := world.NewNode(w.ctx, o, world.NewCrashDS(), nil, pub, exec, seq, world.NewDADbl(0))
		if err != nil {
			theWorldErr = err
			return
		}
		w.node = n
		theWorld = w
	})
	return theWorld, theWorldErr
}

func TestMain(m *testing.M) {
	code := m.Run()
	if theWorld != nil {
		_ = os.RemoveAll(theWorld.dir)
	}
	os.Exit(code)
}

func mustWorld(t testing.TB) *cworld {
	w, err := getWorld()
	if err != nil {
		t.Fatalf("cannot build the C12 world: %v", err)
	}
	return w
}

func (w *cworld) caseDir() string {
	w.mu.Lock()
	w.seq++
	n := w.seq
	w.mu.Unlock()
	return filepath.Join(w.dir, fmt.Sprintf("case-%d-%d", os.Getpid(), n))
}

func fail(kind, path, what, format string, args ...any) *world.Verdict {
	v := world.Fail("C12/"+kind+"/"+path+"/"+what, "%s via %s: %s", kind, path, fmt.Sprintf(format, args...))
	return &v
}

// drain empties the manager's event channels (nothing consumes them in this world).
func (w *cworld) drain() {
	for {
		select {
		case <-w.node.M.VerifHeaderInCh():
		case <-w.node.M.VerifDataInCh():
		default:
			return
		}
	}
}

// blobResult is what the real retriever did with one DA blob.
type blobResult struct {
	hev *block.NewHeaderEvent
	dev *block.NewDataEvent
	pan any
}

// handleBlob passes one blob through the real retriever decoders (handlePotentialHeader, then
// handlePotentialData) and collects the event they emit, or the panic they raise.
func (w *cworld) handleBlob(blob []byte, daHeight uint64) (r blobResult) {
	w.blobMu.Lock()
	defer w.blobMu.Unlock()
	defer func() {
		if p := recover(); p != nil {
			r.pan = p
		}
	}()
	w.drain()
	w.node.M.VerifHandleBlob(w.ctx, blob, daHeight)
	select {
	case e := <-w.node.M.VerifHeaderInCh():
		r.hev = &e
	case e := <-w.node.M.VerifDataInCh():
		r.dev = &e
	default:
	}
	return r
}

// blobPanic classifies a retriever panic by root cause.
func blobPanic(blob []byte, pan any) *world.Verdict {
	sig := "C12/da-retriever/panic"
	what := "a DA blob"
	var sd types.SignedData
	if err := sd.UnmarshalBinary(blob); err == nil && sd.Metadata == nil && len(sd.Txs) > 0 {
		sig = "C12/da-retriever/panic-signed-data-without-metadata"
		what = "a signed-data blob that carries txs but no metadata"
	}
	v := world.Fail(sig, "the DA retriever panicked on %s (%x): %v", what, clip(blob), pan)
	return &v
}

// p2pRoundTrip is the codec as go-header's exchange and store use it: only the interface.
func p2pRoundTrip[H goheader.Header[H]](h H) (H, error) {
	var empty H
	b, err := h.MarshalBinary()
	if err != nil {
		return empty, err
	}
	out := empty.New()
	if err := out.UnmarshalBinary(b); err != nil {
		return empty, err
	}
	return out, nil
}

func newStore() (storepkg.Store, *world.CrashDS) {
	raw := world.NewCrashDS()
	return world.StoreOn(raw), raw
}

var pairedData = &types.Data{Metadata: &types.Metadata{ChainID: "c12-chain", Height: 1, Time: 1}, Txs: types.Txs{types.Tx("paired")}}

func pairedHeader(height uint64) *types.SignedHeader {
	return &types.SignedHeader{Header: types.Header{BaseHeader: types.BaseHeader{Height: height, Time: 5, ChainID: "c12-chain"},
		ProposerAddress: []byte("p")}, Signature: []byte("sig")}
}

// ---------------------------------------------------------------------------------------------
// the value check

func runValue(w *cworld, sc ValueScenario) (v world.Verdict) {
	if err := sc.valid(); err != nil {
		return world.Verdict{Excluded: true}
	}
	defer func() {
		if r := recover(); r != nil {
			v = world.Fail("C12/"+sc.Kind+"/panic", "round-trip of a %s value panicked: %v", sc.Kind, r)
		}
	}()
	nt := countNT(sc)
	labels := append(nt.labels(), "kind:"+sc.Kind)
	var res *world.Verdict
	var extra []string
	var obs []string
	switch sc.Kind {
	case kHeader:
		res, extra = w.valueHeader(sc.Header)
	case kSignedHeader:
		res, extra = w.valueSignedHeader(sc.SignedHeader)
	case kData:
		res, extra, obs = w.valueData(sc.Data)
	case kSignedData:
		res, extra = w.valueSignedData(sc.SignedData)
	case kMetadata:
		res, extra = w.valueMetadata(sc.Metadata)
	case kState:
		res, extra = w.valueState(sc.State)
	case kCursor:
		res, extra = w.valueCursor(sc.Cursor)
	}
	if res != nil {
		return *res
	}
	labels = append(labels, extra...)
	unenc := false
	for _, l := range extra {
		if l == "unencodable-invalid-utf8" {
			unenc = true
		}
	}
	out := world.OK(nt.nontrivial() && !unenc, labels...)
	out.Observations = obs
	return out
}

// --- header

func (w *cworld) valueHeader(s *HeaderSpec) (*world.Verdict, []string) {
	h := s.Build()
	ref, encodable := refHeader(&h)
	b, err := h.MarshalBinary()
	if !encodable {
		if err == nil {
			return fail(kHeader, "binary", "invalid-utf8-encoded", "chain id %q is not valid UTF-8 yet MarshalBinary succeeded", s.ChainID), nil
		}
		return nil, []string{"unencodable-invalid-utf8"}
	}
	if err != nil {
		return fail(kHeader, "binary", "encode-error", "MarshalBinary: %v", err), nil
	}
	if !bytes.Equal(b, ref) {
		return fail(kHeader, "binary", "bytes-changed", "encoding differs from today's wire form:\n got %x\nwant %x", b, ref), nil
	}
	hash := h.Hash()
	if !bytes.Equal(hash, sha(ref)) {
		return fail(kHeader, "hash", "hash-changed", "Hash()=%x, today's value sha256(encoding)=%x", []byte(hash), sha(ref)), nil
	}
	check := func(path string, g *types.Header) *world.Verdict {
		if d := diffHeader(&h, g); d != "" {
			return fail(kHeader, path, "field:"+d, "decoded value differs in %s", d)
		}
		if !bytes.Equal(g.Hash(), hash) {
			return fail(kHeader, path, "hash-differs", "hash %x became %x", []byte(hash), []byte(g.Hash()))
		}
		return nil
	}
	var g1 types.Header
	if err := g1.UnmarshalBinary(b); err != nil {
		return fail(kHeader, "binary", "decode-error", "UnmarshalBinary of own encoding: %v", err), nil
	}
	if r := check("binary", &g1); r != nil {
		return r, nil
	}
	var g2 types.Header
	if err := g2.FromProto(h.ToProto()); err != nil {
		return fail(kHeader, "proto", "decode-error", "FromProto(ToProto): %v", err), nil
	}
	if r := check("proto", &g2); r != nil {
		return r, nil
	}
	g3, err := p2pRoundTrip[*types.Header](&h)
	if err != nil {
		return fail(kHeader, "p2p", "decode-error", "%v", err), nil
	}
	if r := check("p2p", g3); r != nil {
		return r, nil
	}
	if g3.Height() != h.Height() || g3.ChainID() != h.ChainID() || !g3.Time().Equal(h.Time()) || !bytes.Equal(g3.LastHeader(), h.LastHeader()) {
		return fail(kHeader, "p2p", "accessor-differs", "go-header accessors differ after the round trip"), nil
	}
	return nil, nil
}

// --- signed header

func sigVerifies(s types.Signer, payload []byte, sig []byte) bool {
	if s.PubKey == nil {
		return false
	}
	ok, err := s.PubKey.Verify(payload, sig)
	return err == nil && ok
}

func (w *cworld) valueSignedHeader(s *SignedHeaderSpec) (*world.Verdict, []string) {
	sh := s.Build()
	var labels []string
	if sh.Signer.PubKey == nil && sh.Signer.Address != nil {
		labels = append(labels, "signer-address-without-key(lossy,documented)")
	}
	ref, encodable := refSignedHeader(sh)
	b, err := sh.MarshalBinary()
	if !encodable {
		if err == nil {
			return fail(kSignedHeader, "binary", "invalid-utf8-encoded", "invalid UTF-8 chain id yet MarshalBinary succeeded"), nil
		}
		st, _ := newStore()
		if err := st.SaveBlockData(w.ctx, sh, pairedData, &sh.Signature); err == nil {
			return fail(kSignedHeader, "store", "unencodable-saved", "SaveBlockData accepted a header that cannot be encoded"), nil
		}
		return nil, append(labels, "unencodable-invalid-utf8")
	}
	if err != nil {
		return fail(kSignedHeader, "binary", "encode-error", "MarshalBinary: %v", err), nil
	}
	if !bytes.Equal(b, ref) {
		return fail(kSignedHeader, "binary", "bytes-changed", "encoding differs from today's wire form:\n got %x\nwant %x", b, ref), nil
	}
	hash := sh.Hash()
	hb, _ := refHeader(&sh.Header)
	if !bytes.Equal(hash, sha(hb)) {
		return fail(kSignedHeader, "hash", "hash-changed", "Hash()=%x, today's value %x", []byte(hash), sha(hb)), nil
	}
	payload, _ := sh.Header.MarshalBinary()
	preSig := sigVerifies(sh.Signer, payload, sh.Signature)
	preValid := sh.Signer.PubKey != nil && sh.ValidateBasic() == nil
	if preSig {
		labels = append(labels, "signature-valid")
	}
	if preValid {
		labels = append(labels, "validate-basic-ok")
	}
	check := func(path string, g *types.SignedHeader) *world.Verdict {
		if d := diffSignedHeader(sh, g); d != "" {
			return fail(kSignedHeader, path, "field:"+d, "decoded value differs in %s", d)
		}
		if !bytes.Equal(g.Hash(), hash) {
			return fail(kSignedHeader, path, "hash-differs", "hash %x became %x", []byte(hash), []byte(g.Hash()))
		}
		gp, err := g.Header.MarshalBinary()
		if err != nil {
			return fail(kSignedHeader, path, "reencode-error", "%v", err)
		}
		if sigVerifies(g.Signer, gp, g.Signature) != preSig {
			return fail(kSignedHeader, path, "signature-validity-changed", "signature verified=%v before, %v after", preSig, !preSig)
		}
		if preValid && g.ValidateBasic() != nil {
			return fail(kSignedHeader, path, "validate-basic-fails", "ValidateBasic passed before the round trip and fails after: %v", g.ValidateBasic())
		}
		return nil
	}
	// binary
	g1 := new(types.SignedHeader)
	if err := g1.UnmarshalBinary(b); err != nil {
		return fail(kSignedHeader, "binary", "decode-error", "UnmarshalBinary of own encoding: %v", err), nil
	}
	if r := check("binary", g1); r != nil {
		return r, nil
	}
	// proto
	p, err := sh.ToProto()
	if err != nil {
		return fail(kSignedHeader, "proto", "encode-error", "%v", err), nil
	}
	g2 := new(types.SignedHeader)
	if err := g2.FromProto(p); err != nil {
		return fail(kSignedHeader, "proto", "decode-error", "%v", err), nil
	}
	if r := check("proto", g2); r != nil {
		return r, nil
	}
	// p2p
	g3, err := p2pRoundTrip[*types.SignedHeader](sh)
	if err != nil {
		return fail(kSignedHeader, "p2p", "decode-error", "%v", err), nil
	}
	if r := check("p2p", g3); r != nil {
		return r, nil
	}
	// block store
	st, _ := newStore()
	if err := st.SaveBlockData(w.ctx, sh, pairedData, &sh.Signature); err != nil {
		return fail(kSignedHeader, "store", "save-error", "%v", err), nil
	}
	height := sh.Height()
	g4, d4, err := st.GetBlockData(w.ctx, height)
	if err != nil {
		return fail(kSignedHeader, "store", "load-error", "GetBlockData(%d): %v", height, err), nil
	}
	if r := check("store", g4); r != nil {
		return r, nil
	}
	if d := diffData(pairedData, d4); d != "" {
		return fail(kSignedHeader, "store", "paired-data:"+d, "data saved with the header differs in %s", d), nil
	}
	g5, err := st.GetHeader(w.ctx, height)
	if err != nil {
		return fail(kSignedHeader, "store", "load-error", "GetHeader(%d): %v", height, err), nil
	}
	if r := check("store-getheader", g5); r != nil {
		return r, nil
	}
	g6, _, err := st.GetBlockByHash(w.ctx, hash)
	if err != nil {
		return fail(kSignedHeader, "store", "load-by-hash-error", "GetBlockByHash: %v", err), nil
	}
	if r := check("store-byhash", g6); r != nil {
		return r, nil
	}
	sg, err := st.GetSignature(w.ctx, height)
	if err != nil || !eqB(*sg, sh.Signature) {
		return fail(kSignedHeader, "store", "signature-differs", "GetSignature(%d) = %v, %v", height, sg, err), nil
	}
	sg2, err := st.GetSignatureByHash(w.ctx, hash)
	if err != nil || !eqB(*sg2, sh.Signature) {
		return fail(kSignedHeader, "store", "signature-differs", "GetSignatureByHash = %v, %v", sg2, err), nil
	}
	// DA blob: what submitHeadersToDA puts on the DA layer, what handlePotentialHeader reads
	pbh, err := sh.ToProto()
	if err != nil {
		return fail(kSignedHeader, "da-blob", "encode-error", "%v", err), nil
	}
	blob, err := proto.Marshal(pbh)
	if err != nil {
		return fail(kSignedHeader, "da-blob", "encode-error", "%v", err), nil
	}
	var back pb.SignedHeader
	if err := proto.Unmarshal(blob, &back); err != nil {
		return fail(kSignedHeader, "da-blob", "decode-error", "%v", err), nil
	}
	g7 := new(types.SignedHeader)
	if err := g7.FromProto(&back); err != nil {
		return fail(kSignedHeader, "da-blob", "decode-error", "%v", err), nil
	}
	if r := check("da-blob", g7); r != nil {
		return r, nil
	}
	if preValid && bytes.Equal(sh.ProposerAddress, w.propAddr) && sh.Signer.PubKey.Equals(w.node.PubKey) {
		labels = append(labels, "da-blob-through-real-retriever")
		br := w.handleBlob(blob, 7)
		switch {
		case br.pan != nil:
			return blobPanic(blob, br.pan), nil
		case br.hev != nil:
			if r := check("da-retriever", br.hev.Header); r != nil {
				return r, nil
			}
			if br.hev.DAHeight != 7 {
				return fail(kSignedHeader, "da-retriever", "da-height", "event carries DA height %d, blob was at 7", br.hev.DAHeight), nil
			}
		default:
			return fail(kSignedHeader, "da-retriever", "not-delivered", "a valid proposer-signed header blob produced no header event"), nil
		}
	}
	// cache file
	hs := hash.String()
	c := cache.NewCache[types.SignedHeader]()
	c.SetItem(height, sh)
	c.SetSeen(hs)
	c.SetDAIncluded(hs, sh.BaseHeader.Time)
	dir := w.caseDir()
	defer os.RemoveAll(dir)
	if err := c.SaveToDisk(dir); err != nil {
		return fail(kSignedHeader, "cache-file", "save-error", "%v", err), nil
	}
	c2 := cache.NewCache[types.SignedHeader]()
	if err := c2.LoadFromDisk(dir); err != nil {
		return fail(kSignedHeader, "cache-file", "load-error", "%v", err), nil
	}
	g8 := c2.GetItem(height)
	if g8 == nil {
		return fail(kSignedHeader, "cache-file", "item-lost", "item at height %d is gone after save/load", height), nil
	}
	if r := check("cache-file", g8); r != nil {
		return r, nil
	}
	if dh, ok := c2.GetDAIncludedHeight(hs); !c2.IsSeen(hs) || !ok || dh != sh.BaseHeader.Time {
		return fail(kSignedHeader, "cache-file", "marks-lost", "seen/DA-included marks differ after save/load"), nil
	}
	return nil, labels
}

// --- data

func (w *cworld) valueData(s *DataSpec) (*world.Verdict, []string, []string) {
	d := s.Build()
	ref, encodable := refData(d)
	b, err := d.MarshalBinary()
	if !encodable {
		if err == nil {
			return fail(kData, "binary", "invalid-utf8-encoded", "invalid UTF-8 chain id yet MarshalBinary succeeded"), nil, nil
		}
		st, _ := newStore()
		if err := st.SaveBlockData(w.ctx, pairedHeader(1), d, &types.Signature{}); err == nil {
			return fail(kData, "store", "unencodable-saved", "SaveBlockData accepted data that cannot be encoded"), nil, nil
		}
		return nil, []string{"unencodable-invalid-utf8"}, []string{"Data.Hash() of unencodable data is the hash of a partial encoding"}
	}
	if err != nil {
		return fail(kData, "binary", "encode-error", "MarshalBinary: %v", err), nil, nil
	}
	if !bytes.Equal(b, ref) {
		return fail(kData, "binary", "bytes-changed", "encoding differs from today's wire form:\n got %x\nwant %x", clip(b), clip(ref)), nil, nil
	}
	hash := d.Hash()
	if !bytes.Equal(hash, leafSha(ref)) {
		return fail(kData, "hash", "hash-changed", "Hash()=%x, today's value sha256(0x00||encoding)=%x", []byte(hash), leafSha(ref)), nil, nil
	}
	com := d.DACommitment()
	if !bytes.Equal(com, refCommitment(d.Txs)) {
		return fail(kData, "commitment", "commitment-changed", "DACommitment()=%x, today's value %x", []byte(com), refCommitment(d.Txs)), nil, nil
	}
	if d.Size() != len(ref) {
		return fail(kData, "size", "size-differs", "Size()=%d, encoding has %d bytes", d.Size(), len(ref)), nil, nil
	}
	check := func(path string, g *types.Data) *world.Verdict {
		if df := diffData(d, g); df != "" {
			return fail(kData, path, "field:"+df, "decoded value differs in %s", df)
		}
		if !bytes.Equal(g.Hash(), hash) {
			return fail(kData, path, "hash-differs", "hash %x became %x", []byte(hash), []byte(g.Hash()))
		}
		if !bytes.Equal(g.DACommitment(), com) {
			return fail(kData, path, "commitment-differs", "commitment %x became %x", []byte(com), []byte(g.DACommitment()))
		}
		return nil
	}
	g1 := new(types.Data)
	if err := g1.UnmarshalBinary(b); err != nil {
		return fail(kData, "binary", "decode-error", "UnmarshalBinary of own encoding: %v", err), nil, nil
	}
	if r := check("binary", g1); r != nil {
		return r, nil, nil
	}
	g2 := new(types.Data)
	if err := g2.FromProto(d.ToProto()); err != nil {
		return fail(kData, "proto", "decode-error", "%v", err), nil, nil
	}
	if r := check("proto", g2); r != nil {
		return r, nil, nil
	}
	g3, err := p2pRoundTrip[*types.Data](d)
	if err != nil {
		return fail(kData, "p2p", "decode-error", "%v", err), nil, nil
	}
	if r := check("p2p", g3); r != nil {
		return r, nil, nil
	}
	if d.Metadata != nil {
		if g3.Height() != d.Height() || g3.ChainID() != d.ChainID() || !g3.Time().Equal(d.Time()) || !bytes.Equal(g3.LastHeader(), d.LastHeader()) {
			return fail(kData, "p2p", "accessor-differs", "go-header accessors differ after the round trip"), nil, nil
		}
	}
	// block store
	st, _ := newStore()
	ph := pairedHeader(3)
	if err := st.SaveBlockData(w.ctx, ph, d, &ph.Signature); err != nil {
		return fail(kData, "store", "save-error", "%v", err), nil, nil
	}
	h4, g4, err := st.GetBlockData(w.ctx, 3)
	if err != nil {
		return fail(kData, "store", "load-error", "GetBlockData: %v", err), nil, nil
	}
	if r := check("store", g4); r != nil {
		return r, nil, nil
	}
	if df := diffSignedHeader(ph, h4); df != "" {
		return fail(kData, "store", "paired-header:"+df, "header saved with the data differs in %s", df), nil, nil
	}
	_, g5, err := st.GetBlockByHash(w.ctx, ph.Hash())
	if err != nil {
		return fail(kData, "store", "load-by-hash-error", "%v", err), nil, nil
	}
	if r := check("store-byhash", g5); r != nil {
		return r, nil, nil
	}
	// cache file
	c := cache.NewCache[types.Data]()
	c.SetItem(9, d)
	c.SetSeen(com.String())
	c.SetDAIncluded(com.String(), 11)
	dir := w.caseDir()
	defer os.RemoveAll(dir)
	if err := c.SaveToDisk(dir); err != nil {
		return fail(kData, "cache-file", "save-error", "%v", err), nil, nil
	}
	c2 := cache.NewCache[types.Data]()
	if err := c2.LoadFromDisk(dir); err != nil {
		return fail(kData, "cache-file", "load-error", "%v", err), nil, nil
	}
	g6 := c2.GetItem(9)
	if g6 == nil {
		return fail(kData, "cache-file", "item-lost", "item is gone after save/load"), nil, nil
	}
	if r := check("cache-file", g6); r != nil {
		return r, nil, nil
	}
	if dh, ok := c2.GetDAIncludedHeight(com.String()); !c2.IsSeen(com.String()) || !ok || dh != 11 {
		return fail(kData, "cache-file", "marks-lost", "seen/DA-included marks differ after save/load"), nil, nil
	}
	var labels []string
	if len(d.Txs) == 0 {
		labels = append(labels, "no-txs")
		if !bytes.Equal(com, block.VerifDataHashForEmptyTxs()) {
			return fail(kData, "commitment", "empty-constant", "commitment of an empty tx list %x is not the empty-block data hash constant %x", []byte(com), block.VerifDataHashForEmptyTxs()), nil, nil
		}
	}
	if len(d.Txs) >= 100 {
		labels = append(labels, "txs>=100")
	}
	return nil, labels, nil
}

func clip(b []byte) []byte {
	if len(b) > 200 {
		return b[:200]
	}
	return b
}

// --- signed data

func (w *cworld) valueSignedData(s *SignedDataSpec) (*world.Verdict, []string) {
	sd := s.Build()
	var labels []string
	if sd.Signer.PubKey == nil && sd.Signer.Address != nil {
		labels = append(labels, "signer-address-without-key(lossy,documented)")
	}
	ref, encodable := refSignedData(sd)
	b, err := sd.MarshalBinary()
	if !encodable {
		if err == nil {
			return fail(kSignedData, "binary", "invalid-utf8-encoded", "invalid UTF-8 chain id yet MarshalBinary succeeded"), nil
		}
		return nil, append(labels, "unencodable-invalid-utf8")
	}
	if err != nil {
		return fail(kSignedData, "binary", "encode-error", "MarshalBinary: %v", err), nil
	}
	if !bytes.Equal(b, ref) {
		return fail(kSignedData, "binary", "bytes-changed", "encoding differs from today's wire form:\n got %x\nwant %x", clip(b), clip(ref)), nil
	}
	hash := sd.Hash()
	com := sd.DACommitment()
	db, _ := refData(&sd.Data)
	if !bytes.Equal(hash, leafSha(db)) || !bytes.Equal(com, refCommitment(sd.Txs)) {
		return fail(kSignedData, "hash", "hash-changed", "Hash()/DACommitment() differ from today's values"), nil
	}
	payload, _ := sd.Data.MarshalBinary()
	preSig := sigVerifies(sd.Signer, payload, sd.Signature)
	if preSig {
		labels = append(labels, "signature-valid")
	}
	check := func(path string, g *types.SignedData) *world.Verdict {
		if d := diffSignedData(sd, g); d != "" {
			return fail(kSignedData, path, "field:"+d, "decoded value differs in %s", d)
		}
		if !bytes.Equal(g.Hash(), hash) {
			return fail(kSignedData, path, "hash-differs", "hash %x became %x", []byte(hash), []byte(g.Hash()))
		}
		if !bytes.Equal(g.DACommitment(), com) {
			return fail(kSignedData, path, "commitment-differs", "commitment %x became %x", []byte(com), []byte(g.DACommitment()))
		}
		gp, err := g.Data.MarshalBinary()
		if err != nil {
			return fail(kSignedData, path, "reencode-error", "%v", err)
		}
		if sigVerifies(g.Signer, gp, g.Signature) != preSig {
			return fail(kSignedData, path, "signature-validity-changed", "signature verified=%v before, %v after", preSig, !preSig)
		}
		return nil
	}
	g1 := new(types.SignedData)
	if err := g1.UnmarshalBinary(b); err != nil {
		return fail(kSignedData, "binary", "decode-error", "UnmarshalBinary of own encoding: %v", err), nil
	}
	if r := check("binary", g1); r != nil {
		return r, nil
	}
	p, err := sd.ToProto()
	if err != nil {
		return fail(kSignedData, "proto", "encode-error", "%v", err), nil
	}
	g2 := new(types.SignedData)
	if err := g2.FromProto(p); err != nil {
		return fail(kSignedData, "proto", "decode-error", "%v", err), nil
	}
	if r := check("proto", g2); r != nil {
		return r, nil
	}
	// DA blob: submitDataToDA marshals with MarshalBinary, handlePotentialData reads with UnmarshalBinary
	if preSig && len(sd.Txs) > 0 && bytes.Equal(sd.Signer.Address, w.propAddr) && sd.Signer.PubKey.Equals(w.node.PubKey) {
		labels = append(labels, "da-blob-through-real-retriever")
		br := w.handleBlob(b, 9)
		switch {
		case br.pan != nil:
			return blobPanic(b, br.pan), nil
		case br.dev != nil:
			ev := br.dev
			if d := diffData(&sd.Data, ev.Data); d != "" {
				return fail(kSignedData, "da-retriever", "field:"+d, "data event differs in %s", d), nil
			}
			if !bytes.Equal(ev.Data.DACommitment(), com) || !bytes.Equal(ev.Data.Hash(), hash) {
				return fail(kSignedData, "da-retriever", "hash-differs", "hash or commitment of the data event differs"), nil
			}
			if ev.DAHeight != 9 {
				return fail(kSignedData, "da-retriever", "da-height", "event carries DA height %d, blob was at 9", ev.DAHeight), nil
			}
		default:
			return fail(kSignedData, "da-retriever", "not-delivered", "a valid proposer-signed data blob produced no data event"), nil
		}
	}
	return nil, labels
}

// --- metadata

func (w *cworld) valueMetadata(s *MetaSpec) (*world.Verdict, []string) {
	m := s.Build()
	ref, encodable := refMetadata(m)
	b, err := m.MarshalBinary()
	if !encodable {
		if err == nil {
			return fail(kMetadata, "binary", "invalid-utf8-encoded", "invalid UTF-8 chain id yet MarshalBinary succeeded"), nil
		}
		return nil, []string{"unencodable-invalid-utf8"}
	}
	if err != nil {
		return fail(kMetadata, "binary", "encode-error", "MarshalBinary: %v", err), nil
	}
	if !bytes.Equal(b, ref) {
		return fail(kMetadata, "binary", "bytes-changed", "encoding differs from today's wire form:\n got %x\nwant %x", b, ref), nil
	}
	g1 := new(types.Metadata)
	if err := g1.UnmarshalBinary(b); err != nil {
		return fail(kMetadata, "binary", "decode-error", "%v", err), nil
	}
	if d := diffMeta(m, g1); d != "" {
		return fail(kMetadata, "binary", "field:"+d, "decoded value differs in %s", d), nil
	}
	g2 := new(types.Metadata)
	if err := g2.FromProto(m.ToProto()); err != nil {
		return fail(kMetadata, "proto", "decode-error", "%v", err), nil
	}
	if d := diffMeta(m, g2); d != "" {
		return fail(kMetadata, "proto", "field:"+d, "decoded value differs in %s", d), nil
	}
	return nil, nil
}

// --- state

func (w *cworld) valueState(s *StateSpec) (*world.Verdict, []string) {
	st := s.Build()
	labels := []string{"time:" + s.TimeMode}
	if s.TimeMode != "zero" && st.LastBlockTime.Nanosecond() != 0 {
		labels = append(labels, "sub-second-time")
	}
	ref, encodable := refState(&st)
	store, raw := newStore()
	p, err := st.ToProto()
	if err != nil {
		return fail(kState, "proto", "encode-error", "%v", err), nil
	}
	b, err := proto.Marshal(p)
	if !encodable {
		if err == nil {
			return fail(kState, "binary", "invalid-utf8-encoded", "invalid UTF-8 chain id yet proto.Marshal succeeded"), nil
		}
		if err := store.UpdateState(w.ctx, st); err == nil {
			return fail(kState, "store", "unencodable-saved", "UpdateState accepted a state that cannot be encoded"), nil
		}
		return nil, append(labels, "unencodable-invalid-utf8")
	}
	if err != nil {
		return fail(kState, "binary", "encode-error", "%v", err), nil
	}
	if !bytes.Equal(b, ref) {
		return fail(kState, "binary", "bytes-changed", "encoding differs from today's wire form:\n got %x\nwant %x", b, ref), nil
	}
	var g1 types.State
	if err := g1.FromProto(p); err != nil {
		return fail(kState, "proto", "decode-error", "%v", err), nil
	}
	if d := diffState(&st, &g1); d != "" {
		return fail(kState, "proto", "field:"+d, "decoded value differs in %s", d), nil
	}
	var back pb.State
	if err := proto.Unmarshal(b, &back); err != nil {
		return fail(kState, "binary", "decode-error", "%v", err), nil
	}
	var g2 types.State
	if err := g2.FromProto(&back); err != nil {
		return fail(kState, "binary", "decode-error", "%v", err), nil
	}
	if d := diffState(&st, &g2); d != "" {
		return fail(kState, "binary", "field:"+d, "decoded value differs in %s", d), nil
	}
	if err := store.UpdateState(w.ctx, st); err != nil {
		return fail(kState, "store", "save-error", "%v", err), nil
	}
	g3, err := store.GetState(w.ctx)
	if err != nil {
		return fail(kState, "store", "load-error", "%v", err), nil
	}
	if d := diffState(&st, &g3); d != "" {
		return fail(kState, "store", "field:"+d, "state read back from the store differs in %s", d), nil
	}
	// the stored bytes are the wire form
	for k, v := range raw.Image() {
		if !bytes.Equal(v, ref) {
			return fail(kState, "store", "bytes-changed", "bytes stored under %s differ from today's wire form", k), nil
		}
	}
	return nil, labels
}

// --- batch cursor list

func (w *cworld) valueCursor(s *CursorSpec) (*world.Verdict, []string) {
	l := s.Build()
	ref := refCursor(l)
	b := block.VerifBatchDataToBytes(l)
	if !bytes.Equal(b, ref) {
		return fail(kCursor, "codec", "bytes-changed", "encoding differs from today's form (4-byte little-endian length prefixes):\n got %x\nwant %x", clip(b), clip(ref)), nil
	}
	g, err := block.VerifBytesToBatchData(b)
	if err != nil {
		return fail(kCursor, "codec", "decode-error", "%v", err), nil
	}
	if d := diffCursor(l, g); d != "" {
		return fail(kCursor, "codec", "field:"+d, "decoded list differs (%s): %d entries in, %d out", d, len(l), len(g)), nil
	}
	// the path it travels: store metadata under LastBatchDataKey
	st, _ := newStore()
	if err := st.SetMetadata(w.ctx, storepkg.LastBatchDataKey, b); err != nil {
		return fail(kCursor, "store", "save-error", "%v", err), nil
	}
	rb, err := st.GetMetadata(w.ctx, storepkg.LastBatchDataKey)
	if err != nil {
		return fail(kCursor, "store", "load-error", "%v", err), nil
	}
	g2, err := block.VerifBytesToBatchData(rb)
	if err != nil {
		return fail(kCursor, "store", "decode-error", "%v", err), nil
	}
	if d := diffCursor(l, g2); d != "" {
		return fail(kCursor, "store", "field:"+d, "list read back from the store differs (%s)", d), nil
	}
	var labels []string
	for _, e := range l {
		if len(e) > 65535 {
			labels = append(labels, "entry>64KiB")
			break
		}
	}
	return nil, labels
}

// ---------------------------------------------------------------------------------------------

func TestC12Values(t *testing.T) {
	w := mustWorld(t)
	for _, k := range valueKinds {
		k := k
		t.Run(k, func(t *testing.T) {
			world.Run(t, "C12", "value-"+k, world.Scale(2000, 20000), genValue(k), func(sc ValueScenario) world.Verdict { return runValue(w, sc) })
		})
	}
}
