package c12

import (
	"bytes"
	"context"
	"encoding/gob"
	"encoding/json"
	"fmt"
	"os"
	"path/filepath"
	"sort"
	"sync"
	"testing"

	ds "github.com/ipfs/go-datastore"
	"google.golang.org/protobuf/proto"
	"pgregory.net/rapid"

	"github.com/evstack/ev-node/block"
	"github.com/evstack/ev-node/pkg/cache"
	storepkg "github.com/evstack/ev-node/pkg/store"
	"github.com/evstack/ev-node/types"
	pb "github.com/evstack/ev-node/types/pb/evnode/v1"

	"verif/harness/world"
)

// BytesScenario offers one byte string to one decoder.
type BytesScenario struct {
	Decoder string `json:"decoder"`
	Bytes   []byte `json:"bytes"`
}

const (
	dHeader       = "header"        // Header.UnmarshalBinary
	dSignedHeader = "signed_header" // SignedHeader.UnmarshalBinary (P2P, cache file payload)
	dData         = "data"          // Data.UnmarshalBinary
	dSignedData   = "signed_data"   // SignedData.UnmarshalBinary (DA data blob)
	dMetadata     = "metadata"      // Metadata.UnmarshalBinary
	dState        = "state"         // proto.Unmarshal + State.FromProto
	dCursor       = "cursor"        // bytesToBatchData
	dStoreHeader  = "store_header"  // bytes under the header key -> Store.GetHeader
	dStoreData    = "store_data"    // bytes under the data key -> Store.GetBlockData
	dStoreState   = "store_state"   // bytes under the state key -> Store.GetState
	dDABlob       = "da_blob"       // the real retriever: handlePotentialHeader / handlePotentialData
	dCacheHeader  = "cache_header"  // bytes as items_by_height.gob of the header cache -> LoadFromDisk
	dCacheData    = "cache_data"    // bytes as items_by_height.gob of the data cache -> LoadFromDisk
)

var byteDecoders = []string{dHeader, dSignedHeader, dData, dSignedData, dMetadata, dState, dCursor,
	dStoreHeader, dStoreData, dStoreState, dDABlob, dCacheHeader, dCacheData}

// kindOf says which value kind's encodings are the "valid" inputs of a decoder.
func kindOf(dec string) string {
	switch dec {
	case dHeader:
		return kHeader
	case dSignedHeader, dStoreHeader, dCacheHeader:
		return kSignedHeader
	case dData, dStoreData, dCacheData:
		return kData
	case dSignedData:
		return kSignedData
	case dMetadata:
		return kMetadata
	case dState, dStoreState:
		return kState
	case dCursor:
		return kCursor
	}
	return ""
}

// ---------------------------------------------------------------------------------------------
// generic idempotence oracle: accepted x must survive re-encoding and decoding unchanged

type codec[T any] struct {
	name  string
	dec   func([]byte) (T, error)
	again func(T) (T, error) // encode x the way this path does and decode it again
	diff  func(a, b T) string
	hash  func(T) []byte
}

func idem[T any](c codec[T], b []byte) (verdict *world.Verdict, accepted bool) {
	x, err := c.dec(b)
	if err != nil {
		return nil, false
	}
	y, err := c.again(x)
	if err != nil {
		v := world.Fail("C12/bytes/"+c.name+"/accepted-value-does-not-reencode", "%s decoder accepted %x but the decoded value does not survive re-encoding: %v", c.name, clip(b), err)
		return &v, true
	}
	if d := c.diff(x, y); d != "" {
		v := world.Fail("C12/bytes/"+c.name+"/not-idempotent:"+d, "%s decoder accepted %x; decode(encode(x)) differs from x in %s", c.name, clip(b), d)
		return &v, true
	}
	if c.hash != nil && !bytes.Equal(c.hash(x), c.hash(y)) {
		v := world.Fail("C12/bytes/"+c.name+"/hash-not-idempotent", "%s decoder accepted %x; hash changes over re-encoding", c.name, clip(b))
		return &v, true
	}
	z, err := c.again(y)
	if err != nil || c.diff(y, z) != "" {
		v := world.Fail("C12/bytes/"+c.name+"/second-roundtrip-differs", "%s: a second re-encoding changes the value again (%v)", c.name, err)
		return &v, true
	}
	return nil, true
}

func hdrHash(h *types.Header) []byte      { return h.Hash() }
func shHash(h *types.SignedHeader) []byte { return h.Hash() }
func dataHash(d *types.Data) []byte {
	return append(append([]byte{}, d.Hash()...), d.DACommitment()...)
}
func sdHash(d *types.SignedData) []byte {
	return append(append([]byte{}, d.Hash()...), d.DACommitment()...)
}
func diffHdrP(a, b *types.Header) string  { return diffHeader(a, b) }
func diffStateP(a, b *types.State) string { return diffState(a, b) }
func diffCursorP(a, b [][]byte) string    { return diffCursor(a, b) }
func decState(b []byte) (*types.State, error) {
	var p pb.State
	if err := proto.Unmarshal(b, &p); err != nil {
		return nil, err
	}
	s := new(types.State)
	if err := s.FromProto(&p); err != nil {
		return nil, err
	}
	return s, nil
}
func encState(s *types.State) ([]byte, error) {
	p, err := s.ToProto()
	if err != nil {
		return nil, err
	}
	return proto.Marshal(p)
}

type binCodec interface {
	MarshalBinary() ([]byte, error)
	UnmarshalBinary([]byte) error
}

func binDec[T any, P interface {
	*T
	binCodec
}](b []byte) (P, error) {
	x := P(new(T))
	if err := x.UnmarshalBinary(b); err != nil {
		return nil, err
	}
	return x, nil
}

func binAgain[T any, P interface {
	*T
	binCodec
}](x P) (P, error) {
	b, err := x.MarshalBinary()
	if err != nil {
		return nil, fmt.Errorf("MarshalBinary: %w", err)
	}
	y, err := binDec[T, P](b)
	if err != nil {
		return nil, fmt.Errorf("UnmarshalBinary of the re-encoding: %w", err)
	}
	return y, nil
}

// ---------------------------------------------------------------------------------------------
// store keys, discovered once by saving a probe through the real store

type storeKeys struct{ header, data, state ds.Key }

var (
	skOnce sync.Once
	sk     storeKeys
)

const probeHeight = 7

func getStoreKeys() storeKeys {
	skOnce.Do(func() {
		raw := world.NewCrashDS()
		st := world.StoreOn(raw)
		ctx := theCtx
		ph := pairedHeader(probeHeight)
		hb, _ := ph.MarshalBinary()
		db, _ := pairedData.MarshalBinary()
		if err := st.SaveBlockData(ctx, ph, pairedData, &ph.Signature); err != nil {
			panic(err)
		}
		before := raw.Image()
		s := types.State{ChainID: "probe", InitialHeight: 1}
		if err := st.UpdateState(ctx, s); err != nil {
			panic(err)
		}
		for k, v := range raw.Image() {
			if _, ok := before[k]; !ok {
				sk.state = ds.NewKey(k)
			} else if bytes.Equal(v, hb) {
				sk.header = ds.NewKey(k)
			} else if bytes.Equal(v, db) {
				sk.data = ds.NewKey(k)
			}
		}
		if sk.state.String() == "" || sk.header.String() == "" || sk.data.String() == "" {
			panic("cannot discover the store keys")
		}
	})
	return sk
}

// storeWith returns a store whose probe block / state has the given raw bytes under key.
func storeWith(key ds.Key, b []byte) storepkg.Store {
	raw := world.NewCrashDS()
	st := world.StoreOn(raw)
	ph := pairedHeader(probeHeight)
	if err := st.SaveBlockData(theCtx, ph, pairedData, &ph.Signature); err != nil {
		panic(err)
	}
	if err := raw.Put(theCtx, key, b); err != nil {
		panic(err)
	}
	return st
}

// ---------------------------------------------------------------------------------------------
// dirty receivers (observation only: the statement speaks about the decoded value, and every
// caller in the tree decodes into a fresh value)

func dirtyObs(dec string, b []byte) []string {
	full := HeaderSpec{VBlock: 9, VApp: 9, Height: 9, Time: 9, ChainID: []byte("dirty"), LastHeaderHash: []byte("d"), LastCommitHash: []byte("d"),
		DataHash: []byte("d"), ConsensusHash: []byte("d"), AppHash: []byte("d"), LastResultsHash: []byte("d"), ValidatorHash: []byte("d"), ProposerAddress: []byte("d")}
	_, pub := keyFor("c12-third", "ed25519")
	sg, _ := types.NewSigner(pub)
	dd := types.Data{Metadata: &types.Metadata{ChainID: "dirty", Height: 9, Time: 9, LastDataHash: []byte("d")}, Txs: types.Txs{types.Tx("dirty")}}
	obs := func(f string) []string {
		if f == "" {
			return nil
		}
		return []string{"decoding into a used " + dec + " receiver keeps stale " + f}
	}
	switch dec {
	case dHeader:
		fresh, dirty := new(types.Header), new(types.Header)
		*dirty = full.Build()
		if fresh.UnmarshalBinary(b) == nil && dirty.UnmarshalBinary(b) == nil {
			return obs(diffHeader(fresh, dirty))
		}
	case dSignedHeader:
		fresh := new(types.SignedHeader)
		dirty := &types.SignedHeader{Header: full.Build(), Signature: []byte("d"), Signer: sg}
		if fresh.UnmarshalBinary(b) == nil && dirty.UnmarshalBinary(b) == nil {
			return obs(diffSignedHeader(fresh, dirty))
		}
	case dData:
		fresh, dirty := new(types.Data), new(types.Data)
		*dirty = dd
		if fresh.UnmarshalBinary(b) == nil && dirty.UnmarshalBinary(b) == nil {
			return obs(diffData(fresh, dirty))
		}
	case dSignedData:
		fresh := new(types.SignedData)
		dirty := &types.SignedData{Data: dd, Signature: []byte("d"), Signer: sg}
		if fresh.UnmarshalBinary(b) == nil && dirty.UnmarshalBinary(b) == nil {
			return obs(diffSignedData(fresh, dirty))
		}
	case dMetadata:
		fresh, dirty := new(types.Metadata), new(types.Metadata)
		*dirty = *dd.Metadata
		if fresh.UnmarshalBinary(b) == nil && dirty.UnmarshalBinary(b) == nil {
			return obs(diffMeta(fresh, dirty))
		}
	}
	return nil
}

// ---------------------------------------------------------------------------------------------
// the bytes check

var theCtx = context.Background()

func runBytes(sc BytesScenario) (v world.Verdict) {
	defer func() {
		if r := recover(); r != nil {
			v = world.Fail("C12/bytes/"+sc.Decoder+"/panic", "%s decoder panicked on %x: %v", sc.Decoder, clip(sc.Bytes), r)
		}
	}()
	b := sc.Bytes
	var res *world.Verdict
	accepted := false
	var labels []string
	switch sc.Decoder {
	case dHeader:
		res, accepted = idem(codec[*types.Header]{dHeader, binDec[types.Header], binAgain[types.Header], diffHdrP, hdrHash}, b)
	case dSignedHeader:
		res, accepted = idem(codec[*types.SignedHeader]{dSignedHeader, binDec[types.SignedHeader], binAgain[types.SignedHeader], diffSignedHeader, shHash}, b)
	case dData:
		res, accepted = idem(codec[*types.Data]{dData, binDec[types.Data], binAgain[types.Data], diffData, dataHash}, b)
	case dSignedData:
		res, accepted = idem(codec[*types.SignedData]{dSignedData, binDec[types.SignedData], binAgain[types.SignedData], diffSignedData, sdHash}, b)
	case dMetadata:
		res, accepted = idem(codec[*types.Metadata]{dMetadata, binDec[types.Metadata], binAgain[types.Metadata], diffMeta, nil}, b)
	case dState:
		res, accepted = idem(codec[*types.State]{dState, decState, func(s *types.State) (*types.State, error) {
			e, err := encState(s)
			if err != nil {
				return nil, err
			}
			return decState(e)
		}, diffStateP, nil}, b)
	case dCursor:
		res, accepted = idem(codec[[][]byte]{dCursor, block.VerifBytesToBatchData, func(l [][]byte) ([][]byte, error) {
			return block.VerifBytesToBatchData(block.VerifBatchDataToBytes(l))
		}, diffCursorP, nil}, b)
		if res == nil && accepted {
			// an accepted input is exactly the encoding of what it decodes to (no trailing garbage, no slack)
			l, _ := block.VerifBytesToBatchData(b)
			if !bytes.Equal(refCursor(l), b) {
				v := world.Fail("C12/bytes/cursor/accepted-non-canonical", "cursor decoder accepted %x, which is not the encoding of the %d entries it returned", clip(b), len(l))
				res = &v
			}
		}
	case dStoreHeader:
		keys := getStoreKeys()
		res, accepted = idem(codec[*types.SignedHeader]{dStoreHeader,
			func(b []byte) (*types.SignedHeader, error) {
				return storeWith(keys.header, b).GetHeader(theCtx, probeHeight)
			},
			func(x *types.SignedHeader) (*types.SignedHeader, error) {
				st, _ := newStore()
				if err := st.SaveBlockData(theCtx, x, pairedData, &x.Signature); err != nil {
					return nil, err
				}
				return st.GetHeader(theCtx, x.Height())
			}, diffSignedHeader, shHash}, b)
	case dStoreData:
		keys := getStoreKeys()
		res, accepted = idem(codec[*types.Data]{dStoreData,
			func(b []byte) (*types.Data, error) {
				_, d, err := storeWith(keys.data, b).GetBlockData(theCtx, probeHeight)
				return d, err
			},
			func(x *types.Data) (*types.Data, error) {
				st, _ := newStore()
				ph := pairedHeader(probeHeight)
				if err := st.SaveBlockData(theCtx, ph, x, &ph.Signature); err != nil {
					return nil, err
				}
				_, d, err := st.GetBlockData(theCtx, probeHeight)
				return d, err
			}, diffData, dataHash}, b)
	case dStoreState:
		keys := getStoreKeys()
		res, accepted = idem(codec[*types.State]{dStoreState,
			func(b []byte) (*types.State, error) {
				s, err := storeWith(keys.state, b).GetState(theCtx)
				return &s, err
			},
			func(x *types.State) (*types.State, error) {
				st, _ := newStore()
				if err := st.UpdateState(theCtx, *x); err != nil {
					return nil, err
				}
				s, err := st.GetState(theCtx)
				return &s, err
			}, diffStateP, nil}, b)
	case dDABlob:
		w, err := getWorld()
		if err != nil {
			return world.Verdict{Excluded: true}
		}
		br := w.handleBlob(b, 5)
		if br.pan != nil {
			return *blobPanic(b, br.pan)
		}
		hev, dev := br.hev, br.dev
		if hev != nil {
			accepted = true
			labels = append(labels, "blob-accepted-as-header")
			res, _ = idem(codec[*types.SignedHeader]{dDABlob, func([]byte) (*types.SignedHeader, error) { return hev.Header, nil },
				binAgain[types.SignedHeader], diffSignedHeader, shHash}, b)
		}
		if dev != nil {
			accepted = true
			labels = append(labels, "blob-accepted-as-data")
			res, _ = idem(codec[*types.Data]{dDABlob, func([]byte) (*types.Data, error) { return dev.Data, nil },
				binAgain[types.Data], diffData, dataHash}, b)
		}
	case dCacheHeader:
		res, accepted = cacheBytes[types.SignedHeader](dCacheHeader, b, func(a, b *types.SignedHeader) string { return diffSignedHeader(a, b) })
	case dCacheData:
		res, accepted = cacheBytes[types.Data](dCacheData, b, func(a, b *types.Data) string { return diffData(a, b) })
	default:
		return world.Verdict{Excluded: true}
	}
	if res != nil {
		return *res
	}
	if accepted {
		labels = append(labels, "accepted")
	} else {
		labels = append(labels, "rejected-cleanly")
	}
	if len(b) == 0 {
		labels = append(labels, "empty-input")
	}
	out := world.OK(accepted, append(labels, "decoder:"+sc.Decoder)...)
	if accepted {
		out.Observations = dirtyObs(sc.Decoder, b)
	}
	return out
}

// cacheBytes offers b as the items-by-height file of a cache directory.
func cacheBytes[T any](name string, b []byte, diff func(a, b *T) string) (*world.Verdict, bool) {
	w, err := getWorld()
	if err != nil {
		return nil, false
	}
	dir := w.caseDir()
	defer os.RemoveAll(dir)
	if err := os.MkdirAll(dir, 0o755); err != nil {
		return nil, false
	}
	if err := os.WriteFile(filepath.Join(dir, "items_by_height.gob"), b, 0o644); err != nil {
		return nil, false
	}
	c := cache.NewCache[T]()
	if err := c.LoadFromDisk(dir); err != nil {
		return nil, false
	}
	// which heights were in the file (same decoder as loadMapGob)
	m := map[uint64]*T{}
	if err := gob.NewDecoder(bytes.NewReader(b)).Decode(&m); err != nil {
		return nil, true
	}
	dir2 := w.caseDir()
	defer os.RemoveAll(dir2)
	if err := c.SaveToDisk(dir2); err != nil {
		v := world.Fail("C12/bytes/"+name+"/accepted-value-does-not-reencode", "cache loaded from %x cannot be saved again: %v", clip(b), err)
		return &v, true
	}
	c2 := cache.NewCache[T]()
	if err := c2.LoadFromDisk(dir2); err != nil {
		v := world.Fail("C12/bytes/"+name+"/accepted-value-does-not-reencode", "cache loaded from %x, saved again, cannot be loaded: %v", clip(b), err)
		return &v, true
	}
	hs := make([]uint64, 0, len(m))
	for h := range m {
		hs = append(hs, h)
	}
	sort.Slice(hs, func(i, j int) bool { return hs[i] < hs[j] })
	for _, h := range hs {
		x, y := c.GetItem(h), c2.GetItem(h)
		if (x == nil) != (y == nil) {
			v := world.Fail("C12/bytes/"+name+"/item-lost", "item at height %d disappears over save/load", h)
			return &v, true
		}
		if x != nil {
			if d := diff(x, y); d != "" {
				v := world.Fail("C12/bytes/"+name+"/not-idempotent:"+d, "cache item at height %d differs in %s after save/load", h, d)
				return &v, true
			}
		}
	}
	return nil, len(hs) > 0
}

// ---------------------------------------------------------------------------------------------
// generator: valid encodings (reference encoder, own or foreign type), raw bytes, then mutations

func refEncode(sc ValueScenario) []byte {
	switch sc.Kind {
	case kHeader:
		h := sc.Header.Build()
		b, _ := refHeader(&h)
		return b
	case kSignedHeader:
		b, _ := refSignedHeader(sc.SignedHeader.Build())
		return b
	case kData:
		b, _ := refData(sc.Data.Build())
		return b
	case kSignedData:
		b, _ := refSignedData(sc.SignedData.Build())
		return b
	case kMetadata:
		b, _ := refMetadata(sc.Metadata.Build())
		return b
	case kState:
		s := sc.State.Build()
		b, _ := refState(&s)
		return b
	case kCursor:
		return refCursor(sc.Cursor.Build())
	}
	return nil
}

func gobItems(kind string, t *rapid.T) []byte {
	var buf bytes.Buffer
	n := rapid.IntRange(0, 2).Draw(t, "nitems")
	var err error
	if kind == kSignedHeader {
		m := map[uint64]*types.SignedHeader{}
		for i := 0; i < n; i++ {
			m[genU64(t, "itemheight")] = genSignedHeaderSpec(t).Build()
		}
		err = gob.NewEncoder(&buf).Encode(m)
	} else {
		m := map[uint64]*types.Data{}
		for i := 0; i < n; i++ {
			m[genU64(t, "itemheight")] = genDataSpec(t).Build()
		}
		err = gob.NewEncoder(&buf).Encode(m)
	}
	if err != nil {
		return []byte("gob-encode-failed")
	}
	return buf.Bytes()
}

func genBase(dec string, t *rapid.T) []byte {
	switch rapid.IntRange(0, 11).Draw(t, "base") {
	case 0:
		return []byte{}
	case 1:
		return rapid.SliceOfN(rapid.Byte(), 1, 64).Draw(t, "raw")
	case 2:
		// absurd length prefixes / varints
		return rapid.SampledFrom([][]byte{
			{0xff, 0xff, 0xff, 0xff}, {0xff, 0xff, 0xff, 0x7f, 1, 2, 3}, {0, 0, 0, 0}, {1, 0, 0, 0}, {0, 0, 0, 0, 0, 0, 0, 0, 1, 0, 0, 0, 7},
			{0x0a, 0xff, 0xff, 0xff, 0xff, 0x0f}, {0x0a, 0x80, 0x80, 0x80, 0x80, 0x80, 0x80, 0x80, 0x80, 0x80, 0x01}, {0x12, 0x05, 1}, {0x0a, 0x02, 0x0a, 0x05},
			{0x2a, 0x0b, 0x08, 0xff, 0xff, 0xff, 0xff, 0xff, 0xff, 0xff, 0xff, 0x7f, 0x10, 0x01}, // timestamp with maximal seconds
			{0x2a, 0x0c, 0x10, 0xff, 0xff, 0xff, 0xff, 0xff, 0xff, 0xff, 0xff, 0xff, 0x01},       // timestamp with nanos = -1
			{0x1a, 0x04, 0x12, 0x02, 0x08, 0x01},                                                 // signer with a truncated public key
		}).Draw(t, "absurd")
	case 3:
		// a valid encoding of another wire type
		k := rapid.SampledFrom(valueKinds).Draw(t, "foreignkind")
		return refEncode(genValue(k)(t))
	}
	if dec == dDABlob {
		if rapid.Bool().Draw(t, "hdrblob") {
			return refEncode(genValue(kSignedHeader)(t))
		}
		return refEncode(genValue(kSignedData)(t))
	}
	if dec == dCacheHeader || dec == dCacheData {
		return gobItems(kindOf(dec), t)
	}
	return refEncode(genValue(kindOf(dec))(t))
}

func mutate(b []byte, t *rapid.T, gentle bool) []byte {
	n := rapid.IntRange(0, 3).Draw(t, "nmut")
	if gentle {
		// inputs whose acceptance needs a valid signature or a well-formed gob stream
		n = rapid.SampledFrom([]int{0, 0, 0, 1, 1, 2}).Draw(t, "nmutgentle")
	}
	for i := 0; i < n; i++ {
		op := rapid.IntRange(0, 8).Draw(t, "op")
		if len(b) == 0 && op != 4 && op != 6 {
			op = 6
		}
		switch op {
		case 0: // flip a bit
			idx := rapid.IntRange(0, len(b)-1).Draw(t, "idx")
			b = append([]byte{}, b...)
			b[idx] ^= 1 << uint(rapid.IntRange(0, 7).Draw(t, "bit"))
		case 1: // set a byte
			idx := rapid.IntRange(0, len(b)-1).Draw(t, "idx")
			b = append([]byte{}, b...)
			b[idx] = rapid.SampledFrom([]byte{0x00, 0xff, 0x80, 0x7f, 0x01, 0x0a, 0x12}).Draw(t, "val")
		case 2: // truncate
			b = b[:rapid.IntRange(0, len(b)-1).Draw(t, "cut")]
		case 3: // delete a range
			idx := rapid.IntRange(0, len(b)-1).Draw(t, "idx")
			k := rapid.IntRange(1, min(8, len(b)-idx)).Draw(t, "k")
			b = append(append([]byte{}, b[:idx]...), b[idx+k:]...)
		case 4: // insert
			idx := rapid.IntRange(0, len(b)).Draw(t, "idx")
			ins := rapid.SliceOfN(rapid.Byte(), 1, 8).Draw(t, "ins")
			b = append(append(append([]byte{}, b[:idx]...), ins...), b[idx:]...)
		case 5: // duplicate a range in place
			idx := rapid.IntRange(0, len(b)-1).Draw(t, "idx")
			k := rapid.IntRange(1, min(16, len(b)-idx)).Draw(t, "k")
			b = append(append(append([]byte{}, b[:idx+k]...), b[idx:idx+k]...), b[idx+k:]...)
		case 6: // append: trailing garbage, an unknown field, a repeated known field
			tail := rapid.SampledFrom([][]byte{{0}, {0xff}, {0x78, 0x01}, {0x7a, 0x01, 0x41}, {0x08, 0x01}, {0x0a, 0x00}, {0x12, 0x01, 0x42}, {0x1a, 0x00}, {1, 0, 0, 0, 0x55}, {2, 0, 0, 0, 0x55}}).Draw(t, "tail")
			b = append(append([]byte{}, b...), tail...)
		case 7: // absurd 4-byte pattern
			idx := rapid.IntRange(0, len(b)-1).Draw(t, "idx")
			pat := rapid.SampledFrom([][]byte{{0xff, 0xff, 0xff, 0xff}, {0xff, 0xff, 0xff, 0x7f}, {0, 0, 0, 0x80}, {0xff, 0xff, 0xff, 0x0f}}).Draw(t, "pat")
			b = append([]byte{}, b...)
			copy(b[idx:], pat)
		case 8: // concatenate a second copy (protobuf merges, the cursor codec appends)
			b = append(append([]byte{}, b...), b...)
		}
	}
	return b
}

func genBytes(dec string) func(t *rapid.T) BytesScenario {
	return func(t *rapid.T) BytesScenario {
		b := mutate(genBase(dec, t), t, dec == dDABlob || dec == dCacheHeader || dec == dCacheData)
		if b == nil {
			b = []byte{}
		}
		return BytesScenario{Decoder: dec, Bytes: b}
	}
}

func TestC12Bytes(t *testing.T) {
	mustWorld(t)
	for _, d := range byteDecoders {
		d := d
		t.Run(d, func(t *testing.T) {
			n := world.Scale(2000, 20000)
			if d == dCacheHeader || d == dCacheData {
				n = world.Scale(500, 4000)
			}
			world.Run(t, "C12", "bytes-"+d, n, genBytes(d), runBytes)
		})
	}
}

// ---------------------------------------------------------------------------------------------
// native fuzz targets (thorough tier only; as plain tests they run their seed corpus)

func fuzzSeeds(kind string) [][]byte {
	out := [][]byte{{}, {0xff, 0xff, 0xff, 0xff}, {0x0a, 0x00}}
	for _, gv := range goldenValues() {
		if gv.Kind == kind {
			out = append(out, refEncode(gv))
		}
	}
	return out
}

func fuzzDecoder(f *testing.F, dec string, seedKinds ...string) {
	for _, k := range seedKinds {
		for _, s := range fuzzSeeds(k) {
			f.Add(s)
		}
	}
	f.Fuzz(func(t *testing.T, b []byte) {
		if len(b) > 1<<20 {
			return
		}
		sc := BytesScenario{Decoder: dec, Bytes: b}
		v := runBytes(sc)
		if v.Violation != "" {
			p := writeFuzzReplay(sc, v)
			t.Fatalf("\nVIOLATION property=C12 replay=%s\n%s", p, v.Violation)
		}
	})
}

// writeFuzzReplay stores a fuzz finding in the replay-file format of world.Run, so that
// ./check C12 --replay <file> re-runs it through the bytes-<decoder> check.
func writeFuzzReplay(sc BytesScenario, v world.Verdict) string {
	js, _ := json.Marshal(sc)
	root := os.Getenv("VERIF_ROOT")
	if root == "" {
		root = "/verif"
	}
	dir := os.Getenv("VERIF_FOUND_DIR")
	if dir == "" {
		dir = filepath.Join(root, "replays", "C12", "found")
	}
	_ = os.MkdirAll(dir, 0o755)
	p := filepath.Join(dir, fmt.Sprintf("bytes-%s-fuzz-%x.json", sc.Decoder, sha(js)[:8]))
	rf := map[string]any{"property": "C12", "check": "bytes-" + sc.Decoder, "message": v.Violation, "signature": v.Signature, "scenario": json.RawMessage(js)}
	out, _ := json.MarshalIndent(rf, "", " ")
	_ = os.WriteFile(p, out, 0o644)
	return p
}

func FuzzHeader(f *testing.F)       { fuzzDecoder(f, dHeader, kHeader) }
func FuzzSignedHeader(f *testing.F) { fuzzDecoder(f, dSignedHeader, kSignedHeader) }
func FuzzData(f *testing.F)         { fuzzDecoder(f, dData, kData) }
func FuzzSignedData(f *testing.F)   { fuzzDecoder(f, dSignedData, kSignedData) }
func FuzzMetadata(f *testing.F)     { fuzzDecoder(f, dMetadata, kMetadata) }
func FuzzState(f *testing.F)        { fuzzDecoder(f, dState, kState) }
func FuzzCursor(f *testing.F)       { fuzzDecoder(f, dCursor, kCursor) }
func FuzzDABlob(f *testing.F)       { fuzzDecoder(f, dDABlob, kSignedHeader, kSignedData) }
