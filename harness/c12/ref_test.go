package c12

import (
	"crypto/sha256"
	"encoding/binary"
	"unicode/utf8"

	"github.com/libp2p/go-libp2p/core/crypto"

	"github.com/evstack/ev-node/types"
)

// Independent reference encoder: the protobuf wire form of proto/evnode/v1 (evnode.proto,
// state.proto) as the pinned tree produces it today, written by hand from the .proto files
// (field numbers, proto3 zero-value omission, fields in number order, sub-messages that the
// conversions always set are always present). It neither imports the generated pb package nor
// google.golang.org/protobuf, so a self-consistent change of ToProto/FromProto, of the field
// numbering or of the hash input is visible as a difference from these bytes.

type wbuf struct{ b []byte }

func (w *wbuf) varint(v uint64) {
	for v >= 0x80 {
		w.b = append(w.b, byte(v)|0x80)
		v >>= 7
	}
	w.b = append(w.b, byte(v))
}

func (w *wbuf) tag(field, wt int) { w.varint(uint64(field<<3 | wt)) }

// u64 writes a proto3 scalar (omitted when zero).
func (w *wbuf) u64(field int, v uint64) {
	if v == 0 {
		return
	}
	w.tag(field, 0)
	w.varint(v)
}

// bytesOpt writes a proto3 singular bytes/string field (omitted when empty).
func (w *wbuf) bytesOpt(field int, b []byte) {
	if len(b) == 0 {
		return
	}
	w.bytesAlways(field, b)
}

// bytesAlways writes a length-delimited field even when empty (repeated elements, present sub-messages).
func (w *wbuf) bytesAlways(field int, b []byte) {
	w.tag(field, 2)
	w.varint(uint64(len(b)))
	w.b = append(w.b, b...)
}

func refVersion(v types.Version) []byte {
	var w wbuf
	w.u64(1, v.Block)
	w.u64(2, v.App)
	return w.b
}

// refHeader returns the wire bytes and whether the value is encodable (proto3 strings must be UTF-8).
func refHeader(h *types.Header) ([]byte, bool) {
	var w wbuf
	w.bytesAlways(1, refVersion(h.Version))
	w.u64(2, h.BaseHeader.Height)
	w.u64(3, h.BaseHeader.Time)
	w.bytesOpt(4, h.LastHeaderHash)
	w.bytesOpt(5, h.LastCommitHash)
	w.bytesOpt(6, h.DataHash)
	w.bytesOpt(7, h.ConsensusHash)
	w.bytesOpt(8, h.AppHash)
	w.bytesOpt(9, h.LastResultsHash)
	w.bytesOpt(10, h.ProposerAddress)
	w.bytesOpt(11, h.ValidatorHash)
	w.bytesOpt(12, []byte(h.BaseHeader.ChainID))
	return w.b, utf8.ValidString(h.BaseHeader.ChainID)
}

func refSigner(s types.Signer) []byte {
	var w wbuf
	if s.PubKey == nil {
		return nil // documented loss: no key, no signer on the wire
	}
	pk, err := crypto.MarshalPublicKey(s.PubKey)
	if err != nil {
		panic(err)
	}
	w.bytesOpt(1, s.Address)
	w.bytesOpt(2, pk)
	return w.b
}

func refSignedHeader(sh *types.SignedHeader) ([]byte, bool) {
	hb, ok := refHeader(&sh.Header)
	var w wbuf
	w.bytesAlways(1, hb)
	w.bytesOpt(2, sh.Signature)
	w.bytesAlways(3, refSigner(sh.Signer))
	return w.b, ok
}

func refMetadata(m *types.Metadata) ([]byte, bool) {
	var w wbuf
	w.bytesOpt(1, []byte(m.ChainID))
	w.u64(2, m.Height)
	w.u64(3, m.Time)
	w.bytesOpt(4, m.LastDataHash)
	return w.b, utf8.ValidString(m.ChainID)
}

func refData(d *types.Data) ([]byte, bool) {
	var w wbuf
	ok := true
	if d.Metadata != nil {
		mb, mok := refMetadata(d.Metadata)
		ok = mok
		w.bytesAlways(1, mb)
	}
	for _, tx := range d.Txs {
		w.bytesAlways(2, tx)
	}
	return w.b, ok
}

func refSignedData(sd *types.SignedData) ([]byte, bool) {
	db, ok := refData(&sd.Data)
	var w wbuf
	w.bytesAlways(1, db)
	w.bytesOpt(2, sd.Signature)
	w.bytesAlways(3, refSigner(sd.Signer))
	return w.b, ok
}

func refState(s *types.State) ([]byte, bool) {
	var w wbuf
	w.bytesAlways(1, refVersion(s.Version))
	w.bytesOpt(2, []byte(s.ChainID))
	w.u64(3, s.InitialHeight)
	w.u64(4, s.LastBlockHeight)
	var ts wbuf
	ts.u64(1, uint64(s.LastBlockTime.Unix()))                     // int64 as two's complement varint
	ts.u64(2, uint64(int64(int32(s.LastBlockTime.Nanosecond())))) // int32, sign-extended
	w.bytesAlways(5, ts.b)
	w.u64(6, s.DAHeight)
	w.bytesOpt(7, s.LastResultsHash)
	w.bytesOpt(8, s.AppHash)
	return w.b, utf8.ValidString(s.ChainID)
}

// refCursor is the batch-cursor list codec: per entry a 4-byte little-endian length and the bytes.
func refCursor(l [][]byte) []byte {
	out := []byte{}
	for _, e := range l {
		var p [4]byte
		binary.LittleEndian.PutUint32(p[:], uint32(len(e)))
		out = append(out, p[:]...)
		out = append(out, e...)
	}
	return out
}

func sha(b []byte) []byte { s := sha256.Sum256(b); return s[:] }

// leafSha is sha256(0x00 || b): the data hash / DA commitment construction.
func leafSha(b []byte) []byte {
	s := sha256.Sum256(append([]byte{0}, b...))
	return s[:]
}

// refCommitment is the DA commitment: the leaf hash of the encoding of the tx list alone.
func refCommitment(txs types.Txs) []byte {
	var w wbuf
	for _, tx := range txs {
		w.bytesAlways(2, tx)
	}
	return leafSha(w.b)
}
