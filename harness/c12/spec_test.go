// Package c12 decides C12: wire encodings round-trip on every path (binary, proto, block store,
// DA blob, P2P, cache file), hashes and commitments are stable, fixed values keep today's exact
// bytes, decoders are total, and the data commitment depends on the ordered tx list only.
package c12

import (
	"bytes"
	"crypto/sha256"
	"fmt"
	"math"
	"sync"
	"time"
	"unicode/utf8"

	"github.com/libp2p/go-libp2p/core/crypto"
	"pgregory.net/rapid"

	"github.com/evstack/ev-node/types"

	"verif/harness/world"
)

// ---------------------------------------------------------------------------------------------
// scenario data (plain JSON; []byte nil marshals as null and empty as "", so the nil/empty
// distinction survives a replay file; chain ids are bytes because JSON would rewrite invalid UTF-8)

type HeaderSpec struct {
	VBlock          uint64 `json:"vblock"`
	VApp            uint64 `json:"vapp"`
	Height          uint64 `json:"height"`
	Time            uint64 `json:"time"`
	ChainID         []byte `json:"chain_id"`
	LastHeaderHash  []byte `json:"last_header_hash"`
	LastCommitHash  []byte `json:"last_commit_hash"`
	DataHash        []byte `json:"data_hash"`
	ConsensusHash   []byte `json:"consensus_hash"`
	AppHash         []byte `json:"app_hash"`
	LastResultsHash []byte `json:"last_results_hash"`
	ValidatorHash   []byte `json:"validator_hash"`
	ProposerAddress []byte `json:"proposer_address"`
}

// SignerSpec: Mode none | key | addr-only (address without public key: not representable on the wire).
type SignerSpec struct {
	Mode     string `json:"mode"`
	Key      string `json:"key,omitempty"`       // label of the deterministic key
	KeyType  string `json:"key_type,omitempty"`  // ed25519 | secp256k1
	AddrMode string `json:"addr_mode,omitempty"` // derived | bytes
	Addr     []byte `json:"addr"`
}

// SigSpec: Mode valid (signed by the signer's key over the canonical payload) | bytes.
type SigSpec struct {
	Mode  string `json:"mode"`
	Bytes []byte `json:"bytes"`
}

type SignedHeaderSpec struct {
	Header       HeaderSpec `json:"header"`
	Signer       SignerSpec `json:"signer"`
	Sig          SigSpec    `json:"sig"`
	BindProposer bool       `json:"bind_proposer,omitempty"` // ProposerAddress := signer address
}

type MetaSpec struct {
	ChainID      []byte `json:"chain_id"`
	Height       uint64 `json:"height"`
	Time         uint64 `json:"time"`
	LastDataHash []byte `json:"last_data_hash"`
}

type DataSpec struct {
	HasMeta bool     `json:"has_meta"`
	Meta    MetaSpec `json:"meta"`
	Txs     [][]byte `json:"txs"`
	// Many > len(Txs): the list is Txs repeated in a cycle until it has Many entries (tens of thousands of small
	// transactions from a short description).
	Many int `json:"many,omitempty"`
}

type SignedDataSpec struct {
	Data   DataSpec   `json:"data"`
	Signer SignerSpec `json:"signer"`
	Sig    SigSpec    `json:"sig"`
}

// StateSpec: TimeMode zero | nanos (time.Unix(0, int64(Nanos)), what header.Time() yields) | secs.
type StateSpec struct {
	VBlock          uint64 `json:"vblock"`
	VApp            uint64 `json:"vapp"`
	ChainID         []byte `json:"chain_id"`
	InitialHeight   uint64 `json:"initial_height"`
	LastBlockHeight uint64 `json:"last_block_height"`
	DAHeight        uint64 `json:"da_height"`
	TimeMode        string `json:"time_mode"`
	Nanos           uint64 `json:"nanos"`
	Sec             int64  `json:"sec"`
	Nsec            int64  `json:"nsec"`
	Local           bool   `json:"local,omitempty"` // carried in a non-UTC location
	LastResultsHash []byte `json:"last_results_hash"`
	AppHash         []byte `json:"app_hash"`
}

type CursorSpec struct {
	Entries [][]byte `json:"entries"`
}

const (
	kHeader       = "header"
	kSignedHeader = "signed_header"
	kData         = "data"
	kSignedData   = "signed_data"
	kMetadata     = "metadata"
	kState        = "state"
	kCursor       = "cursor"
)

var valueKinds = []string{kHeader, kSignedHeader, kData, kSignedData, kMetadata, kState, kCursor}

// ValueScenario is one structured value of one wire type.
type ValueScenario struct {
	Kind         string            `json:"kind"`
	Header       *HeaderSpec       `json:"header,omitempty"`
	SignedHeader *SignedHeaderSpec `json:"signed_header,omitempty"`
	Data         *DataSpec         `json:"data,omitempty"`
	SignedData   *SignedDataSpec   `json:"signed_data,omitempty"`
	Metadata     *MetaSpec         `json:"metadata,omitempty"`
	State        *StateSpec        `json:"state,omitempty"`
	Cursor       *CursorSpec       `json:"cursor,omitempty"`
}

// ---------------------------------------------------------------------------------------------
// keys

const proposerLabel = "c12-proposer"

var (
	keyMu    sync.Mutex
	keyCache = map[string][2]any{}
)

func keyFor(label, typ string) (crypto.PrivKey, crypto.PubKey) {
	keyMu.Lock()
	defer keyMu.Unlock()
	k := typ + "/" + label
	if e, ok := keyCache[k]; ok {
		return e[0].(crypto.PrivKey), e[1].(crypto.PubKey)
	}
	var priv crypto.PrivKey
	var pub crypto.PubKey
	if typ == "secp256k1" {
		seed := sha256.Sum256([]byte("verif-secp:" + label))
		p, err := crypto.UnmarshalSecp256k1PrivateKey(seed[:])
		if err != nil {
			panic(err)
		}
		priv, pub = p, p.GetPublic()
	} else {
		priv, pub = world.KeyFromSeed(label)
	}
	keyCache[k] = [2]any{priv, pub}
	return priv, pub
}

// ---------------------------------------------------------------------------------------------
// building real values from specs

func (s HeaderSpec) Build() types.Header {
	return types.Header{
		BaseHeader:      types.BaseHeader{Height: s.Height, Time: s.Time, ChainID: string(s.ChainID)},
		Version:         types.Version{Block: s.VBlock, App: s.VApp},
		LastHeaderHash:  cp(s.LastHeaderHash),
		LastCommitHash:  cp(s.LastCommitHash),
		DataHash:        cp(s.DataHash),
		ConsensusHash:   cp(s.ConsensusHash),
		AppHash:         cp(s.AppHash),
		LastResultsHash: cp(s.LastResultsHash),
		ValidatorHash:   cp(s.ValidatorHash),
		ProposerAddress: cp(s.ProposerAddress),
	}
}

// cp copies keeping nil as nil and empty as empty-non-nil.
func cp(b []byte) []byte {
	if b == nil {
		return nil
	}
	out := make([]byte, len(b))
	copy(out, b)
	return out
}

func (s SignerSpec) Build() (types.Signer, crypto.PrivKey) {
	switch s.Mode {
	case "key":
		priv, pub := keyFor(s.Key, s.KeyType)
		sg := types.Signer{PubKey: pub}
		if s.AddrMode == "derived" {
			sg.Address = types.KeyAddress(pub)
		} else {
			sg.Address = cp(s.Addr)
		}
		return sg, priv
	case "addr-only":
		return types.Signer{Address: cp(s.Addr)}, nil
	}
	return types.Signer{}, nil
}

func (s SigSpec) Build(priv crypto.PrivKey, payload func() ([]byte, error)) types.Signature {
	if s.Mode == "valid" && priv != nil {
		p, err := payload()
		if err != nil {
			return nil
		}
		sig, err := priv.Sign(p)
		if err != nil {
			panic(err)
		}
		return sig
	}
	return cp(s.Bytes)
}

func (s SignedHeaderSpec) Build() *types.SignedHeader {
	sh := &types.SignedHeader{Header: s.Header.Build()}
	sg, priv := s.Signer.Build()
	sh.Signer = sg
	if s.BindProposer {
		sh.ProposerAddress = cp(sg.Address)
	}
	sh.Signature = s.Sig.Build(priv, func() ([]byte, error) { return sh.Header.MarshalBinary() })
	return sh
}

func (s MetaSpec) Build() *types.Metadata {
	return &types.Metadata{ChainID: string(s.ChainID), Height: s.Height, Time: s.Time, LastDataHash: cp(s.LastDataHash)}
}

func buildTxs(in [][]byte) types.Txs {
	if in == nil {
		return nil
	}
	out := make(types.Txs, len(in))
	for i := range in {
		out[i] = types.Tx(cp(in[i]))
	}
	return out
}

func (s DataSpec) Build() *types.Data {
	d := &types.Data{Txs: buildTxs(s.Txs)}
	if n := len(s.Txs); n > 0 && s.Many > n {
		all := make(types.Txs, s.Many)
		for i := range all {
			all[i] = d.Txs[i%n]
		}
		d.Txs = all
	}
	if s.HasMeta {
		d.Metadata = s.Meta.Build()
	}
	return d
}

func (s SignedDataSpec) Build() *types.SignedData {
	sd := &types.SignedData{Data: *s.Data.Build()}
	sg, priv := s.Signer.Build()
	sd.Signer = sg
	sd.Signature = s.Sig.Build(priv, func() ([]byte, error) { return sd.Data.MarshalBinary() })
	return sd
}

var otherZone = time.FixedZone("verif+0530", 5*3600+1800)

func (s StateSpec) Time() time.Time {
	var t time.Time
	switch s.TimeMode {
	case "nanos":
		t = time.Unix(0, int64(s.Nanos))
	case "secs":
		t = time.Unix(s.Sec, s.Nsec)
	default:
		return time.Time{}
	}
	if s.Local {
		return t.In(otherZone)
	}
	return t.UTC()
}

func (s StateSpec) Build() types.State {
	return types.State{
		Version:         types.Version{Block: s.VBlock, App: s.VApp},
		ChainID:         string(s.ChainID),
		InitialHeight:   s.InitialHeight,
		LastBlockHeight: s.LastBlockHeight,
		LastBlockTime:   s.Time(),
		DAHeight:        s.DAHeight,
		LastResultsHash: cp(s.LastResultsHash),
		AppHash:         cp(s.AppHash),
	}
}

func (s CursorSpec) Build() [][]byte {
	if s.Entries == nil {
		return nil
	}
	out := make([][]byte, len(s.Entries))
	for i := range s.Entries {
		out[i] = cp(s.Entries[i])
	}
	return out
}

// ---------------------------------------------------------------------------------------------
// equality up to protobuf's nil/empty identification (returns the first differing field)

func eqB(a, b []byte) bool { return bytes.Equal(a, b) }

func diffHeader(a, b *types.Header) string {
	switch {
	case a.Version != b.Version:
		return "Version"
	case a.BaseHeader.Height != b.BaseHeader.Height:
		return "Height"
	case a.BaseHeader.Time != b.BaseHeader.Time:
		return "Time"
	case a.BaseHeader.ChainID != b.BaseHeader.ChainID:
		return "ChainID"
	case !eqB(a.LastHeaderHash, b.LastHeaderHash):
		return "LastHeaderHash"
	case !eqB(a.LastCommitHash, b.LastCommitHash):
		return "LastCommitHash"
	case !eqB(a.DataHash, b.DataHash):
		return "DataHash"
	case !eqB(a.ConsensusHash, b.ConsensusHash):
		return "ConsensusHash"
	case !eqB(a.AppHash, b.AppHash):
		return "AppHash"
	case !eqB(a.LastResultsHash, b.LastResultsHash):
		return "LastResultsHash"
	case !eqB(a.ValidatorHash, b.ValidatorHash):
		return "ValidatorHash"
	case !eqB(a.ProposerAddress, b.ProposerAddress):
		return "ProposerAddress"
	}
	return ""
}

// normSigner applies the documented loss: a signer without public key is the empty signer.
func normSigner(s types.Signer) types.Signer {
	if s.PubKey == nil {
		return types.Signer{}
	}
	return s
}

func diffSigner(a, b types.Signer) string {
	if (a.PubKey == nil) != (b.PubKey == nil) {
		return "Signer.PubKey"
	}
	if a.PubKey != nil && !a.PubKey.Equals(b.PubKey) {
		return "Signer.PubKey"
	}
	if !eqB(a.Address, b.Address) {
		return "Signer.Address"
	}
	return ""
}

func diffSignedHeader(a, b *types.SignedHeader) string {
	if d := diffHeader(&a.Header, &b.Header); d != "" {
		return d
	}
	if !eqB(a.Signature, b.Signature) {
		return "Signature"
	}
	return diffSigner(normSigner(a.Signer), normSigner(b.Signer))
}

func diffMeta(a, b *types.Metadata) string {
	switch {
	case (a == nil) != (b == nil):
		return "Metadata-presence"
	case a == nil:
		return ""
	case a.ChainID != b.ChainID:
		return "Metadata.ChainID"
	case a.Height != b.Height:
		return "Metadata.Height"
	case a.Time != b.Time:
		return "Metadata.Time"
	case !eqB(a.LastDataHash, b.LastDataHash):
		return "Metadata.LastDataHash"
	}
	return ""
}

func diffData(a, b *types.Data) string {
	if d := diffMeta(a.Metadata, b.Metadata); d != "" {
		return d
	}
	if len(a.Txs) != len(b.Txs) {
		return "Txs.len"
	}
	for i := range a.Txs {
		if !eqB(a.Txs[i], b.Txs[i]) {
			return "Txs.elem"
		}
	}
	return ""
}

func diffSignedData(a, b *types.SignedData) string {
	if d := diffData(&a.Data, &b.Data); d != "" {
		return d
	}
	if !eqB(a.Signature, b.Signature) {
		return "Signature"
	}
	return diffSigner(normSigner(a.Signer), normSigner(b.Signer))
}

func diffState(a, b *types.State) string {
	switch {
	case a.Version != b.Version:
		return "Version"
	case a.ChainID != b.ChainID:
		return "ChainID"
	case a.InitialHeight != b.InitialHeight:
		return "InitialHeight"
	case a.LastBlockHeight != b.LastBlockHeight:
		return "LastBlockHeight"
	case !a.LastBlockTime.Equal(b.LastBlockTime):
		return "LastBlockTime"
	case a.DAHeight != b.DAHeight:
		return "DAHeight"
	case !eqB(a.LastResultsHash, b.LastResultsHash):
		return "LastResultsHash"
	case !eqB(a.AppHash, b.AppHash):
		return "AppHash"
	}
	return ""
}

func diffCursor(a, b [][]byte) string {
	if len(a) != len(b) {
		return "len"
	}
	for i := range a {
		if !eqB(a[i], b[i]) {
			return "entry"
		}
	}
	return ""
}

// ---------------------------------------------------------------------------------------------
// generators

var extremeU64 = []uint64{0, 1, 1 << 63, math.MaxUint64, 1<<63 - 1, 1 << 32, 127, 128, 300}

func genU64(t *rapid.T, label string) uint64 {
	if rapid.IntRange(0, 3).Draw(t, label+"?") == 0 {
		return rapid.Uint64().Draw(t, label)
	}
	return rapid.SampledFrom(extremeU64).Draw(t, label)
}

// genBytesField draws a byte field: nil / empty / 1 / 32 / 1000 bytes / short arbitrary.
func genBytesField(t *rapid.T, label string) []byte {
	switch rapid.IntRange(0, 8).Draw(t, label+"?") {
	case 0:
		return nil
	case 1:
		return []byte{}
	case 2:
		return []byte{rapid.Byte().Draw(t, label)}
	case 3, 4:
		return rapid.SliceOfN(rapid.Byte(), 32, 32).Draw(t, label)
	case 5:
		seed := rapid.SliceOfN(rapid.Byte(), 8, 8).Draw(t, label)
		return bytes.Repeat(seed, 125)
	default:
		return rapid.SliceOfN(rapid.Byte(), 1, 40).Draw(t, label)
	}
}

var chainIDs = []string{"", "c", "test-chain", "évnode-链-\U0001F680", "a\x00b", " ", "chain with spaces and \"quotes\"\n"}

func genChainID(t *rapid.T, label string) []byte {
	switch rapid.IntRange(0, 19).Draw(t, label+"?") {
	case 0:
		return nil
	case 1, 2:
		return []byte(rapid.StringN(0, 40, 200).Draw(t, label))
	case 3:
		return bytes.Repeat([]byte("long-"), 200)
	case 9:
		// invalid UTF-8: not encodable as a proto3 string; must fail cleanly
		return []byte(rapid.SampledFrom([]string{"\xff", "ok\xc3", "\xed\xa0\x80"}).Draw(t, label))
	default:
		return []byte(rapid.SampledFrom(chainIDs).Draw(t, label))
	}
}

func genHeaderSpec(t *rapid.T) HeaderSpec {
	return HeaderSpec{
		VBlock:          genU64(t, "vblock"),
		VApp:            genU64(t, "vapp"),
		Height:          genU64(t, "height"),
		Time:            genU64(t, "time"),
		ChainID:         genChainID(t, "chain"),
		LastHeaderHash:  genBytesField(t, "lhh"),
		LastCommitHash:  genBytesField(t, "lch"),
		DataHash:        genBytesField(t, "dh"),
		ConsensusHash:   genBytesField(t, "ch"),
		AppHash:         genBytesField(t, "ah"),
		LastResultsHash: genBytesField(t, "lrh"),
		ValidatorHash:   genBytesField(t, "vh"),
		ProposerAddress: genBytesField(t, "pa"),
	}
}

var keyLabels = []string{proposerLabel, "c12-other", "c12-third"}

// genSigned draws signer and signature; wellFormed yields a proposer-signed, address-bound value.
func genSigned(t *rapid.T) (SignerSpec, SigSpec, bool) {
	shape := rapid.IntRange(0, 9).Draw(t, "signshape")
	if shape <= 3 {
		kt := "ed25519"
		if rapid.IntRange(0, 4).Draw(t, "secp") == 0 {
			kt = "secp256k1"
		}
		return SignerSpec{Mode: "key", Key: proposerLabel, KeyType: kt, AddrMode: "derived"}, SigSpec{Mode: "valid"}, true
	}
	var sg SignerSpec
	switch rapid.IntRange(0, 5).Draw(t, "signer") {
	case 0:
		sg.Mode = "none"
	case 1:
		sg.Mode = "addr-only"
		sg.Addr = genBytesField(t, "addr")
	default:
		sg.Mode = "key"
		sg.Key = rapid.SampledFrom(keyLabels).Draw(t, "key")
		sg.KeyType = rapid.SampledFrom([]string{"ed25519", "ed25519", "secp256k1"}).Draw(t, "keytype")
		if rapid.Bool().Draw(t, "derived") {
			sg.AddrMode = "derived"
		} else {
			sg.AddrMode = "bytes"
			sg.Addr = genBytesField(t, "addr")
		}
	}
	var sig SigSpec
	if sg.Mode == "key" && rapid.Bool().Draw(t, "validsig") {
		sig.Mode = "valid"
	} else {
		sig.Mode = "bytes"
		switch rapid.IntRange(0, 3).Draw(t, "sigshape") {
		case 0:
			sig.Bytes = nil
		case 1:
			sig.Bytes = []byte{}
		case 2:
			sig.Bytes = rapid.SliceOfN(rapid.Byte(), 64, 64).Draw(t, "sig")
		default:
			sig.Bytes = genBytesField(t, "sig")
		}
	}
	return sg, sig, rapid.Bool().Draw(t, "bind")
}

func genSignedHeaderSpec(t *rapid.T) SignedHeaderSpec {
	h := genHeaderSpec(t)
	sg, sig, bind := genSigned(t)
	return SignedHeaderSpec{Header: h, Signer: sg, Sig: sig, BindProposer: bind}
}

func genMetaSpec(t *rapid.T) MetaSpec {
	return MetaSpec{ChainID: genChainID(t, "mchain"), Height: genU64(t, "mheight"), Time: genU64(t, "mtime"), LastDataHash: genBytesField(t, "ldh")}
}

func genTx(t *rapid.T) []byte {
	switch rapid.IntRange(0, 9).Draw(t, "tx?") {
	case 0:
		return nil
	case 1:
		return []byte{}
	case 2:
		seed := rapid.SliceOfN(rapid.Byte(), 4, 4).Draw(t, "txseed")
		return bytes.Repeat(seed, 250)
	case 3:
		return []byte(rapid.SampledFrom([]string{"a", "b", "dup", "dup"}).Draw(t, "smalltx"))
	default:
		return rapid.SliceOfN(rapid.Byte(), 1, 24).Draw(t, "tx")
	}
}

func genTxs(t *rapid.T) [][]byte {
	var n int
	switch rapid.IntRange(0, 9).Draw(t, "ntx?") {
	case 0:
		return nil
	case 1:
		return [][]byte{}
	case 2:
		n = 1
	case 3:
		n = rapid.IntRange(6, world.Scale(60, 200)).Draw(t, "ntxbig")
	case 4:
		if world.Thorough() || rapid.IntRange(0, 9).Draw(t, "200?") == 0 {
			n = 200
		} else {
			n = 3
		}
	default:
		n = rapid.IntRange(2, 5).Draw(t, "ntx")
	}
	out := make([][]byte, n)
	for i := range out {
		out[i] = genTx(t)
	}
	return out
}

func genDataSpec(t *rapid.T) DataSpec {
	d := DataSpec{Txs: genTxs(t)}
	if len(d.Txs) > 0 && len(d.Txs) <= 5 && rapid.Uint64().Draw(t, "many?")%uint64(world.Scale(600, 250)) == 97 { // (a full-width draw: IntRange favours its bounds)
		// a block of small transactions: more of them than fit 16 bits
		d.Many = rapid.SampledFrom([]int{65535, 65536, 65537, 70001, 131073}).Draw(t, "many")
	}
	if rapid.IntRange(0, 3).Draw(t, "meta?") != 0 {
		d.HasMeta = true
		d.Meta = genMetaSpec(t)
	}
	return d
}

func genSignedDataSpec(t *rapid.T) SignedDataSpec {
	d := genDataSpec(t)
	sg, sig, _ := genSigned(t)
	return SignedDataSpec{Data: d, Signer: sg, Sig: sig}
}

func genStateSpec(t *rapid.T) StateSpec {
	s := StateSpec{
		VBlock: genU64(t, "vblock"), VApp: genU64(t, "vapp"), ChainID: genChainID(t, "chain"),
		InitialHeight: genU64(t, "ih"), LastBlockHeight: genU64(t, "lbh"), DAHeight: genU64(t, "dah"),
		LastResultsHash: genBytesField(t, "lrh"), AppHash: genBytesField(t, "ah"),
	}
	switch rapid.IntRange(0, 5).Draw(t, "time?") {
	case 0:
		s.TimeMode = "zero"
	case 1, 2:
		s.TimeMode = "nanos"
		if rapid.Bool().Draw(t, "tnow") {
			s.Nanos = 1_700_000_000_000_000_000 + uint64(rapid.IntRange(0, 2_000_000_000).Draw(t, "tn"))
		} else {
			s.Nanos = genU64(t, "nanos")
		}
	default:
		s.TimeMode = "secs"
		// years 1 .. 9999 (what RFC 3339 genesis files can carry), sub-second part arbitrary
		s.Sec = rapid.Int64Range(-62135596800, 253402300799).Draw(t, "sec")
		if rapid.IntRange(0, 3).Draw(t, "epoch") == 0 {
			s.Sec = rapid.SampledFrom([]int64{0, 1, -1, 1_700_000_000}).Draw(t, "secx")
		}
		s.Nsec = rapid.SampledFrom([]int64{0, 1, 999_999_999, 500_000_000, 123_456_789}).Draw(t, "nsec")
	}
	s.Local = rapid.IntRange(0, 3).Draw(t, "local") == 0
	return s
}

func genCursorSpec(t *rapid.T) CursorSpec {
	switch rapid.IntRange(0, 7).Draw(t, "cshape") {
	case 0:
		return CursorSpec{Entries: nil}
	case 1:
		return CursorSpec{Entries: [][]byte{}}
	case 2:
		// one large entry: longer than any 16-bit length prefix could carry
		seed := rapid.SliceOfN(rapid.Byte(), 8, 8).Draw(t, "bigseed")
		n := rapid.SampledFrom([]int{65535, 65536, 70000, 1 << 17}).Draw(t, "biglen")
		return CursorSpec{Entries: [][]byte{bytes.Repeat(seed, n/8+1)[:n]}}
	}
	n := rapid.IntRange(1, 8).Draw(t, "n")
	out := make([][]byte, n)
	for i := range out {
		out[i] = genBytesField(t, "entry")
	}
	return CursorSpec{Entries: out}
}

func genValue(kind string) func(t *rapid.T) ValueScenario {
	return func(t *rapid.T) ValueScenario {
		sc := ValueScenario{Kind: kind}
		switch kind {
		case kHeader:
			s := genHeaderSpec(t)
			sc.Header = &s
		case kSignedHeader:
			s := genSignedHeaderSpec(t)
			sc.SignedHeader = &s
		case kData:
			s := genDataSpec(t)
			sc.Data = &s
		case kSignedData:
			s := genSignedDataSpec(t)
			sc.SignedData = &s
		case kMetadata:
			s := genMetaSpec(t)
			sc.Metadata = &s
		case kState:
			s := genStateSpec(t)
			sc.State = &s
		case kCursor:
			s := genCursorSpec(t)
			sc.Cursor = &s
		}
		return sc
	}
}

// ---------------------------------------------------------------------------------------------
// measured non-triviality: >= 1 empty-but-non-nil field (nil/empty identification matters),
// >= 1 extreme integer (>= 2^63), or >= 2 txs / entries

type ntCount struct {
	emptyNonNil int
	extremeInt  int
	multi       bool
	badUTF8     bool
}

func (c *ntCount) b(fs ...[]byte) {
	for _, f := range fs {
		if f != nil && len(f) == 0 {
			c.emptyNonNil++
		}
	}
}

func (c *ntCount) u(vs ...uint64) {
	for _, v := range vs {
		if v >= 1<<63 {
			c.extremeInt++
		}
	}
}

func (c *ntCount) s(ids ...[]byte) {
	for _, id := range ids {
		if !utf8.Valid(id) {
			c.badUTF8 = true
		}
	}
}

func (c *ntCount) header(h *HeaderSpec) {
	c.b(h.LastHeaderHash, h.LastCommitHash, h.DataHash, h.ConsensusHash, h.AppHash, h.LastResultsHash, h.ValidatorHash, h.ProposerAddress)
	c.u(h.VBlock, h.VApp, h.Height, h.Time)
	c.s(h.ChainID)
}

func (c *ntCount) data(d *DataSpec) {
	if d.HasMeta {
		c.b(d.Meta.LastDataHash)
		c.u(d.Meta.Height, d.Meta.Time)
		c.s(d.Meta.ChainID)
	}
	if d.Txs != nil && len(d.Txs) == 0 {
		c.emptyNonNil++
	}
	for _, tx := range d.Txs {
		c.b(tx)
	}
	if len(d.Txs) >= 2 {
		c.multi = true
	}
}

func (c *ntCount) nontrivial() bool { return c.emptyNonNil > 0 || c.extremeInt > 0 || c.multi }

func (c *ntCount) labels() []string {
	var ls []string
	if c.emptyNonNil > 0 {
		ls = append(ls, "has-empty-non-nil-field")
	}
	if c.extremeInt > 0 {
		ls = append(ls, "has-extreme-int")
	}
	if c.multi {
		ls = append(ls, "multi-tx-or-entry")
	}
	return ls
}

func countNT(sc ValueScenario) *ntCount {
	c := &ntCount{}
	switch sc.Kind {
	case kHeader:
		c.header(sc.Header)
	case kSignedHeader:
		c.header(&sc.SignedHeader.Header)
		c.b(sc.SignedHeader.Sig.Bytes, sc.SignedHeader.Signer.Addr)
	case kData:
		c.data(sc.Data)
	case kSignedData:
		c.data(&sc.SignedData.Data)
		c.b(sc.SignedData.Sig.Bytes, sc.SignedData.Signer.Addr)
	case kMetadata:
		c.b(sc.Metadata.LastDataHash)
		c.u(sc.Metadata.Height, sc.Metadata.Time)
		c.s(sc.Metadata.ChainID)
	case kState:
		s := sc.State
		c.b(s.LastResultsHash, s.AppHash)
		c.u(s.VBlock, s.VApp, s.InitialHeight, s.LastBlockHeight, s.DAHeight)
		c.s(s.ChainID)
	case kCursor:
		if sc.Cursor.Entries != nil && len(sc.Cursor.Entries) == 0 {
			c.emptyNonNil++
		}
		c.b(sc.Cursor.Entries...)
		if len(sc.Cursor.Entries) >= 2 {
			c.multi = true
		}
	}
	return c
}

func (sc ValueScenario) valid() error {
	var ok bool
	switch sc.Kind {
	case kHeader:
		ok = sc.Header != nil
	case kSignedHeader:
		ok = sc.SignedHeader != nil
	case kData:
		ok = sc.Data != nil
	case kSignedData:
		ok = sc.SignedData != nil
	case kMetadata:
		ok = sc.Metadata != nil
	case kState:
		ok = sc.State != nil
	case kCursor:
		ok = sc.Cursor != nil
	}
	if !ok {
		return fmt.Errorf("malformed scenario of kind %q", sc.Kind)
	}
	return nil
}
