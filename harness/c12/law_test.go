package c12

import (
	"bytes"
	"testing"

	"pgregory.net/rapid"

	"github.com/evstack/ev-node/types"

	"verif/harness/world"
)

// LawScenario: the data commitment depends on the ordered transaction list only.
type LawScenario struct {
	Data    DataSpec  `json:"data"`
	AltMeta *MetaSpec `json:"alt_meta"` // nil: the variant has no metadata at all
	Swap    int       `json:"swap"`     // swap txs[Swap], txs[Swap+1] (taken modulo)
	Edit    string    `json:"edit"`     // drop | append | flip | split | merge | empty-vs-absent
	EditIdx int       `json:"edit_idx"`
	EditArg []byte    `json:"edit_arg"`
}

func genLaw(t *rapid.T) LawScenario {
	sc := LawScenario{Data: genDataSpec(t)}
	if rapid.IntRange(0, 2).Draw(t, "altmeta?") != 0 {
		m := genMetaSpec(t)
		sc.AltMeta = &m
	}
	sc.Swap = rapid.IntRange(0, 250).Draw(t, "swap")
	sc.Edit = rapid.SampledFrom([]string{"drop", "append", "flip", "split", "merge", "empty-vs-absent"}).Draw(t, "edit")
	sc.EditIdx = rapid.IntRange(0, 250).Draw(t, "editidx")
	sc.EditArg = genTx(t)
	return sc
}

func sameTxs(a, b types.Txs) bool {
	if len(a) != len(b) {
		return false
	}
	for i := range a {
		if !bytes.Equal(a[i], b[i]) {
			return false
		}
	}
	return true
}

func runLaw(sc LawScenario) (v world.Verdict) {
	defer func() {
		if r := recover(); r != nil {
			v = world.Fail("C12/law/panic", "commitment computation panicked: %v", r)
		}
	}()
	d := sc.Data.Build()
	if _, ok := refData(d); !ok {
		// metadata that cannot be encoded: the commitment must still only see the txs
		if !bytes.Equal(d.DACommitment(), refCommitment(d.Txs)) {
			return world.Fail("C12/law/metadata-affects-commitment", "commitment of data with unencodable metadata differs from the commitment of its tx list")
		}
		return world.OK(false, "unencodable-metadata")
	}
	com := d.DACommitment()
	labels := []string{}
	// 1. any metadata change leaves it alone
	alt := &types.Data{Txs: d.Txs}
	if sc.AltMeta != nil {
		alt.Metadata = sc.AltMeta.Build()
	}
	if !bytes.Equal(alt.DACommitment(), com) {
		return world.Fail("C12/law/metadata-affects-commitment", "commitment %x changes to %x when only the metadata changes", []byte(com), []byte(alt.DACommitment()))
	}
	if !bytes.Equal((&types.Data{Txs: d.Txs}).DACommitment(), com) {
		return world.Fail("C12/law/metadata-affects-commitment", "commitment differs from the commitment of the bare tx list")
	}
	// nil and empty tx lists / txs are the same list
	if len(d.Txs) == 0 {
		if !bytes.Equal((&types.Data{Txs: types.Txs{}}).DACommitment(), (&types.Data{}).DACommitment()) {
			return world.Fail("C12/law/nil-vs-empty-list", "nil and empty tx lists have different commitments")
		}
	}
	// 2. swapping two distinct adjacent txs changes it
	swapped := false
	if n := len(d.Txs); n >= 2 {
		i := sc.Swap % (n - 1)
		if !bytes.Equal(d.Txs[i], d.Txs[i+1]) {
			sw := append(types.Txs{}, d.Txs...)
			sw[i], sw[i+1] = sw[i+1], sw[i]
			if bytes.Equal((&types.Data{Metadata: d.Metadata, Txs: sw}).DACommitment(), com) {
				return world.Fail("C12/law/order-insensitive", "commitment unchanged after swapping distinct txs %d and %d", i, i+1)
			}
			swapped = true
			labels = append(labels, "swapped-distinct-adjacent")
		} else {
			labels = append(labels, "adjacent-equal(no swap)")
		}
	}
	// 3. any other change of the list changes it
	ed := append(types.Txs{}, d.Txs...)
	n := len(ed)
	switch sc.Edit {
	case "drop":
		if n > 0 {
			i := sc.EditIdx % n
			ed = append(ed[:i:i], ed[i+1:]...)
		}
	case "append":
		ed = append(ed, types.Tx(cp(sc.EditArg)))
	case "flip":
		if n > 0 {
			i := sc.EditIdx % n
			if len(ed[i]) > 0 {
				c := cp(ed[i])
				c[sc.EditIdx%len(c)] ^= 0x01
				ed[i] = c
			}
		}
	case "split":
		if n > 0 {
			i := sc.EditIdx % n
			if len(ed[i]) >= 2 {
				k := 1 + sc.EditIdx%(len(ed[i])-1)
				a, b := cp(ed[i][:k]), cp(ed[i][k:])
				ed = append(append(append(types.Txs{}, ed[:i]...), a, b), ed[i+1:]...)
			}
		}
	case "merge":
		if n >= 2 {
			i := sc.EditIdx % (n - 1)
			m := append(cp(ed[i]), ed[i+1]...)
			ed = append(append(append(types.Txs{}, ed[:i]...), m), ed[i+2:]...)
		}
	case "empty-vs-absent":
		// a list with one empty tx is not the empty list
		ed = append(ed, types.Tx{})
	}
	if !sameTxs(ed, d.Txs) {
		labels = append(labels, "edit:"+sc.Edit)
		if bytes.Equal((&types.Data{Metadata: d.Metadata, Txs: ed}).DACommitment(), com) {
			return world.Fail("C12/law/edit-insensitive:"+sc.Edit, "commitment unchanged after the tx list changed (%s): %d txs -> %d txs", sc.Edit, len(d.Txs), len(ed))
		}
	}
	if d.Metadata != nil || sc.AltMeta != nil {
		labels = append(labels, "metadata-varied")
	}
	return world.OK(swapped && (d.Metadata != nil || sc.AltMeta != nil), labels...)
}

func TestC12CommitmentLaw(t *testing.T) {
	world.Run(t, "C12", "commitment-law", world.Scale(2000, 20000), genLaw, runLaw)
}
