package c12

import (
	"bytes"
	"encoding/hex"
	"encoding/json"
	"fmt"
	"math"
	"os"
	"path/filepath"
	"testing"

	"google.golang.org/protobuf/proto"

	"github.com/evstack/ev-node/block"
	"github.com/evstack/ev-node/types"

	"verif/harness/world"
)

// Golden vectors: fixed values with the exact bytes, hashes and commitments the pinned tree
// produced when /verif/golden/c12_vectors.json was generated (VERIF_GOLDEN_WRITE=1, fixed keys
// from world.KeyFromSeed). They are compared on every run.

type GoldenVector struct {
	Name        string        `json:"name"`
	Value       ValueScenario `json:"value"`
	Bytes       string        `json:"bytes,omitempty"`        // hex of the encoding (short encodings)
	BytesSHA256 string        `json:"bytes_sha256,omitempty"` // sha256 of the encoding (long encodings)
	Len         int           `json:"len"`
	Hash        string        `json:"hash,omitempty"`       // Hash() (header, signed header, data, signed data)
	Commitment  string        `json:"commitment,omitempty"` // DACommitment() (data, signed data)
	Const       string        `json:"const,omitempty"`      // for kind "const": the empty-block data hash constant
}

const kConst = "const"

func goldenPath() string {
	root := os.Getenv("VERIF_ROOT")
	if root == "" {
		root = "/verif"
	}
	return filepath.Join(root, "golden", "c12_vectors.json")
}

func pat(tag byte, n int) []byte {
	out := make([]byte, n)
	for i := range out {
		out[i] = tag + byte(i)
	}
	return out
}

// goldenValues is the fixed, ordered list of values (one-hot per field, full, extreme, empty).
func goldenValues() []ValueScenario {
	var out []ValueScenario
	addH := func(h HeaderSpec) { c := h; out = append(out, ValueScenario{Kind: kHeader, Header: &c}) }
	full := HeaderSpec{VBlock: 11, VApp: 2, Height: 42, Time: 1_700_000_000_123_456_789, ChainID: []byte("golden-chain"),
		LastHeaderHash: pat(0x10, 32), LastCommitHash: pat(0x20, 32), DataHash: pat(0x30, 32), ConsensusHash: pat(0x40, 32),
		AppHash: pat(0x50, 32), LastResultsHash: pat(0x60, 32), ValidatorHash: pat(0x70, 32), ProposerAddress: pat(0x80, 32)}
	addH(HeaderSpec{})
	addH(full)
	addH(HeaderSpec{VBlock: 1})
	addH(HeaderSpec{VApp: 1})
	addH(HeaderSpec{Height: 1})
	addH(HeaderSpec{Time: 1})
	addH(HeaderSpec{ChainID: []byte("c")})
	addH(HeaderSpec{LastHeaderHash: []byte{1}})
	addH(HeaderSpec{LastCommitHash: []byte{1}})
	addH(HeaderSpec{DataHash: []byte{1}})
	addH(HeaderSpec{ConsensusHash: []byte{1}})
	addH(HeaderSpec{AppHash: []byte{1}})
	addH(HeaderSpec{LastResultsHash: []byte{1}})
	addH(HeaderSpec{ValidatorHash: []byte{1}})
	addH(HeaderSpec{ProposerAddress: []byte{1}})
	addH(HeaderSpec{VBlock: math.MaxUint64, VApp: 1 << 63, Height: math.MaxUint64, Time: math.MaxUint64, ChainID: []byte("évnode-链-\U0001F680"),
		LastHeaderHash: []byte{}, AppHash: pat(0, 1000)})

	addSH := func(s SignedHeaderSpec) {
		c := s
		out = append(out, ValueScenario{Kind: kSignedHeader, SignedHeader: &c})
	}
	prop := SignerSpec{Mode: "key", Key: proposerLabel, KeyType: "ed25519", AddrMode: "derived"}
	addSH(SignedHeaderSpec{})
	addSH(SignedHeaderSpec{Header: full, Signer: prop, Sig: SigSpec{Mode: "valid"}, BindProposer: true})
	addSH(SignedHeaderSpec{Header: full, Signer: SignerSpec{Mode: "none"}, Sig: SigSpec{Mode: "bytes", Bytes: pat(0x90, 64)}})
	addSH(SignedHeaderSpec{Header: full, Signer: SignerSpec{Mode: "addr-only", Addr: pat(0xa0, 20)}, Sig: SigSpec{Mode: "bytes", Bytes: []byte{}}})
	addSH(SignedHeaderSpec{Header: HeaderSpec{Height: 1}, Signer: SignerSpec{Mode: "key", Key: "c12-other", KeyType: "secp256k1", AddrMode: "bytes", Addr: []byte("addr")}, Sig: SigSpec{Mode: "bytes", Bytes: []byte{7}}})
	addSH(SignedHeaderSpec{Header: HeaderSpec{Height: 2}, Signer: SignerSpec{Mode: "key", Key: "c12-other", KeyType: "ed25519", AddrMode: "bytes", Addr: nil}, Sig: SigSpec{Mode: "valid"}})

	addD := func(d DataSpec) { c := d; out = append(out, ValueScenario{Kind: kData, Data: &c}) }
	meta := MetaSpec{ChainID: []byte("golden-chain"), Height: 42, Time: 1_700_000_000_123_456_789, LastDataHash: pat(0xb0, 32)}
	many := make([][]byte, 200)
	for i := range many {
		many[i] = []byte(fmt.Sprintf("tx-%03d", i))
	}
	many[17] = []byte{}
	addD(DataSpec{})
	addD(DataSpec{Txs: [][]byte{}})
	addD(DataSpec{HasMeta: true})
	addD(DataSpec{HasMeta: true, Meta: meta})
	addD(DataSpec{HasMeta: true, Meta: MetaSpec{ChainID: []byte("c")}})
	addD(DataSpec{HasMeta: true, Meta: MetaSpec{Height: 1}})
	addD(DataSpec{HasMeta: true, Meta: MetaSpec{Time: 1}})
	addD(DataSpec{HasMeta: true, Meta: MetaSpec{LastDataHash: []byte{1}}})
	addD(DataSpec{Txs: [][]byte{{}}})
	addD(DataSpec{Txs: [][]byte{[]byte("a")}})
	addD(DataSpec{Txs: [][]byte{[]byte("a"), []byte("b")}})
	addD(DataSpec{Txs: [][]byte{[]byte("b"), []byte("a")}})
	addD(DataSpec{Txs: [][]byte{[]byte("ab")}})
	addD(DataSpec{HasMeta: true, Meta: meta, Txs: [][]byte{[]byte("a"), []byte("b")}})
	addD(DataSpec{HasMeta: true, Meta: meta, Txs: many})
	addD(DataSpec{HasMeta: true, Meta: MetaSpec{Height: math.MaxUint64, Time: 1 << 63}, Txs: [][]byte{pat(0, 1000)}})

	addSD := func(s SignedDataSpec) { c := s; out = append(out, ValueScenario{Kind: kSignedData, SignedData: &c}) }
	addSD(SignedDataSpec{})
	addSD(SignedDataSpec{Data: DataSpec{HasMeta: true, Meta: meta, Txs: [][]byte{[]byte("a"), []byte("b")}}, Signer: prop, Sig: SigSpec{Mode: "valid"}})
	addSD(SignedDataSpec{Data: DataSpec{Txs: [][]byte{[]byte("a")}}, Signer: SignerSpec{Mode: "none"}, Sig: SigSpec{Mode: "bytes", Bytes: pat(0xc0, 64)}})
	addSD(SignedDataSpec{Data: DataSpec{HasMeta: true, Meta: meta}, Signer: SignerSpec{Mode: "addr-only", Addr: pat(0xa0, 20)}, Sig: SigSpec{Mode: "bytes"}})
	addSD(SignedDataSpec{Data: DataSpec{Txs: [][]byte{[]byte("x")}}, Signer: SignerSpec{Mode: "key", Key: "c12-other", KeyType: "secp256k1", AddrMode: "derived"}, Sig: SigSpec{Mode: "bytes", Bytes: []byte{7}}})

	addM := func(m MetaSpec) { c := m; out = append(out, ValueScenario{Kind: kMetadata, Metadata: &c}) }
	addM(MetaSpec{})
	addM(meta)
	addM(MetaSpec{ChainID: []byte("c")})
	addM(MetaSpec{Height: 1})
	addM(MetaSpec{Time: 1})
	addM(MetaSpec{LastDataHash: []byte{1}})
	addM(MetaSpec{Height: math.MaxUint64, Time: math.MaxUint64, LastDataHash: pat(0, 1000)})

	addS := func(s StateSpec) { c := s; out = append(out, ValueScenario{Kind: kState, State: &c}) }
	fullS := StateSpec{VBlock: 11, VApp: 2, ChainID: []byte("golden-chain"), InitialHeight: 1, LastBlockHeight: 42, DAHeight: 7,
		TimeMode: "nanos", Nanos: 1_700_000_000_123_456_789, LastResultsHash: pat(0xd0, 32), AppHash: pat(0xe0, 32)}
	addS(StateSpec{TimeMode: "zero"})
	addS(fullS)
	addS(StateSpec{TimeMode: "secs"}) // the Unix epoch
	addS(StateSpec{TimeMode: "secs", Sec: 1})
	addS(StateSpec{TimeMode: "secs", Nsec: 1})
	addS(StateSpec{TimeMode: "secs", Sec: -1, Nsec: 999_999_999})
	addS(StateSpec{TimeMode: "secs", Sec: 253402300799, Nsec: 999_999_999, Local: true})
	addS(StateSpec{TimeMode: "zero", VBlock: 1})
	addS(StateSpec{TimeMode: "zero", VApp: 1})
	addS(StateSpec{TimeMode: "zero", ChainID: []byte("c")})
	addS(StateSpec{TimeMode: "zero", InitialHeight: 1})
	addS(StateSpec{TimeMode: "zero", LastBlockHeight: 1})
	addS(StateSpec{TimeMode: "zero", DAHeight: 1})
	addS(StateSpec{TimeMode: "zero", LastResultsHash: []byte{1}})
	addS(StateSpec{TimeMode: "zero", AppHash: []byte{1}})
	addS(StateSpec{TimeMode: "nanos", Nanos: math.MaxUint64, VBlock: math.MaxUint64, InitialHeight: math.MaxUint64, LastBlockHeight: 1 << 63, DAHeight: math.MaxUint64})

	addC := func(e [][]byte) { out = append(out, ValueScenario{Kind: kCursor, Cursor: &CursorSpec{Entries: e}}) }
	addC(nil)
	addC([][]byte{})
	addC([][]byte{{}})
	addC([][]byte{[]byte("a")})
	addC([][]byte{[]byte("a"), []byte("bc")})
	addC([][]byte{{}, []byte("a"), {}})
	addC([][]byte{pat(0, 300)})
	addC([][]byte{pat(0, 66000), []byte("tail")})

	out = append(out, ValueScenario{Kind: kConst})
	return out
}

// computeGolden encodes a value with the code under test.
func computeGolden(sc ValueScenario) (enc, hash, com []byte, err error) {
	switch sc.Kind {
	case kHeader:
		h := sc.Header.Build()
		enc, err = h.MarshalBinary()
		hash = h.Hash()
	case kSignedHeader:
		sh := sc.SignedHeader.Build()
		enc, err = sh.MarshalBinary()
		hash = sh.Hash()
	case kData:
		d := sc.Data.Build()
		enc, err = d.MarshalBinary()
		hash, com = d.Hash(), d.DACommitment()
	case kSignedData:
		sd := sc.SignedData.Build()
		enc, err = sd.MarshalBinary()
		hash, com = sd.Hash(), sd.DACommitment()
	case kMetadata:
		enc, err = sc.Metadata.Build().MarshalBinary()
	case kState:
		s := sc.State.Build()
		p, e := s.ToProto()
		if e != nil {
			return nil, nil, nil, e
		}
		enc, err = proto.Marshal(p)
	case kCursor:
		enc = block.VerifBatchDataToBytes(sc.Cursor.Build())
	case kConst:
		enc = block.VerifDataHashForEmptyTxs()
	default:
		err = fmt.Errorf("unknown kind %q", sc.Kind)
	}
	return
}

func makeVector(i int, sc ValueScenario) (GoldenVector, error) {
	enc, hash, com, err := computeGolden(sc)
	if err != nil {
		return GoldenVector{}, err
	}
	gv := GoldenVector{Name: fmt.Sprintf("%03d-%s", i, sc.Kind), Value: sc, Len: len(enc)}
	if sc.Kind == kConst {
		gv.Const = hex.EncodeToString(enc)
		return gv, nil
	}
	if len(enc) <= 2048 {
		gv.Bytes = hex.EncodeToString(enc)
	} else {
		gv.BytesSHA256 = hex.EncodeToString(sha(enc))
	}
	if hash != nil {
		gv.Hash = hex.EncodeToString(hash)
	}
	if com != nil {
		gv.Commitment = hex.EncodeToString(com)
	}
	return gv, nil
}

func runGolden(gv GoldenVector) (v world.Verdict) {
	defer func() {
		if r := recover(); r != nil {
			v = world.Fail("C12/golden/"+gv.Value.Kind+"/panic", "golden vector %s panicked: %v", gv.Name, r)
		}
	}()
	kind := gv.Value.Kind
	if kind != kConst {
		if err := gv.Value.valid(); err != nil {
			return world.Verdict{Excluded: true}
		}
	}
	enc, hash, com, err := computeGolden(gv.Value)
	if err != nil {
		return world.Fail("C12/golden/"+kind+"/encode-error", "golden vector %s no longer encodes: %v", gv.Name, err)
	}
	if kind == kConst {
		if hex.EncodeToString(enc) != gv.Const {
			return world.Fail("C12/golden/const/empty-data-hash-changed", "the empty-block data hash constant is %x, it was %s", enc, gv.Const)
		}
		if !bytes.Equal(enc, (&types.Data{}).DACommitment()) {
			return world.Fail("C12/golden/const/empty-data-hash-not-commitment", "the empty-block data hash constant %x is not the commitment of an empty tx list %x", enc, []byte((&types.Data{}).DACommitment()))
		}
		return world.OK(true, "kind:const")
	}
	if len(enc) != gv.Len || (gv.Bytes != "" && hex.EncodeToString(enc) != gv.Bytes) || (gv.BytesSHA256 != "" && hex.EncodeToString(sha(enc)) != gv.BytesSHA256) {
		return world.Fail("C12/golden/"+kind+"/bytes-changed", "golden vector %s: encoding changed\n now %x\n was %s (len %d)", gv.Name, clip(enc), gv.Bytes, gv.Len)
	}
	if gv.Hash != hex.EncodeToString(hash) {
		return world.Fail("C12/golden/"+kind+"/hash-changed", "golden vector %s: Hash() is %x, it was %s", gv.Name, hash, gv.Hash)
	}
	if gv.Commitment != hex.EncodeToString(com) {
		return world.Fail("C12/golden/"+kind+"/commitment-changed", "golden vector %s: DACommitment() is %x, it was %s", gv.Name, com, gv.Commitment)
	}
	// the recorded bytes still decode to the value (short vectors carry the bytes)
	if gv.Bytes != "" {
		old, _ := hex.DecodeString(gv.Bytes)
		if d, err := decodeDiff(gv.Value, old); err != nil || d != "" {
			return world.Fail("C12/golden/"+kind+"/old-bytes-decode-differently", "golden vector %s: the recorded bytes decode to a different value (%s, %v)", gv.Name, d, err)
		}
	}
	return world.OK(true, "kind:"+kind)
}

// decodeDiff decodes b as the kind of sc and compares with the value sc describes.
func decodeDiff(sc ValueScenario, b []byte) (string, error) {
	switch sc.Kind {
	case kHeader:
		want := sc.Header.Build()
		got := new(types.Header)
		if err := got.UnmarshalBinary(b); err != nil {
			return "", err
		}
		return diffHeader(&want, got), nil
	case kSignedHeader:
		got := new(types.SignedHeader)
		if err := got.UnmarshalBinary(b); err != nil {
			return "", err
		}
		return diffSignedHeader(sc.SignedHeader.Build(), got), nil
	case kData:
		got := new(types.Data)
		if err := got.UnmarshalBinary(b); err != nil {
			return "", err
		}
		return diffData(sc.Data.Build(), got), nil
	case kSignedData:
		got := new(types.SignedData)
		if err := got.UnmarshalBinary(b); err != nil {
			return "", err
		}
		return diffSignedData(sc.SignedData.Build(), got), nil
	case kMetadata:
		got := new(types.Metadata)
		if err := got.UnmarshalBinary(b); err != nil {
			return "", err
		}
		return diffMeta(sc.Metadata.Build(), got), nil
	case kState:
		got, err := decState(b)
		if err != nil {
			return "", err
		}
		want := sc.State.Build()
		return diffState(&want, got), nil
	case kCursor:
		got, err := block.VerifBytesToBatchData(b)
		if err != nil {
			return "", err
		}
		return diffCursor(sc.Cursor.Build(), got), nil
	}
	return "", fmt.Errorf("unknown kind")
}

func TestC12Golden(t *testing.T) {
	vals := goldenValues()
	if os.Getenv("VERIF_GOLDEN_WRITE") == "1" {
		var vs []GoldenVector
		for i, sc := range vals {
			gv, err := makeVector(i, sc)
			if err != nil {
				t.Fatalf("vector %d: %v", i, err)
			}
			vs = append(vs, gv)
		}
		b, _ := json.MarshalIndent(vs, "", " ")
		if err := os.MkdirAll(filepath.Dir(goldenPath()), 0o755); err != nil {
			t.Fatal(err)
		}
		if err := os.WriteFile(goldenPath(), append(b, '\n'), 0o644); err != nil {
			t.Fatal(err)
		}
		t.Logf("wrote %d golden vectors to %s", len(vs), goldenPath())
		return
	}
	b, err := os.ReadFile(goldenPath())
	if err != nil {
		t.Fatalf("golden vectors missing (%v); generate them once with VERIF_GOLDEN_WRITE=1", err)
	}
	var vs []GoldenVector
	if err := json.Unmarshal(b, &vs); err != nil {
		t.Fatalf("golden vectors unreadable: %v", err)
	}
	if len(vs) != len(vals) {
		t.Fatalf("golden file has %d vectors, the fixed value list has %d", len(vs), len(vals))
	}
	// the file's values must be the fixed list (guards against a regenerated file that silently differs)
	for i := range vs {
		a, _ := json.Marshal(vs[i].Value)
		c, _ := json.Marshal(vals[i])
		if !bytes.Equal(a, c) {
			t.Fatalf("golden vector %d describes a different value than the fixed list", i)
		}
	}
	world.Enumerate(t, "C12", "golden", vs, true, runGolden)
}
