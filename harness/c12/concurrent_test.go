package c12

import (
	"bytes"
	"fmt"
	"sync"
	"testing"

	"pgregory.net/rapid"

	"verif/harness/world"
)

// ConcScenario: several unrelated values are hashed at the same time by different goroutines, as the
// retriever, the P2P handlers, the sync loop, the submitter and RPC readers of a running node do.
// "Hashes are stable" must not depend on who else is hashing.
type ConcScenario struct {
	Data    []DataSpec         `json:"data"`
	Headers []SignedHeaderSpec `json:"headers"`
	Reps    int                `json:"reps"`
}

func genConc(t *rapid.T) ConcScenario {
	sc := ConcScenario{Reps: rapid.IntRange(50, 400).Draw(t, "reps")}
	for n := rapid.IntRange(2, 6).Draw(t, "ndata"); n > 0; n-- {
		sc.Data = append(sc.Data, genDataSpec(t))
	}
	for n := rapid.IntRange(1, 4).Draw(t, "nhdr"); n > 0; n-- {
		sc.Headers = append(sc.Headers, genSignedHeaderSpec(t))
	}
	return sc
}

func runConc(sc ConcScenario) world.Verdict {
	type job struct {
		name string
		f    func() ([]byte, []byte)
		a, b []byte
	}
	jobs := []*job{}
	for i, s := range sc.Data {
		s := s
		// every goroutine works on its own private value (built from the spec): nothing is shared by the test
		j := &job{name: fmt.Sprintf("data[%d]", i), f: func() ([]byte, []byte) { d := s.Build(); return d.Hash(), d.DACommitment() }}
		jobs = append(jobs, j)
	}
	for i, s := range sc.Headers {
		s := s
		j := &job{name: fmt.Sprintf("header[%d]", i), f: func() ([]byte, []byte) { h := s.Build(); return h.Hash(), h.Header.Hash() }}
		jobs = append(jobs, j)
	}
	serial := func(j *job) (a, b []byte, pan any) {
		defer func() { pan = recover() }()
		a, b = j.f()
		return
	}
	for _, j := range jobs {
		var pan any
		if j.a, j.b, pan = serial(j); pan != nil {
			return world.Verdict{Excluded: true, Labels: []string{"conc:value-does-not-hash-serially"}}
		}
	}
	var mu sync.Mutex
	var problem string
	var wg sync.WaitGroup
	for _, j := range jobs {
		j := j
		wg.Add(1)
		go func() {
			defer wg.Done()
			for r := 0; r < sc.Reps; r++ {
				a, b, pan := serial(j)
				var msg string
				switch {
				case pan != nil:
					msg = fmt.Sprintf("hashing %s panicked while other values were being hashed concurrently: %v", j.name, pan)
				case !bytes.Equal(a, j.a) || !bytes.Equal(b, j.b):
					msg = fmt.Sprintf("%s hashed to %x / %x alone and to %x / %x while other values were being hashed concurrently", j.name, j.a, j.b, a, b)
				}
				if msg != "" {
					mu.Lock()
					if problem == "" {
						problem = msg
					}
					mu.Unlock()
					return
				}
			}
		}()
	}
	wg.Wait()
	if problem != "" {
		return world.Fail("C12/concurrent-hash-unstable", "%s", problem)
	}
	return world.OK(true, "conc:values-hashed-concurrently")
}

// TestC12ConcurrentHashing: hash stability when unrelated values are hashed by several goroutines at once.
func TestC12ConcurrentHashing(t *testing.T) {
	world.Run(t, "C12", "concurrent-hashing", world.Scale(60, 600), genConc, runConc)
}
