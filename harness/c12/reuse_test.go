package c12

import (
	"bytes"
	"testing"

	"pgregory.net/rapid"

	"github.com/evstack/ev-node/types"

	"verif/harness/world"
)

// ReuseScenario: headers are decoded one after the other INTO THE SAME RECEIVER (a decode loop with a
// reused variable), each decoded value being kept by value (appended to a slice, sent on a channel).
// A value that was decoded earlier must not change when a later one is decoded: "hashes are stable".
// Only Header and SignedHeader are judged: their decoders copy every byte field (Data keeps its
// metadata behind a pointer, which a struct copy shares by design).
type ReuseScenario struct {
	Headers []SignedHeaderSpec `json:"headers"`
}

func genReuse(t *rapid.T) ReuseScenario {
	var sc ReuseScenario
	for n := rapid.IntRange(2, 5).Draw(t, "n"); n > 0; n-- {
		sc.Headers = append(sc.Headers, genSignedHeaderSpec(t))
	}
	return sc
}

func runReuse(sc ReuseScenario) (v world.Verdict) {
	defer func() {
		if r := recover(); r != nil {
			v = world.Fail("C12/reuse/panic", "decoding into a reused receiver panicked: %v", r)
		}
	}()
	type kept struct {
		sh      types.SignedHeader
		h       types.Header
		shBytes []byte
		hBytes  []byte
		shHash  []byte
		hHash   []byte
	}
	var rsh types.SignedHeader
	var rh types.Header
	keep := []kept{}
	for _, spec := range sc.Headers {
		src := spec.Build()
		shb, err := src.MarshalBinary()
		if err != nil {
			continue // not encodable: nothing to decode
		}
		hb, err := src.Header.MarshalBinary()
		if err != nil {
			continue
		}
		if err := rsh.UnmarshalBinary(shb); err != nil {
			continue
		}
		if err := rh.UnmarshalBinary(hb); err != nil {
			continue
		}
		k := kept{sh: rsh, h: rh} // kept by value
		k.shBytes, _ = k.sh.MarshalBinary()
		k.hBytes, _ = k.h.MarshalBinary()
		k.shHash = append([]byte(nil), k.sh.Hash()...)
		k.hHash = append([]byte(nil), k.h.Hash()...)
		keep = append(keep, k)
		// every value kept so far must still be what it was
		for i, o := range keep {
			nb, _ := o.sh.MarshalBinary()
			if !bytes.Equal(nb, o.shBytes) || !bytes.Equal(o.sh.Hash(), o.shHash) {
				return world.Fail("C12/reuse/earlier-value-changed", "signed header %d (kept by value) changed when header %d was decoded into the same receiver: hash %x -> %x", i, len(keep)-1, o.shHash, o.sh.Hash())
			}
			nb, _ = o.h.MarshalBinary()
			if !bytes.Equal(nb, o.hBytes) || !bytes.Equal(o.h.Hash(), o.hHash) {
				return world.Fail("C12/reuse/earlier-value-changed", "header %d (kept by value) changed when header %d was decoded into the same receiver: hash %x -> %x", i, len(keep)-1, o.hHash, o.h.Hash())
			}
		}
	}
	return world.OK(len(keep) >= 2, "reuse:receiver-reused")
}

// TestC12ReceiverReuse: sequential decodes into one receiver do not disturb values decoded earlier.
func TestC12ReceiverReuse(t *testing.T) {
	world.Run(t, "C12", "receiver-reuse", world.Scale(150, 2000), genReuse, runReuse)
}
