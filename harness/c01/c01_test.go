// Package c01 decides C01: the sequencer node only ever commits a valid, hash-linked, signed
// chain, whatever the sequencing and execution layers answer, and is never left wedged.
package c01

import (
	"bytes"
	"context"
	"fmt"
	"testing"
	"time"

	"pgregory.net/rapid"

	"verif/harness/world"
)

type Step struct {
	Seq      world.SeqResp `json:"seq"`
	ExecFail bool          `json:"exec_fail,omitempty"`
}

type Scenario struct {
	InitialHeight uint64 `json:"initial_height"`
	Lazy          bool   `json:"lazy,omitempty"`
	Steps         []Step `json:"steps"`
}

var genesisTime = time.Unix(1_700_000_000, 0).UTC()

func genTx(t *rapid.T) []byte {
	switch rapid.IntRange(0, 9).Draw(t, "txshape") {
	case 0:
		return []byte{}
	case 1:
		return []byte(rapid.SampledFrom([]string{"a", "b", "dup", "dup"}).Draw(t, "smalltx"))
	case 2:
		n := rapid.IntRange(1000, world.Scale(4096, 65536)).Draw(t, "biglen")
		b := rapid.SliceOfN(rapid.Byte(), 8, 8).Draw(t, "bigseed")
		return bytes.Repeat(b, n/8)
	default:
		return rapid.SliceOfN(rapid.Byte(), 1, 48).Draw(t, "tx")
	}
}

func genDelta(t *rapid.T) int64 {
	switch rapid.IntRange(0, 7).Draw(t, "dshape") {
	case 0:
		return -int64(rapid.IntRange(1, 3_600_000_000_000).Draw(t, "negbig"))
	case 1:
		return -1
	case 2:
		return 0
	case 3:
		return 1
	default:
		return int64(rapid.IntRange(1_000_000, 5_000_000_000).Draw(t, "pos"))
	}
}

func genStep(t *rapid.T) Step {
	var s Step
	k := rapid.IntRange(0, 11).Draw(t, "kind")
	switch {
	case k == 0:
		s.Seq.Kind = "nilresp"
	case k == 1:
		s.Seq.Kind = "nilbatch"
	case k == 2:
		s.Seq.Kind = "error"
	case k <= 5:
		s.Seq.Kind = "empty"
	default:
		s.Seq.Kind = "txs"
		n := rapid.IntRange(1, 6).Draw(t, "ntx")
		for i := 0; i < n; i++ {
			s.Seq.Txs = append(s.Seq.Txs, genTx(t))
		}
	}
	s.Seq.DeltaNs = genDelta(t)
	if rapid.IntRange(0, 3).Draw(t, "bd") == 0 {
		s.Seq.BatchData = rapid.SliceOfN(rapid.SliceOfN(rapid.Byte(), 0, 12), 0, 3).Draw(t, "batchdata")
	}
	s.ExecFail = rapid.IntRange(0, 7).Draw(t, "execfail") == 0
	return s
}

func genScenario(t *rapid.T) Scenario {
	var sc Scenario
	switch rapid.IntRange(0, 5).Draw(t, "ih") {
	case 0, 1, 2:
		sc.InitialHeight = 1
	case 3, 4:
		sc.InitialHeight = uint64(rapid.IntRange(2, 5).Draw(t, "ihsmall"))
	default:
		sc.InitialHeight = 1<<32 + uint64(rapid.IntRange(0, 9).Draw(t, "ihbig"))
	}
	sc.Lazy = rapid.Bool().Draw(t, "lazy")
	n := rapid.IntRange(1, world.Scale(12, 40)).Draw(t, "nsteps")
	for i := 0; i < n; i++ {
		sc.Steps = append(sc.Steps, genStep(t))
	}
	return sc
}

// Producer is the producer world shared by the run and the epilogue.
type Producer struct {
	ctx   context.Context
	n     *world.Node
	exec  *world.ExecDbl
	seq   *world.SeqDbl
	txsOf map[uint64][][]byte
}

func (p *Producer) lastTime() time.Time {
	h, _ := p.n.Store.Height(p.ctx)
	if h >= p.n.Genesis.InitialHeight {
		if hdr, err := p.n.Store.GetHeader(p.ctx, h); err == nil {
			return hdr.Time()
		}
	}
	return p.n.Genesis.GenesisDAStartTime
}

func newProducer(sc Scenario, dir string) (*Producer, error) {
	ctx := context.Background()
	sgn, _, pub := world.SignerFromSeed("proposer")
	p := &Producer{ctx: ctx, exec: world.NewExecDbl("c01"), txsOf: map[uint64][][]byte{}}
	p.seq = world.NewSeqDbl(func() time.Time { return p.lastTime() })
	o := world.NodeOpts{ChainID: "c01-chain", InitialHeight: sc.InitialHeight, GenesisTime: genesisTime, Aggregator: true,
		Lazy: sc.Lazy, BlockTime: time.Second, DABlockTime: 2 * time.Second, LazyInterval: 10 * time.Second, RootDir: dir}
	n, err := world.NewNode(ctx, o, world.NewCrashDS(), sgn, pub, p.exec, p.seq, world.NewDADbl(0))
	if err != nil {
		return nil, err
	}
	p.n = n
	p.txsOf[sc.InitialHeight] = [][]byte{} // the pre-saved genesis block is built from no batch
	return p, nil
}

// step runs one production step and returns (height before, height after, error, panic value).
func (p *Producer) step(st Step) (before, after uint64, err error, pan any) {
	before, _ = p.n.Store.Height(p.ctx)
	_, _, perr := p.n.Store.GetBlockData(p.ctx, before+1)
	pendingExists := perr == nil
	ncalls := len(p.seq.Calls())
	p.seq.Push(st.Seq)
	if st.ExecFail {
		p.exec.FailNextExec(1)
	} else {
		p.exec.FailNextExec(0)
	}
	func() {
		defer func() {
			if r := recover(); r != nil {
				pan = r
			}
		}()
		err = p.n.M.VerifPublishBlock(p.ctx)
	}()
	after, _ = p.n.Store.Height(p.ctx)
	calls := p.seq.Calls()
	if !pendingExists && len(calls) > ncalls {
		r := calls[len(calls)-1].Resp
		if r.Kind == "empty" || r.Kind == "txs" {
			if _, _, e := p.n.Store.GetBlockData(p.ctx, before+1); e == nil {
				if _, seen := p.txsOf[before+1]; !seen {
					txs := r.Txs
					if r.Kind == "empty" {
						txs = [][]byte{}
					}
					p.txsOf[before+1] = txs
				}
			}
		}
	}
	// drop an unconsumed scripted response (the step did not ask the sequencing layer)
	if len(p.seq.Calls()) == ncalls {
		p.seq.Drain()
	}
	return
}

func (p *Producer) oracle(when string) *world.Problem {
	_, pr := world.CheckChain(p.ctx, p.n.Spec(p.exec.GenesisRoot(), func(h uint64) ([][]byte, bool) {
		t, ok := p.txsOf[h]
		return t, ok
	}, true))
	if pr != nil {
		pr.Msg = when + ": " + pr.Msg
		return pr
	}
	// broadcasters: exactly the committed header/data of each new height, once, in order
	height, _ := p.n.Store.Height(p.ctx)
	hp := p.n.HB.Payloads()
	dp := p.n.DB.Payloads()
	want := uint64(0)
	if height >= p.n.Genesis.InitialHeight {
		want = height - p.n.Genesis.InitialHeight + 1
	}
	if uint64(len(hp)) > want || uint64(len(dp)) > want {
		return &world.Problem{Sig: "C01/broadcast-count", Msg: fmt.Sprintf("%s: %d headers / %d data broadcast for %d committed blocks", when, len(hp), len(dp), want)}
	}
	for i, h := range hp {
		eh := p.n.Genesis.InitialHeight + uint64(i)
		sh, err := p.n.Store.GetHeader(p.ctx, eh)
		if err != nil || h.Height() != eh || !bytes.Equal(sh.Hash(), h.Hash()) {
			return &world.Problem{Sig: "C01/broadcast-header", Msg: fmt.Sprintf("%s: %d-th broadcast header is height %d hash %x, committed block %d differs", when, i, h.Height(), h.Hash(), eh)}
		}
	}
	for i, d := range dp {
		eh := p.n.Genesis.InitialHeight + uint64(i)
		_, sd, err := p.n.Store.GetBlockData(p.ctx, eh)
		if err != nil || d.Metadata == nil || d.Height() != eh || !bytes.Equal(sd.Hash(), d.Hash()) {
			return &world.Problem{Sig: "C01/broadcast-data", Msg: fmt.Sprintf("%s: %d-th broadcast data differs from committed data of block %d", when, i, eh)}
		}
	}
	// execution calls: heights never go backwards, and the last successful call for each committed
	// height carried the block's txs and the root before it
	last := uint64(0)
	byH := map[uint64]world.ExecCall{}
	for _, c := range p.exec.CallsOf("exec") {
		if c.Height < last {
			return &world.Problem{Sig: "C01/exec-order", Msg: fmt.Sprintf("%s: ExecuteTxs called for height %d after height %d", when, c.Height, last)}
		}
		last = c.Height
		if c.Err == "" {
			byH[c.Height] = c
		}
	}
	views, _ := world.CheckChain(p.ctx, p.n.Spec(p.exec.GenesisRoot(), nil, false))
	for _, v := range views {
		c, ok := byH[v.Height]
		if !ok {
			return &world.Problem{Sig: "C01/exec-missing", Msg: fmt.Sprintf("%s: block %d committed without a successful ExecuteTxs call", when, v.Height)}
		}
		if !world.EqTxs(c.Txs, v.Txs) || !bytes.Equal(c.Prev, v.AppHash) {
			return &world.Problem{Sig: "C01/exec-args", Msg: fmt.Sprintf("%s: ExecuteTxs for block %d was called with different txs or previous root", when, v.Height)}
		}
	}
	return nil
}

func run(sc Scenario, dir string) world.Verdict {
	p, err := newProducer(sc, dir)
	if err != nil {
		return world.Fail("C01/start", "NewManager failed on a fresh store: %v", err)
	}
	committed, empties, nonempties, bad := 0, 0, 0, 0
	labels := map[string]bool{}
	for i, st := range sc.Steps {
		before, after, _, pan := p.step(st)
		if pan != nil {
			return world.Fail("C01/panic", "step %d panicked: %v", i, pan)
		}
		if after < before || after > before+1 {
			return world.Fail("C01/height-jump", "step %d moved the chain height from %d to %d", i, before, after)
		}
		if after == before+1 {
			committed++
			_, d, _ := p.n.Store.GetBlockData(p.ctx, after)
			if d != nil && len(d.Txs) == 0 {
				empties++
			} else {
				nonempties++
			}
		}
		if st.Seq.Kind == "error" || st.Seq.Kind == "nilresp" || st.Seq.Kind == "nilbatch" || st.ExecFail || st.Seq.DeltaNs <= 0 {
			bad++
		}
		labels["seq:"+st.Seq.Kind] = true
		if st.Seq.DeltaNs < 0 {
			labels["ts-decreasing"] = true
		}
		if st.ExecFail {
			labels["exec-fail"] = true
		}
		if pr := p.oracle(fmt.Sprintf("after step %d", i)); pr != nil {
			return world.Fail("C01/"+pr.Sig, "%s", pr.Msg)
		}
	}
	// epilogue: responses are well-formed again; every step must commit exactly one block
	for k := 0; k < 3; k++ {
		st := Step{Seq: world.SeqResp{Kind: "txs", Txs: [][]byte{[]byte(fmt.Sprintf("epilogue-%d", k))}, DeltaNs: 1_000_000}}
		before, after, err, pan := p.step(st)
		if pan != nil {
			return world.Fail("C01/panic", "epilogue step %d panicked: %v", k, pan)
		}
		if after != before+1 {
			sig := "C01/stuck"
			return world.Fail(sig, "producer cannot produce although responses are well-formed again: epilogue step %d left height at %d (err=%v)", k, after, err)
		}
		if pr := p.oracle(fmt.Sprintf("after epilogue step %d", k)); pr != nil {
			return world.Fail("C01/"+pr.Sig, "%s", pr.Msg)
		}
	}
	ls := []string{}
	for l := range labels {
		ls = append(ls, l)
	}
	if sc.InitialHeight > 1 {
		ls = append(ls, "initial>1")
	}
	nt := committed >= 3 && empties >= 1 && nonempties >= 1 && bad >= 1
	return world.OK(nt, ls...)
}

func TestC01(t *testing.T) {
	dir := t.TempDir()
	world.Run(t, "C01", "producer-chain", world.Scale(400, 3000), genScenario, func(sc Scenario) world.Verdict { return run(sc, dir) })
}
