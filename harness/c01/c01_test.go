// Package c01 decides C01: the sequencer node only ever commits a valid, hash-linked, signed
// chain, whatever the sequencing and execution layers answer, and is never left wedged.
package c01

import (
	"bytes"
	"fmt"
	"testing"

	"pgregory.net/rapid"

	"verif/harness/pw"
	"verif/harness/world"
)

type Step = pw.Step

type Scenario struct {
	InitialHeight uint64 `json:"initial_height"`
	Lazy          bool   `json:"lazy,omitempty"`
	// CustomPayload: the node signs a non-default payload (ManagerOptions.SignaturePayloadProvider).
	CustomPayload bool   `json:"custom_payload,omitempty"`
	Steps         []Step `json:"steps"`
	// Faults[i] (optional, parallel to Steps): what the machine does around step i.
	Faults []Fault `json:"faults,omitempty"`
	// Prometheus: the node runs with instrumentation.prometheus = true (labelled collectors).
	Prometheus bool `json:"prometheus,omitempty"`
}

// Fault: StoreFail k>0 makes the k-th durable write of the step fail with an I/O error; when the
// production step gives up because of it the node is shut down and started again on what is on
// disk (FullNode.Run does that on any error of the aggregation loop). Restart: a clean stop and
// start after the step.
type Fault struct {
	StoreFail int  `json:"store_fail,omitempty"`
	Restart   bool `json:"restart,omitempty"`
}

func genTx(t *rapid.T) []byte {
	switch rapid.IntRange(0, 9).Draw(t, "txshape") {
	case 0:
		return []byte{}
	case 1:
		return []byte(rapid.SampledFrom([]string{"a", "b", "dup", "dup"}).Draw(t, "smalltx"))
	case 2:
		n := rapid.IntRange(1000, world.Scale(4096, 65536)).Draw(t, "biglen")
		b := rapid.SliceOfN(rapid.Byte(), 8, 8).Draw(t, "bigseed")
		return bytes.Repeat(b, n/8)
	default:
		return rapid.SliceOfN(rapid.Byte(), 1, 48).Draw(t, "tx")
	}
}

func genDelta(t *rapid.T) int64 {
	switch rapid.IntRange(0, 7).Draw(t, "dshape") {
	case 0:
		return -int64(rapid.IntRange(1, 3_600_000_000_000).Draw(t, "negbig"))
	case 1:
		return -1
	case 2:
		return 0
	case 3:
		return 1
	default:
		return int64(rapid.IntRange(1_000_000, 5_000_000_000).Draw(t, "pos"))
	}
}

func genStep(t *rapid.T) Step {
	var s Step
	k := rapid.IntRange(0, 11).Draw(t, "kind")
	switch {
	case k == 0:
		s.Seq.Kind = "nilresp"
	case k == 1:
		s.Seq.Kind = "nilbatch"
	case k == 2:
		s.Seq.Kind = "error"
	case k <= 5:
		s.Seq.Kind = "empty"
	default:
		s.Seq.Kind = "txs"
		n := rapid.IntRange(1, 6).Draw(t, "ntx")
		for i := 0; i < n; i++ {
			s.Seq.Txs = append(s.Seq.Txs, genTx(t))
		}
		if rapid.IntRange(0, world.Scale(19, 99)).Draw(t, "huge") == 0 {
			// a batch of several megabytes (the single sequencer puts no bound on a batch)
			s.Seq.Blowup = rapid.SampledFrom([]int{300_000, 700_000, 1_600_000}).Draw(t, "blowup")
		} else if rapid.IntRange(0, 14).Draw(t, "manytxs") == 0 {
			// a batch of hundreds or thousands of transactions
			s.Seq.Many = rapid.SampledFrom([]int{40, 130, 260, 700, 2100}).Draw(t, "many")
		}
	}
	s.Seq.DeltaNs = genDelta(t)
	if rapid.IntRange(0, 3).Draw(t, "bd") == 0 {
		s.Seq.BatchData = rapid.SliceOfN(rapid.SliceOfN(rapid.Byte(), 0, 12), 0, 3).Draw(t, "batchdata")
	}
	s.ExecFail = rapid.IntRange(0, 7).Draw(t, "execfail") == 0
	return s
}

func genScenario(t *rapid.T) Scenario {
	var sc Scenario
	switch rapid.IntRange(0, 5).Draw(t, "ih") {
	case 0, 1, 2:
		sc.InitialHeight = 1
	case 3, 4:
		sc.InitialHeight = uint64(rapid.IntRange(2, 5).Draw(t, "ihsmall"))
	default:
		sc.InitialHeight = 1<<32 + uint64(rapid.IntRange(0, 9).Draw(t, "ihbig"))
	}
	sc.Lazy = rapid.Bool().Draw(t, "lazy")
	sc.CustomPayload = rapid.IntRange(0, 3).Draw(t, "custompayload") == 0
	sc.Prometheus = rapid.IntRange(0, 4).Draw(t, "prometheus") == 0
	n := rapid.IntRange(1, world.Scale(12, 40)).Draw(t, "nsteps")
	for i := 0; i < n; i++ {
		sc.Steps = append(sc.Steps, genStep(t))
	}
	if rapid.IntRange(0, 2).Draw(t, "withfaults") == 0 {
		sc.Faults = make([]Fault, n)
		for i := range sc.Faults {
			switch rapid.IntRange(0, 7).Draw(t, "fault") {
			case 0:
				sc.Faults[i].StoreFail = rapid.IntRange(1, 6).Draw(t, "storefail")
			case 1:
				sc.Faults[i].Restart = true
			}
		}
	}
	return sc
}

func run(sc Scenario, dir string) world.Verdict {
	p, err := pw.New(world.NodeOpts{ChainID: "c01-chain", InitialHeight: sc.InitialHeight, Lazy: sc.Lazy, RootDir: dir, CustomPayload: sc.CustomPayload, Prometheus: sc.Prometheus})
	if err != nil {
		return world.Fail("C01/start", "NewManager failed on a fresh store: %v", err)
	}
	committed, empties, nonempties, bad := 0, 0, 0, 0
	labels := map[string]bool{}
	restarted := false
	for i, st := range sc.Steps {
		var f Fault
		if i < len(sc.Faults) {
			f = sc.Faults[i]
		}
		if f.StoreFail > 0 {
			p.Raw.ArmErrorAfter(f.StoreFail - 1)
		}
		r := p.Step(st)
		p.Raw.Disarm()
		before, after := r.Before, r.After
		if (f.StoreFail > 0 && r.Err != nil) || f.Restart {
			if f.StoreFail > 0 && r.Err != nil {
				labels["store-write-failed"] = true
			} else {
				labels["clean-restart"] = true
			}
			if err := p.RestartOn(world.FromImage(p.Raw.Image())); err != nil {
				return world.Fail("C01/restart-fails", "after step %d (fault %+v, err=%v) the node cannot start on its own store: %v", i, f, r.Err, err)
			}
			restarted = true
			after, _ = p.N.Store.Height(p.Ctx)
		}
		if r.Panic != nil {
			return world.Fail("C01/panic", "step %d panicked: %v", i, r.Panic)
		}
		if after < before || after > before+1 {
			return world.Fail("C01/height-jump", "step %d moved the chain height from %d to %d", i, before, after)
		}
		if after == before+1 {
			committed++
			_, d, _ := p.N.Store.GetBlockData(p.Ctx, after)
			if d != nil && len(d.Txs) == 0 {
				empties++
			} else {
				nonempties++
			}
		}
		if st.Seq.Kind == "error" || st.Seq.Kind == "nilresp" || st.Seq.Kind == "nilbatch" || st.ExecFail || st.Seq.DeltaNs <= 0 {
			bad++
		}
		labels["seq:"+st.Seq.Kind] = true
		if st.Seq.DeltaNs < 0 {
			labels["ts-decreasing"] = true
		}
		if st.ExecFail {
			labels["exec-fail"] = true
		}
		if pr := p.Oracle(fmt.Sprintf("after step %d", i), !(f.StoreFail > 0 && r.Err != nil), !restarted); pr != nil {
			return world.Fail("C01/"+pr.Sig, "%s", pr.Msg)
		}
	}
	// epilogue: responses are well-formed again; every step must commit exactly one block
	for k := 0; k < 3; k++ {
		st := Step{Seq: world.SeqResp{Kind: "txs", Txs: [][]byte{[]byte(fmt.Sprintf("epilogue-%d", k))}, DeltaNs: 1_000_000}}
		r := p.Step(st)
		before, after, err := r.Before, r.After, r.Err
		if r.Panic != nil {
			return world.Fail("C01/panic", "epilogue step %d panicked: %v", k, r.Panic)
		}
		if after != before+1 {
			sig := "C01/stuck"
			return world.Fail(sig, "producer cannot produce although responses are well-formed again: epilogue step %d left height at %d (err=%v)", k, after, err)
		}
		if pr := p.Oracle(fmt.Sprintf("after epilogue step %d", k), true, !restarted); pr != nil {
			return world.Fail("C01/"+pr.Sig, "%s", pr.Msg)
		}
	}
	ls := []string{}
	for l := range labels {
		ls = append(ls, l)
	}
	if sc.InitialHeight > 1 {
		ls = append(ls, "initial>1")
	}
	nt := committed >= 3 && empties >= 1 && nonempties >= 1 && bad >= 1
	return world.OK(nt, ls...)
}

func TestC01(t *testing.T) {
	dir := t.TempDir()
	world.Run(t, "C01", "producer-chain", world.Scale(400, 3000), genScenario, func(sc Scenario) world.Verdict { return run(sc, dir) })
}
