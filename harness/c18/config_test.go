package c18

import (
	"fmt"
	"io"
	"os"
	"path/filepath"
	"reflect"
	"sort"
	"strconv"
	"strings"
	"testing"

	"github.com/spf13/cobra"
	"github.com/spf13/viper"
	"pgregory.net/rapid"

	"github.com/evstack/ev-node/pkg/config"

	"verif/harness/world"
)

// KV is one setting: Key is a field key path (file settings / saved values) or a flag name.
type KV struct {
	Key   string `json:"key"`
	Val   string `json:"val"`
	Style string `json:"style,omitempty"` // file settings: dq | sq | plain
}

// Scenario of the precedence checks: a hand-written file with exactly the keys in File and a
// command line with exactly the flags in Flags (plus --home).
type Scenario struct {
	// Via: "load" = cobra parses the command line and the sub-command calls config.Load(cmd);
	// "viper" = config.LoadFromViper on a viper instance holding the given flags as explicit values.
	Via        string  `json:"via"`
	File       []KV    `json:"file,omitempty"`
	Flags      []KV    `json:"flags,omitempty"`
	Passphrase *string `json:"passphrase,omitempty"` // exempt flag, must not influence the configuration
}

func (sc Scenario) fileVal(path string) (string, bool) {
	for _, kv := range sc.File {
		if kv.Key == path {
			return kv.Val, true
		}
	}
	return "", false
}

func flagForTarget(path string) *flagInfo {
	for i := range flags {
		if flags[i].Target == path && !exemptFlags[flags[i].Name] {
			return &flags[i]
		}
	}
	return nil
}

func writeConfigFile(home string, settings []KV) error {
	root := &ynode{}
	for _, kv := range settings {
		l := leafByPath[kv.Key]
		n := root
		for _, part := range strings.Split(l.YAMLPath, ".") {
			n = n.child(part)
		}
		n.leaf = true
		n.val = yamlScalar(l.Kind, kv.Val, kv.Style)
	}
	var sb strings.Builder
	root.render(&sb, 0)
	return os.WriteFile(filepath.Join(home, config.AppConfigDir, config.ConfigName), []byte(sb.String()), 0o600)
}

type loadResult struct {
	cfg     config.Config
	loadErr error
	execErr error
	panicV  any
}

// loadConfig obtains the configuration the way the applications do.
func loadConfig(via, home string, fl []KV, pass *string) (res loadResult) {
	defer func() {
		if r := recover(); r != nil {
			res.panicV = r
		}
	}()
	switch via {
	case "viper":
		v := viper.New()
		v.Set(config.FlagRootDir, home)
		for _, kv := range fl {
			f := flagByName[kv.Key]
			if f.Kind == kBool {
				b, _ := strconv.ParseBool(kv.Val)
				v.Set(kv.Key, b)
			} else {
				v.Set(kv.Key, kv.Val)
			}
		}
		if pass != nil {
			v.Set(config.FlagSignerPassphrase, *pass)
		}
		res.cfg, res.loadErr = config.LoadFromViper(v)
	default:
		called := false
		root, _ := newCommand(func(cmd *cobra.Command) error {
			called = true
			if via == "viper-bound" {
				// the usual cobra+viper wiring: the application's viper has the command's flags bound
				v := viper.New()
				if err := v.BindPFlags(cmd.Flags()); err != nil {
					return err
				}
				res.cfg, res.loadErr = config.LoadFromViper(v)
				return nil
			}
			res.cfg, res.loadErr = config.Load(cmd)
			return nil
		})
		args := []string{"start", "--" + config.FlagRootDir + "=" + home}
		for _, kv := range fl {
			args = append(args, "--"+kv.Key+"="+kv.Val)
		}
		if pass != nil {
			args = append(args, "--"+config.FlagSignerPassphrase+"="+*pass)
		}
		root.SetArgs(args)
		root.SetOut(io.Discard)
		root.SetErr(io.Discard)
		res.execErr = root.Execute()
		if res.execErr == nil && !called {
			res.execErr = fmt.Errorf("the sub-command was not run")
		}
	}
	return res
}

// lastDiffPath is the option at which the last failing precedence comparison deviated (the
// checks are single-threaded; used by the two-loads check to name the leaking section).
var lastDiffPath string

type diff struct {
	l         *leaf
	want, got string
}

func compareLeaves(want, got *config.Config) ([]diff, string) {
	var out []diff
	for i := range leaves {
		l := &leaves[i]
		wv, ok1 := fieldOf(want, l)
		gv, ok2 := fieldOf(got, l)
		if !ok1 {
			continue
		}
		if !ok2 {
			return nil, l.GoName
		}
		w, g := textOf(wv, l.Kind), textOf(gv, l.Kind)
		if !sameValue(l.Kind, w, g) {
			out = append(out, diff{l, w, g})
		}
	}
	return out, ""
}

func q(s string) string { return strconv.Quote(s) }

// validate says whether the scenario only names things that exist in this tree (a stored
// regression scenario may name a flag or field that has been renamed since).
func (sc Scenario) validate() bool {
	seen := map[string]bool{}
	for _, kv := range sc.File {
		l := leafByPath[kv.Key]
		if l == nil || exemptFields[l.GoName] || seen["f:"+kv.Key] {
			return false
		}
		seen["f:"+kv.Key] = true
		if setText(reflect.New(reflect.TypeOf(kindZero(l))).Elem(), l.Kind, kv.Val) != nil {
			return false
		}
	}
	for _, kv := range sc.Flags {
		f := flagByName[kv.Key]
		if f == nil || exemptFlags[f.Name] || seen["g:"+kv.Key] {
			return false
		}
		seen["g:"+kv.Key] = true
	}
	return validVia(sc.Via)
}

// validVia: "load" = config.Load(cmd) inside the sub-command; "viper" = config.LoadFromViper on
// a viper holding the given flags as explicit values; "viper-bound" = config.LoadFromViper on
// a viper that has the parsed command's flags bound (BindPFlags).
func validVia(via string) bool { return via == "load" || via == "viper" || via == "viper-bound" }

var vias = []string{"load", "load", "load", "viper", "viper-bound"}

func viaFor(i int) string { return vias[i%len(vias)] }

func kindZero(l *leaf) any {
	c := cloneConfig(pristine)
	v, _ := fieldOf(&c, l)
	return v.Interface()
}

// freshHome returns an empty home directory below tmp (one directory is reused per check).
func freshHome(tmp string) string {
	home := filepath.Join(tmp, "home")
	cf := filepath.Join(home, config.AppConfigDir, config.ConfigName)
	if err := os.Remove(cf); err != nil && !os.IsNotExist(err) {
		panic(err)
	}
	if _, err := os.Stat(filepath.Dir(cf)); err != nil {
		if err := os.MkdirAll(filepath.Dir(cf), 0o750); err != nil {
			panic(err)
		}
	}
	return home
}

func runPrecedence(sc Scenario, tmp string) world.Verdict {
	resetDefaults()
	return runPrecedenceNoReset(sc, tmp)
}

func runPrecedenceNoReset(sc Scenario, tmp string) world.Verdict {
	if !sc.validate() {
		return world.Verdict{Excluded: true}
	}
	home := freshHome(tmp)
	if len(sc.File) > 0 {
		if err := writeConfigFile(home, sc.File); err != nil {
			panic(err)
		}
	}

	// reference model: default, then file, then flags
	want := cloneConfig(pristine)
	want.RootDir = home
	for _, kv := range sc.File {
		v, _ := fieldOf(&want, leafByPath[kv.Key])
		_ = setText(v, leafByPath[kv.Key].Kind, kv.Val)
	}
	var orphanFlags []KV // flags whose name is the key of no field
	flagOf := map[string]KV{}
	for _, kv := range sc.Flags {
		f := flagByName[kv.Key]
		l := leafByPath[f.Target]
		if l == nil || !l.Loadable {
			orphanFlags = append(orphanFlags, kv)
			continue
		}
		flagOf[l.Path] = kv
		v, _ := fieldOf(&want, l)
		if err := setText(v, l.Kind, kv.Val); err != nil {
			return world.Verdict{Excluded: true}
		}
	}

	res := loadConfig(sc.Via, home, sc.Flags, sc.Passphrase)
	desc := describe(sc)
	switch {
	case res.panicV != nil:
		return world.Fail("C18/load-panic/"+sc.Via, "%s: loading panicked: %v", desc, res.panicV)
	case res.execErr != nil:
		return world.Fail("C18/command-line-rejected", "%s: the command line was rejected: %v", desc, res.execErr)
	case res.loadErr != nil:
		return world.Fail("C18/load-error/"+sc.Via, "%s: loading failed: %v", desc, res.loadErr)
	}
	got := res.cfg
	if got.RootDir != home {
		return world.Fail("C18/rootdir", "%s: RootDir is %q, want the --home directory %q", desc, got.RootDir, home)
	}
	diffs, nilAt := compareLeaves(&want, &got)
	if nilAt != "" {
		return world.Fail("C18/nil-section", "%s: the loaded configuration has a nil section at %s", desc, nilAt)
	}

	// A flag whose name is the key of no field must still reach an option: it has to account
	// for exactly one changed field carrying its value. Otherwise it was silently ignored.
	claimed := map[int]bool{}
	for _, kv := range orphanFlags {
		f := flagByName[kv.Key]
		if sameValue(f.Kind, kv.Val, f.Def) {
			continue // same as the flag's default: being ignored is unobservable
		}
		found := false
		for i, d := range diffs {
			if !claimed[i] && d.l.Kind == f.Kind && sameValue(f.Kind, d.got, kv.Val) {
				claimed[i], found = true, true
				break
			}
		}
		if !found {
			sect := f.Target
			if i := strings.LastIndex(sect, "."); i >= 0 {
				sect = sect[:i+1]
			}
			var sib []string
			for i := range leaves {
				if strings.HasPrefix(leaves[i].Path, sect) {
					sib = append(sib, leaves[i].Path)
				}
			}
			return world.Fail("C18/flag-ignored:"+f.Name,
				"%s: flag --%s=%s is accepted but reaches no configuration option: it is bound to key %q, which is no field of the configuration (fields there: %s); the loaded configuration is the same as without the flag",
				desc, f.Name, q(kv.Val), f.Target, strings.Join(sib, ", "))
		}
	}
	for i, d := range diffs {
		if claimed[i] {
			continue
		}
		p := d.l.Path
		lastDiffPath = p
		at := func(class, what string) string { // signature: per option for Load, per entry point otherwise
			if sc.Via == "load" {
				return "C18/" + class + ":" + what
			}
			return "C18/" + class + "/" + sc.Via
		}
		def, _ := fieldOf(&pristine, d.l)
		defText := textOf(def, d.l.Kind)
		fileV, hasFile := sc.fileVal(p)
		flagKV, hasFlag := flagOf[p]
		switch {
		case hasFlag && hasFile && sameValue(d.l.Kind, d.got, fileV):
			return world.Fail(at("file-beats-flag", p), "%s: %s is %s (the file value) although --%s=%s was given", desc, d.l.GoName, q(d.got), flagKV.Key, q(flagKV.Val))
		case hasFlag && sameValue(d.l.Kind, d.got, defText):
			return world.Fail(at("flag-ignored", flagKV.Key), "%s: %s kept its default %s although --%s=%s was given", desc, d.l.GoName, q(d.got), flagKV.Key, q(flagKV.Val))
		case hasFlag:
			return world.Fail("C18/flag-value-mangled/"+sc.Via+"/"+d.l.Kind, "%s: %s is %s, but --%s=%s was given", desc, d.l.GoName, q(d.got), flagKV.Key, q(flagKV.Val))
		case hasFile && sameValue(d.l.Kind, d.got, defText):
			return world.Fail(at("file-key-ignored", p), "%s: %s kept its default %s although the file sets %s: %s", desc, d.l.GoName, q(d.got), d.l.YAMLPath, q(fileV))
		case hasFile:
			return world.Fail("C18/file-value-mangled/"+d.l.Kind, "%s: %s is %s, but the file sets %s: %s", desc, d.l.GoName, q(d.got), d.l.YAMLPath, q(fileV))
		default:
			return world.Fail(at("unset-option-changed", p), "%s: %s is %s, want its default %s (neither the file nor a flag sets it)", desc, d.l.GoName, q(d.got), q(d.want))
		}
	}
	if len(orphanFlags) == 0 && !reflect.DeepEqual(want, got) {
		return world.Fail("C18/differs-outside-known-fields", "%s: the loaded configuration differs from the model outside the reflected fields:\nwant %+v\ngot  %+v", desc, want, got)
	}

	// non-triviality and labels
	nt := false
	labels := []string{"via:" + sc.Via}
	for _, kv := range sc.File {
		l := leafByPath[kv.Key]
		if l.Kind == kString && needsQuoting(kv.Val) {
			nt = true
			labels = append(labels, "string-needing-quoting")
		}
		if fk, ok := flagOf[kv.Key]; ok {
			if !sameValue(l.Kind, fk.Val, kv.Val) {
				nt = true
				labels = append(labels, "file-and-flag-differ")
			} else {
				labels = append(labels, "file-and-flag-same")
			}
		}
	}
	for _, kv := range sc.Flags {
		if flagByName[kv.Key].Kind == kString && needsQuoting(kv.Val) {
			nt = true
			labels = append(labels, "string-needing-quoting")
		}
	}
	if len(sc.File) > 0 {
		labels = append(labels, "has-file")
	}
	if len(sc.Flags) > 0 {
		labels = append(labels, "has-flag")
	}
	if len(sc.File) == 0 && len(sc.Flags) == 0 {
		labels = append(labels, "defaults-only")
	}
	if sc.Passphrase != nil {
		labels = append(labels, "passphrase-flag")
	}
	return world.OK(nt, dedup(labels)...)
}

func dedup(in []string) []string {
	seen := map[string]bool{}
	out := in[:0]
	for _, s := range in {
		if !seen[s] {
			seen[s] = true
			out = append(out, s)
		}
	}
	return out
}

func describe(sc Scenario) string {
	var parts []string
	for _, kv := range sc.File {
		parts = append(parts, "file "+kv.Key+": "+q(kv.Val))
	}
	for _, kv := range sc.Flags {
		parts = append(parts, "--"+kv.Key+"="+q(kv.Val))
	}
	if len(parts) == 0 {
		parts = []string{"no file, no flags"}
	}
	return "[" + sc.Via + "] " + strings.Join(parts, ", ")
}

// option is one drawable slot: a field, the flag bound to its key, or both.
type option struct {
	l *leaf
	f *flagInfo
}

func options() []option {
	var out []option
	for i := range leaves {
		l := &leaves[i]
		if exemptFields[l.GoName] {
			continue
		}
		out = append(out, option{l: l, f: flagForTarget(l.Path)})
	}
	for i := range flags {
		f := &flags[i]
		if exemptFlags[f.Name] {
			continue
		}
		if l := leafByPath[f.Target]; l == nil || exemptFields[l.GoName] {
			out = append(out, option{f: f})
		}
	}
	return out
}

func (o option) kindBits() (string, int) {
	switch {
	case o.l != nil && o.f != nil:
		b := o.l.Bits
		if o.f.Bits < b {
			b = o.f.Bits
		}
		return o.l.Kind, b
	case o.l != nil:
		return o.l.Kind, o.l.Bits
	}
	return o.f.Kind, o.f.Bits
}

func (o option) name() string {
	if o.l != nil {
		return o.l.Path
	}
	return "--" + o.f.Name
}

func genStyle(t *rapid.T) string {
	return rapid.SampledFrom([]string{"dq", "dq", "sq", "plain"}).Draw(t, "style")
}

type setting struct {
	File *KV
	Flag *KV
}

func genSetting(t *rapid.T) setting {
	o := rapid.SampledFrom(options()).Draw(t, "option")
	kind, bits := o.kindBits()
	var presences []string
	if o.l != nil {
		presences = append(presences, "file")
	}
	if o.f != nil {
		presences = append(presences, "flag")
	}
	if o.l != nil && o.f != nil {
		presences = append(presences, "both", "both")
	}
	var st setting
	switch rapid.SampledFrom(presences).Draw(t, "presence") {
	case "file":
		st.File = &KV{Key: o.l.Path, Val: genValue(t, kind, bits, "fileval"), Style: genStyle(t)}
	case "flag":
		st.Flag = &KV{Key: o.f.Name, Val: genValue(t, kind, bits, "flagval")}
	case "both":
		fv := genValue(t, kind, bits, "fileval")
		gv := fv
		if rapid.IntRange(0, 5).Draw(t, "same") != 0 {
			gv = genValue(t, kind, bits, "flagval")
		}
		st.File = &KV{Key: o.l.Path, Val: fv, Style: genStyle(t)}
		st.Flag = &KV{Key: o.f.Name, Val: gv}
	}
	return st
}

func genScenario(t *rapid.T) Scenario {
	sc := Scenario{Via: rapid.SampledFrom(vias).Draw(t, "via")}
	used := map[string]bool{}
	min := 1
	if rapid.IntRange(0, 19).Draw(t, "empty") == 0 {
		min = 0
	}
	for _, st := range rapid.SliceOfN(rapid.Custom(genSetting), min, 5).Draw(t, "settings") {
		if (st.File != nil && used["f:"+st.File.Key]) || (st.Flag != nil && used["g:"+st.Flag.Key]) {
			continue
		}
		if st.File != nil {
			used["f:"+st.File.Key] = true
			sc.File = append(sc.File, *st.File)
		}
		if st.Flag != nil {
			used["g:"+st.Flag.Key] = true
			sc.Flags = append(sc.Flags, *st.Flag)
		}
	}
	if rapid.IntRange(0, 5).Draw(t, "pass") == 0 {
		p := genString(t, "passphrase")
		sc.Passphrase = &p
	}
	return sc
}

// TestC18Precedence: random (default, file, flag) presence over several options at once.
func TestC18Precedence(t *testing.T) {
	requireSetup(t)
	tmp := t.TempDir()
	world.Run(t, "C18", "precedence", world.Scale(500, 12000), genScenario, func(sc Scenario) world.Verdict { return runPrecedence(sc, tmp) })
}

// TestC18EveryFieldFromFile: every field x the value table, from a file holding only that key.
func TestC18EveryFieldFromFile(t *testing.T) {
	requireSetup(t)
	tmp := t.TempDir()
	var scs []Scenario
	for oi, o := range options() {
		if o.l == nil {
			continue
		}
		for i, v := range tableValues(oi, o.l.Kind, o.l.Bits) {
			scs = append(scs, Scenario{Via: viaFor(i / 3), File: []KV{{Key: o.l.Path, Val: v, Style: []string{"dq", "plain", "sq"}[i%3]}}})
		}
	}
	world.Enumerate(t, "C18", "every-field-from-file", scs, false, func(sc Scenario) world.Verdict { return runPrecedence(sc, tmp) })
}

// TestC18EveryFlagAlone: every registered flag x the value table, alone on the command line.
func TestC18EveryFlagAlone(t *testing.T) {
	requireSetup(t)
	tmp := t.TempDir()
	var scs []Scenario
	for oi, o := range options() {
		if o.f == nil {
			continue
		}
		kind, bits := o.kindBits()
		for i, v := range tableValues(oi, kind, bits) {
			scs = append(scs, Scenario{Via: viaFor(i), Flags: []KV{{Key: o.f.Name, Val: v}}})
		}
	}
	world.Enumerate(t, "C18", "every-flag-alone", scs, false, func(sc Scenario) world.Verdict { return runPrecedence(sc, tmp) })
}

// TestC18EveryFlagOverFile: every flag that has a field x pairs of different values, the file
// holding one and the command line the other.
func TestC18EveryFlagOverFile(t *testing.T) {
	requireSetup(t)
	tmp := t.TempDir()
	var scs []Scenario
	for oi, o := range options() {
		if o.f == nil || o.l == nil {
			continue
		}
		kind, bits := o.kindBits()
		vals := tableValues(oi, kind, bits)
		for i, v := range vals {
			scs = append(scs, Scenario{Via: viaFor(i), File: []KV{{Key: o.l.Path, Val: v, Style: "dq"}}, Flags: []KV{{Key: o.f.Name, Val: vals[(i+1)%len(vals)]}}})
		}
	}
	world.Enumerate(t, "C18", "every-flag-over-file", scs, false, func(sc Scenario) world.Verdict { return runPrecedence(sc, tmp) })
}

// ---------------------------------------------------------------------------------------------
// save / load round trip

// SaveScenario: a configuration whose listed fields hold the given values (all others their
// defaults) is written with SaveAsYaml and loaded back from that directory.
type SaveScenario struct {
	Via    string `json:"via"`
	Values []KV   `json:"values"`
	// Over: a longer configuration file already exists at the destination (an earlier save with
	// longer values): saving must replace it, not merely overwrite its beginning
	Over bool `json:"over,omitempty"`
	// Sibling: another file with the configuration's base name and an extension the configuration library
	// also knows sits next to evnode.yaml: "json" (a stale dump of other values), "toml" (not YAML at all).
	// The documented configuration file is evnode.yaml; what lies next to it must not matter.
	Sibling string `json:"sibling,omitempty"`
	// HomeForm: how the home directory is spelled on the command line: "" an absolute path, "rel" a path
	// relative to the working directory, "tilde" a path with a literal leading "~/" (what a shell leaves alone in
	// --home=~/dir, and what service files and compose files contain).
	HomeForm string `json:"home_form,omitempty"`
	// InitFlow: the file is written the way `init` does it (Load the command line, Validate, set the values,
	// SaveAsYaml) instead of from a configuration value built in memory.
	InitFlow bool `json:"init_flow,omitempty"`
}

func runSaveLoad(sc SaveScenario, tmp string) world.Verdict {
	seen := map[string]bool{}
	for _, kv := range sc.Values {
		l := leafByPath[kv.Key]
		if l == nil || exemptFields[l.GoName] || seen[kv.Key] {
			return world.Verdict{Excluded: true}
		}
		seen[kv.Key] = true
	}
	if !validVia(sc.Via) {
		return world.Verdict{Excluded: true}
	}
	resetDefaults()
	home := freshHome(tmp)
	labels := []string{"via:" + sc.Via}
	if sc.HomeForm != "" {
		// spelled relative to the working directory: a scratch directory for the duration of the case
		if cwd, err := os.Getwd(); err == nil && os.Chdir(tmp) == nil {
			defer os.Chdir(cwd)
		} else {
			return world.Verdict{Excluded: true}
		}
		home = map[string]string{"rel": "rel-home/node", "tilde": "~/tilde-home"}[sc.HomeForm]
		if home == "" {
			return world.Verdict{Excluded: true}
		}
		cf := filepath.Join(home, config.AppConfigDir, config.ConfigName)
		_ = os.Remove(cf)
		if err := os.MkdirAll(filepath.Dir(cf), 0o750); err != nil {
			panic(err)
		}
		// a user home of its own: nothing may be written outside the scratch directories
		uh := filepath.Join(tmp, "userhome")
		_ = os.RemoveAll(uh)
		_ = os.MkdirAll(uh, 0o750)
		old := os.Getenv("HOME")
		os.Setenv("HOME", uh)
		defer os.Setenv("HOME", old)
		labels = append(labels, "home:"+sc.HomeForm)
	}
	written := cloneConfig(pristine)
	written.RootDir = home
	if sc.InitFlow {
		r0 := loadConfig("load", home, nil, nil)
		if r0.panicV != nil || r0.execErr != nil || r0.loadErr != nil {
			return world.Fail("C18/init-load", "init: loading the command line --home=%s failed: %v %v %v", home, r0.panicV, r0.execErr, r0.loadErr)
		}
		written = r0.cfg
		if err := written.Validate(); err != nil {
			return world.Fail("C18/init-validate", "init: the default configuration for --home=%s does not validate: %v", home, err)
		}
		labels = append(labels, "written-by-the-init-flow")
	}
	nt := false
	for _, kv := range sc.Values {
		l := leafByPath[kv.Key]
		v, _ := fieldOf(&written, l)
		if err := setText(v, l.Kind, kv.Val); err != nil {
			return world.Verdict{Excluded: true}
		}
		if l.Kind == kString && needsQuoting(kv.Val) {
			nt = true
		}
		if l.Kind == kString && strings.Contains(kv.Val, "\n") {
			labels = append(labels, "multi-line-string")
		}
	}
	desc := fmt.Sprintf("[%s] saved %v", sc.Via, sc.Values)
	if sc.Over {
		prior := cloneConfig(written)
		prior.DA.Namespace = strings.Repeat("earlier-and-longer-", 40)
		prior.P2P.Peers = strings.Repeat("/ip4/10.0.0.1/tcp/26656/p2p/12D3KooWearlier,", 20)
		if err := prior.SaveAsYaml(); err != nil {
			return world.Verdict{Excluded: true}
		}
		labels = append(labels, "saved-over-longer-file")
		desc += " over an existing longer file"
	}
	model := cloneConfig(written)
	var saveErr error
	var pan any
	func() {
		defer func() { pan = recover() }()
		saveErr = written.SaveAsYaml()
	}()
	if pan != nil {
		return world.Fail("C18/save-panic", "%s: SaveAsYaml panicked: %v", desc, pan)
	}
	if saveErr != nil {
		return world.Fail("C18/save-error", "%s: SaveAsYaml failed: %v", desc, saveErr)
	}
	if !reflect.DeepEqual(written, model) {
		return world.Fail("C18/save-mutates", "%s: SaveAsYaml changed the configuration it was asked to write", desc)
	}
	switch sc.Sibling {
	case "json":
		stale := `{"node": {"aggregator": true, "block_time": "7h", "max_pending_headers_and_data": 77}, "da": {"mempool_ttl": 7, "namespace": "stale"}, "chain_id": "stale-chain"}`
		_ = os.WriteFile(filepath.Join(home, config.AppConfigDir, "evnode.json"), []byte(stale), 0o600)
		labels = append(labels, "sibling-file:json")
		desc += " with a stale evnode.json next to it"
	case "toml":
		_ = os.WriteFile(filepath.Join(home, config.AppConfigDir, "evnode.toml"), []byte("[node]\naggregator = true\nblock_time = \"7h\"\n"), 0o600)
		labels = append(labels, "sibling-file:toml")
		desc += " with an evnode.toml next to it"
	}
	res := loadConfig(sc.Via, home, nil, nil)
	file, _ := os.ReadFile(filepath.Join(home, config.AppConfigDir, config.ConfigName))
	switch {
	case res.panicV != nil:
		return world.Fail("C18/roundtrip-load-panic", "%s: loading the written file panicked: %v\nfile:\n%s", desc, res.panicV, file)
	case res.execErr != nil:
		return world.Fail("C18/command-line-rejected", "%s: the command line was rejected: %v", desc, res.execErr)
	case res.loadErr != nil:
		return world.Fail("C18/roundtrip-load-error", "%s: the file written by SaveAsYaml does not load: %v\nfile:\n%s", desc, res.loadErr, file)
	}
	got := res.cfg
	diffs, nilAt := compareLeaves(&model, &got)
	if nilAt != "" {
		return world.Fail("C18/nil-section", "%s: the loaded configuration has a nil section at %s", desc, nilAt)
	}
	if len(diffs) > 0 {
		d := diffs[0]
		sig := "C18/roundtrip-value-changed/" + d.l.Kind
		def, _ := fieldOf(&pristine, d.l)
		if sameValue(d.l.Kind, d.got, textOf(def, d.l.Kind)) {
			sig = "C18/roundtrip-field-lost:" + d.l.Path
		}
		// One root cause gets one signature: SaveAsYaml leaves the scalar style of strings to
		// the YAML writer, which picks a plain or block scalar that the reader used by Load
		// resolves to something else (or cannot parse, which silently loses the whole file).
		for _, kv := range sc.Values {
			if l := leafByPath[kv.Key]; l.Kind == kString && kv.Val != "" && (l == d.l || len(diffs) > 1) &&
				!strings.Contains(string(file), ": "+strconv.Quote(kv.Val)+"\n") {
				sig = "C18/save-load/string-scalar-style"
			}
		}
		if sc.Via != "load" {
			// the same file loads correctly through config.Load: the entry point is at fault
			if r2 := loadConfig("load", home, nil, nil); r2.panicV == nil && r2.execErr == nil && r2.loadErr == nil {
				if d2, n2 := compareLeaves(&model, &r2.cfg); len(d2) == 0 && n2 == "" {
					sig = "C18/file-key-ignored/" + sc.Via
				}
			}
		}
		return world.Fail(sig, "%s: %s was written as %s and loaded back as %s\nfile:\n%s", desc, d.l.GoName, q(d.want), q(d.got), file)
	}
	if got.RootDir != home {
		return world.Fail("C18/rootdir", "%s: RootDir is %q, want %q", desc, got.RootDir, home)
	}
	if !reflect.DeepEqual(model, got) {
		return world.Fail("C18/differs-outside-known-fields", "%s: loaded configuration differs from the written one outside the reflected fields", desc)
	}
	if len(sc.Values) == 0 {
		labels = append(labels, "all-defaults")
	}
	if len(sc.Values) >= len(leaves)/2 {
		labels = append(labels, "most-fields-set")
	}
	return world.OK(nt, dedup(labels)...)
}

func genSaveScenario(t *rapid.T) SaveScenario {
	sc := SaveScenario{Via: rapid.SampledFrom(vias).Draw(t, "via"), Over: rapid.IntRange(0, 3).Draw(t, "over") == 0}
	sc.Sibling = rapid.SampledFrom([]string{"", "", "", "json", "toml"}).Draw(t, "sibling")
	sc.HomeForm = rapid.SampledFrom([]string{"", "", "", "rel", "tilde"}).Draw(t, "homeform")
	sc.InitFlow = rapid.IntRange(0, 2).Draw(t, "initflow") == 0
	var cand []*leaf
	for i := range leaves {
		if !exemptFields[leaves[i].GoName] {
			cand = append(cand, &leaves[i])
		}
	}
	// a field is set when its draw reaches the threshold: every draw shrinks towards "unset"
	thr := rapid.SampledFrom([]int{96, 96, 85, 85, 60, 10, 3}).Draw(t, "threshold")
	for _, l := range cand {
		if rapid.IntRange(0, 99).Draw(t, "set") >= thr {
			sc.Values = append(sc.Values, KV{Key: l.Path, Val: genValue(t, l.Kind, l.Bits, "val")})
		}
	}
	return sc
}

// TestC18SaveLoad: whole-configuration round trips through SaveAsYaml and Load.
func TestC18SaveLoad(t *testing.T) {
	requireSetup(t)
	tmp := t.TempDir()
	world.Run(t, "C18", "save-load", world.Scale(300, 5000), genSaveScenario, func(sc SaveScenario) world.Verdict { return runSaveLoad(sc, tmp) })
}

// TestC18SaveLoadEveryField: every field x the value table, one non-default field per file.
func TestC18SaveLoadEveryField(t *testing.T) {
	requireSetup(t)
	tmp := t.TempDir()
	var scs []SaveScenario
	for oi, o := range options() {
		if o.l == nil {
			continue
		}
		for _, v := range tableValues(oi, o.l.Kind, o.l.Bits) {
			scs = append(scs, SaveScenario{Via: viaFor(len(scs)), Values: []KV{{Key: o.l.Path, Val: v}}})
		}
	}
	world.Enumerate(t, "C18", "save-load-every-field", scs, false, func(sc SaveScenario) world.Verdict { return runSaveLoad(sc, tmp) })
}

// ---------------------------------------------------------------------------------------------
// observations that are not violations: fields without a flag

func TestC18Inventory(t *testing.T) {
	requireSetup(t)
	var noFlag []string
	for _, o := range options() {
		if o.l != nil && o.f == nil {
			noFlag = append(noFlag, o.l.Path)
		}
	}
	sort.Strings(noFlag)
	t.Logf("C18 inventory: %d fields, %d flags; fields without a flag (allowed): %v", len(leaves), len(flags), noFlag)
}

// ---------------------------------------------------------------------------------------------
// two loads in one process: the second obeys the same precedence as if it were the first

// TwiceScenario loads First and then Second (different files, different command lines) in the
// same process without restoring the package-level defaults in between.
type TwiceScenario struct {
	First  Scenario `json:"first"`
	Second Scenario `json:"second"`
}

func runTwice(sc TwiceScenario, tmp string) world.Verdict {
	resetDefaults()
	v1 := runPrecedenceNoReset(sc.First, tmp)
	if v1.Excluded || v1.Violation != "" {
		return world.Verdict{Excluded: true} // reported by the single-load checks
	}
	lastDiffPath = ""
	v2 := runPrecedenceNoReset(sc.Second, tmp)
	if v2.Excluded {
		return v2
	}
	if v2.Violation != "" {
		leakAt := lastDiffPath
		alone := runPrecedence(sc.Second, tmp)
		if alone.Violation != "" {
			return world.Verdict{Excluded: true} // fails on its own: reported by the single-load checks
		}
		section, _, _ := strings.Cut(leakAt, ".")
		sig := "C18/earlier-load-leaks:" + section
		return world.Fail(sig, "after loading %s in the same process, a second load deviates (alone it is correct): %s", describe(sc.First), v2.Violation)
	}
	nt := len(sc.First.File)+len(sc.First.Flags) > 0
	return world.OK(nt, "second:"+map[bool]string{true: "defaults-only", false: "has-settings"}[len(sc.Second.File)+len(sc.Second.Flags) == 0])
}

func TestC18LoadTwice(t *testing.T) {
	requireSetup(t)
	tmp := t.TempDir()
	gen := func(t *rapid.T) TwiceScenario {
		sc := TwiceScenario{First: genScenario(t)}
		if rapid.Bool().Draw(t, "second-empty") {
			sc.Second = Scenario{Via: rapid.SampledFrom(vias).Draw(t, "via2")}
		} else {
			sc.Second = genScenario(t)
		}
		return sc
	}
	world.Run(t, "C18", "load-twice", world.Scale(300, 3000), gen, func(sc TwiceScenario) world.Verdict { return runTwice(sc, tmp) })
}
