package c18

import (
	"fmt"
	"testing"
)

func TestExploreRoundTrip(t *testing.T) {
	tmp := t.TempDir()
	for _, s := range tableValues(kString, 0) {
		v := runSaveLoad(SaveScenario{Via: "load", Values: []KV{{Key: "chain_id", Val: s}}}, tmp)
		if v.Violation != "" {
			m := v.Violation
			if len(m) > 160 {
				m = m[:160]
			}
			fmt.Printf("RT %s %q\n", v.Signature, m)
		}
	}
}
