package c18

import (
	"encoding/json"
	"fmt"
	"math"
	"reflect"
	"regexp"
	"strconv"
	"strings"
	"time"

	"pgregory.net/rapid"

	"github.com/evstack/ev-node/pkg/config"

	"verif/harness/world"
)

// A value travels through a scenario as canonical text:
//   string    the string itself
//   bool      true | false
//   int/uint  decimal
//   float     strconv 'g', shortest representation (finite only)
//   duration  time.Duration.String()

// edgeStrings are strings a YAML reader/writer or a command line may mangle. Newline and tab are
// the only control characters (DESIGN C18/G); all are valid UTF-8.
var edgeStrings = []string{
	"", " ", "a", "plain-value_1./x", " leading space", "trailing space ", "  both  ",
	"with: colon", "key: value # comment", "# hash first", "a #b", "- dash", "-", "--flag-like", "=eq", "a=b",
	"'single'", "it's", "\"double\"", "say \"hi\"", "back\\slash", "\\n not a newline", "tab\there", "\tlead tab",
	"line\nbreak", "trailing newline\n", "\nleading newline", "two\n\nblank", "multi\n  indented\n\nlines\n", "a\n b",
	"ünï©ødé ✓ 日本語", "emoji 🚀", "é",
	"123", "-7", "0", "007", "1e3", "1.5", ".5", "0x1F", "0o17", "0b11", "1_000", "+1", "18446744073709551616",
	"true", "false", "True", "TRUE", "yes", "no", "on", "off", "y", "n", "null", "Null", "NULL", "~", ".inf", "-.inf", ".nan",
	"2001-01-01", "2001-12-14t21:59:43.10-05:00", "12:30:45", "1s", "<<",
	"[a, b]", "{a: b}", "[", "]", "{", "}", "a,b,c", ",", "*alias", "&anchor", "!tag", "!!str x", "|", ">", "|-", "%percent", "@at", "`tick",
	"?", "? x", ":", "a:", ":a", "a: ", "---", "...", "--- x", "/ip4/0.0.0.0/tcp/7676", "http://h:1/p?q=1&r=2#f", "C:\\dir\\file",
	"$HOME", "${VAR}", "a b  c", "long-" + "0123456789abcdef0123456789abcdef0123456789abcdef0123456789abcdef0123456789abcdef0123456789abcdef",
}

var stringAlphabet = []rune("abzAZ019 _-./:#,'\"\\[]{}&*!|>%@`?=~+$()<;\n\téß日🚀")

func genString(t *rapid.T, label string) string {
	switch rapid.IntRange(0, 5).Draw(t, label+"-shape") {
	case 0, 1:
		return rapid.SampledFrom(edgeStrings).Draw(t, label+"-edge")
	case 2:
		return rapid.StringOfN(rapid.SampledFrom(stringAlphabet), 0, 12, -1).Draw(t, label+"-chars")
	case 3:
		return rapid.SampledFrom(edgeStrings).Draw(t, label+"-a") + rapid.SampledFrom(edgeStrings).Draw(t, label+"-b")
	case 4:
		return rapid.StringMatching(`[a-z][a-z0-9_./:-]{0,20}`).Draw(t, label+"-plain")
	default:
		return sanitize(rapid.StringN(0, 16, -1).Draw(t, label+"-any"))
	}
}

// sanitize keeps a random unicode string inside the stated domain: valid UTF-8, no control
// characters except newline and tab, no Unicode line/paragraph separators, BOM or NEL.
func sanitize(s string) string {
	var b strings.Builder
	for _, r := range s {
		switch {
		case r == '\n' || r == '\t':
			b.WriteRune(r)
		case r < 0x20 || (r >= 0x7f && r <= 0x9f) || r == 0x2028 || r == 0x2029 || r == 0xfeff || r == 0xfffd:
		case r >= 0xd800 && r <= 0xdfff:
		default:
			b.WriteRune(r)
		}
	}
	return b.String()
}

func maxUint(bits int) uint64 {
	if bits >= 64 {
		return math.MaxUint64
	}
	return 1<<uint(bits) - 1
}

func maxInt(bits int) int64 {
	if bits >= 64 {
		return math.MaxInt64
	}
	return 1<<uint(bits-1) - 1
}

func edgeUints(bits int) []string {
	out := []string{"0", "1", "2", "7", "10", "255", "65535", "4294967295", "4294967296", "9223372036854775807", "9223372036854775808", "18446744073709551615"}
	keep := out[:0]
	for _, s := range out {
		if u, _ := strconv.ParseUint(s, 10, 64); u <= maxUint(bits) {
			keep = append(keep, s)
		}
	}
	return keep
}

func edgeInts(bits int) []string {
	out := []string{"0", "1", "-1", "2", "42", "-42", "127", "-128", "32767", "2147483647", "-2147483648", "9223372036854775807", "-9223372036854775808"}
	keep := out[:0]
	for _, s := range out {
		if i, _ := strconv.ParseInt(s, 10, 64); i <= maxInt(bits) && i >= -maxInt(bits)-1 {
			keep = append(keep, s)
		}
	}
	return keep
}

var edgeFloats = []string{"0", "1", "-1", "0.5", "-0.25", "0.1", "1.5", "3", "1e-09", "123456.789", "1e+21", "-1e+21", "1e+300",
	"5e-324", "1.7976931348623157e+308", "0.30000000000000004", "100", "1e+06", "9007199254740993"}

var edgeDurations = []string{"0s", "1ns", "-1ns", "1µs", "1ms", "500ms", "1s", "-1s", "1.5s", "1m0s", "2m30s", "1h0m0s", "15s", "6s",
	"1h2m3.000000004s", "-1h0m0.5s", "2562047h47m16.854775807s", "-2562047h47m16.854775808s", "100h0m0s", "1m0.000000001s"}

func fmtFloat(f float64) string { return strconv.FormatFloat(f, 'g', -1, 64) }

// edgeValues returns the fixed value table for a kind.
func edgeValues(kind string, bits int) []string {
	switch kind {
	case kString:
		return edgeStrings
	case kBool:
		return []string{"true", "false"}
	case kInt:
		return edgeInts(bits)
	case kUint:
		return edgeUints(bits)
	case kFloat:
		if bits == 32 {
			return []string{"0", "1", "-1", "0.5", "-0.25", "1.5", "3", "100"}
		}
		return edgeFloats
	case kDuration:
		return edgeDurations
	}
	return nil
}

func genValue(t *rapid.T, kind string, bits int, label string) string {
	if kind != kString && kind != kBool && rapid.IntRange(0, 2).Draw(t, label+"-edge?") == 0 {
		return rapid.SampledFrom(edgeValues(kind, bits)).Draw(t, label+"-edgeval")
	}
	switch kind {
	case kString:
		return genString(t, label)
	case kBool:
		return strconv.FormatBool(rapid.Bool().Draw(t, label+"-bool"))
	case kInt:
		return strconv.FormatInt(rapid.Int64Range(-maxInt(bits)-1, maxInt(bits)).Draw(t, label+"-int"), 10)
	case kUint:
		return strconv.FormatUint(rapid.Uint64Range(0, maxUint(bits)).Draw(t, label+"-uint"), 10)
	case kFloat:
		if bits == 32 {
			return fmtFloat(float64(rapid.Float32Range(-1e6, 1e6).Draw(t, label+"-f32")))
		}
		f := rapid.Float64().Draw(t, label+"-float")
		if math.IsNaN(f) || math.IsInf(f, 0) || f == 0 {
			f = 0
		}
		return fmtFloat(f)
	case kDuration:
		return time.Duration(rapid.Int64().Draw(t, label+"-dur")).String()
	}
	panic("genValue: kind " + kind)
}

// tableValues returns the deterministic per-kind value list of the enumeration checks: the edge
// table in the quick tier, plus rapid examples (fixed seeds) in the thorough tier.
//
// Quick tier: at most quickTable values per option; the window into the edge table rotates
// with the option index so that all edge values are used across the options of a kind.
func tableValues(option int, kind string, bits int) []string {
	out := append([]string{}, edgeValues(kind, bits)...)
	if kind == kBool {
		return out
	}
	if !world.Thorough() {
		if len(out) <= quickTable {
			return out
		}
		win := make([]string, 0, quickTable)
		for j := 0; j < quickTable; j++ {
			win = append(win, out[(option*quickTable+j)%len(out)])
		}
		return win
	}
	n := world.Scale(0, 200) - len(out)
	g := rapid.Custom(func(t *rapid.T) string { return genValue(t, kind, bits, "v") })
	seen := map[string]bool{}
	for _, s := range out {
		seen[s] = true
	}
	for i := 0; len(out) < len(edgeValues(kind, bits))+n && i < 4*n; i++ {
		s := g.Example(i)
		if !seen[s] {
			seen[s] = true
			out = append(out, s)
		}
	}
	return out
}

// setText stores the value denoted by text into a settable reflect.Value of the leaf's type.
func setText(v reflect.Value, kind, text string) error {
	switch kind {
	case kString:
		v.SetString(text)
	case kBool:
		b, err := strconv.ParseBool(text)
		if err != nil {
			return err
		}
		v.SetBool(b)
	case kInt:
		i, err := strconv.ParseInt(text, 10, 64)
		if err != nil {
			return err
		}
		if v.OverflowInt(i) {
			return fmt.Errorf("%s overflows %s", text, v.Type())
		}
		v.SetInt(i)
	case kUint:
		u, err := strconv.ParseUint(text, 10, 64)
		if err != nil {
			return err
		}
		if v.OverflowUint(u) {
			return fmt.Errorf("%s overflows %s", text, v.Type())
		}
		v.SetUint(u)
	case kFloat:
		f, err := strconv.ParseFloat(text, 64)
		if err != nil {
			return err
		}
		v.SetFloat(f)
	case kDuration:
		d, err := time.ParseDuration(text)
		if err != nil {
			return err
		}
		if v.Type() == durationWrapperType {
			v.Set(reflect.ValueOf(config.DurationWrapper{Duration: d}))
		} else {
			v.SetInt(int64(d))
		}
	default:
		return fmt.Errorf("kind %s", kind)
	}
	return nil
}

// textOf renders a leaf value as canonical text.
func textOf(v reflect.Value, kind string) string {
	switch kind {
	case kString:
		return v.String()
	case kBool:
		return strconv.FormatBool(v.Bool())
	case kInt:
		return strconv.FormatInt(v.Int(), 10)
	case kUint:
		return strconv.FormatUint(v.Uint(), 10)
	case kFloat:
		return fmtFloat(v.Float())
	case kDuration:
		if v.Type() == durationWrapperType {
			return v.Interface().(config.DurationWrapper).Duration.String()
		}
		return time.Duration(v.Int()).String()
	}
	return fmt.Sprint(v.Interface())
}

// sameValue says whether two canonical texts denote the same value of a kind.
func sameValue(kind, a, b string) bool {
	if a == b {
		return true
	}
	switch kind {
	case kFloat:
		x, e1 := strconv.ParseFloat(a, 64)
		y, e2 := strconv.ParseFloat(b, 64)
		return e1 == nil && e2 == nil && x == y
	case kDuration:
		x, e1 := time.ParseDuration(a)
		y, e2 := time.ParseDuration(b)
		return e1 == nil && e2 == nil && x == y
	case kBool:
		x, e1 := strconv.ParseBool(a)
		y, e2 := strconv.ParseBool(b)
		return e1 == nil && e2 == nil && x == y
	}
	return false
}

const quickTable = 20

var plainSafe = regexp.MustCompile(`^[A-Za-z/][A-Za-z0-9_./-]*$`)

var yamlWords = map[string]bool{"true": true, "false": true, "null": true, "yes": true, "no": true, "on": true, "off": true, "y": true, "n": true, "nan": true, "inf": true}

// needsQuoting is the non-triviality predicate "a string needing YAML quoting": written as a
// plain scalar it would not be read back as the same string.
func needsQuoting(s string) bool {
	return !plainSafe.MatchString(s) || yamlWords[strings.ToLower(s)]
}

// yamlScalar renders a value for a hand-written configuration file. style: "dq" double-quoted
// (JSON string syntax, which is YAML), "sq" single-quoted, "plain". Styles that cannot carry
// the value fall back to "dq".
func yamlScalar(kind, text, style string) string {
	dq := func() string {
		var sb strings.Builder
		enc := json.NewEncoder(&sb)
		enc.SetEscapeHTML(false)
		_ = enc.Encode(text)
		return strings.TrimSuffix(sb.String(), "\n")
	}
	if kind != kString && kind != kDuration {
		return text // numbers and booleans are written plain
	}
	switch style {
	case "plain":
		if !needsQuoting(text) || (kind == kDuration && !strings.HasPrefix(text, "-")) {
			return text
		}
	case "sq":
		if !strings.ContainsAny(text, "\n\t") {
			return "'" + strings.ReplaceAll(text, "'", "''") + "'"
		}
	}
	return dq()
}

type ynode struct {
	keys []string
	kids map[string]*ynode
	val  string
	leaf bool
}

func (n *ynode) child(k string) *ynode {
	if n.kids == nil {
		n.kids = map[string]*ynode{}
	}
	c, ok := n.kids[k]
	if !ok {
		c = &ynode{}
		n.kids[k] = c
		n.keys = append(n.keys, k)
	}
	return c
}

func (n *ynode) render(sb *strings.Builder, indent int) {
	for _, k := range n.keys {
		c := n.kids[k]
		sb.WriteString(strings.Repeat("  ", indent))
		sb.WriteString(k)
		sb.WriteString(":")
		if c.leaf {
			sb.WriteString(" " + c.val + "\n")
			continue
		}
		sb.WriteString("\n")
		c.render(sb, indent+1)
	}
}
