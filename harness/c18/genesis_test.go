package c18

import (
	"bytes"
	"encoding/json"
	"errors"
	"fmt"
	"os"
	"path/filepath"
	"testing"
	"time"

	"pgregory.net/rapid"

	"github.com/evstack/ev-node/pkg/genesis"

	"verif/harness/world"
)

// GenesisScenario is one genesis value and what is done with it.
//
// Mode: "roundtrip" Save then LoadGenesis; "create" CreateGenesis then LoadGenesis;
// "invalid" the value is made invalid in the way Invalid names, written (by Save or as a
// hand-written file) and must be refused; "truncated" a valid file cut after Cut bytes.
type GenesisScenario struct {
	Mode        string `json:"mode"`
	ChainID     string `json:"chain_id"`
	Height      uint64 `json:"initial_height"`
	UnixSec     int64  `json:"unix_sec"`
	Nanos       int64  `json:"nanos"`
	ZoneMin     int    `json:"zone_min"` // offset east of UTC in minutes; 0 = UTC
	Addr        []byte `json:"addr"`
	EmptyAddr   bool   `json:"empty_addr,omitempty"`
	Invalid     string `json:"invalid,omitempty"` // no-chain-id | height-0 | zero-time | no-address
	Tail        string `json:"tail,omitempty"`    // trailing: what follows the valid genesis object in the file
	ByHand      bool   `json:"by_hand,omitempty"` // invalid file written as JSON text, key omitted / null
	CutPermille int    `json:"cut_permille,omitempty"`
}

func (sc GenesisScenario) time() time.Time {
	loc := time.UTC
	if sc.ZoneMin != 0 {
		loc = time.FixedZone("", sc.ZoneMin*60)
	}
	return time.Unix(sc.UnixSec, sc.Nanos).In(loc)
}

const (
	minGenesisSec = -62135596800 + 86400*2 // 0001-01-03
	maxGenesisSec = 253402300799 - 86400*2 // 9999-12-29
)

func genGenesis(t *rapid.T) GenesisScenario {
	sc := GenesisScenario{}
	sc.Mode = rapid.SampledFrom([]string{"roundtrip", "roundtrip", "roundtrip", "create", "invalid", "invalid", "truncated", "trailing"}).Draw(t, "mode")
	sc.ChainID = genString(t, "chain")
	if sc.ChainID == "" {
		sc.ChainID = "c"
	}
	switch rapid.IntRange(0, 3).Draw(t, "hshape") {
	case 0:
		sc.Height = 1
	case 1:
		sc.Height = rapid.SampledFrom([]uint64{2, 1 << 32, 1<<53 + 1, 1<<63 - 1, 1 << 63, 1<<64 - 1}).Draw(t, "hedge")
	default:
		sc.Height = rapid.Uint64Range(1, 1<<64-1).Draw(t, "h")
	}
	switch rapid.IntRange(0, 3).Draw(t, "tshape") {
	case 0:
		sc.UnixSec = rapid.Int64Range(minGenesisSec, maxGenesisSec).Draw(t, "sec-any")
	case 1:
		sc.UnixSec = rapid.SampledFrom([]int64{0, -1, 1, minGenesisSec, maxGenesisSec, 1_700_000_000, 951782400}).Draw(t, "sec-edge")
	default:
		sc.UnixSec = rapid.Int64Range(1_500_000_000, 2_500_000_000).Draw(t, "sec")
	}
	switch rapid.IntRange(0, 3).Draw(t, "nshape") {
	case 0:
		sc.Nanos = 0
	case 1:
		sc.Nanos = rapid.SampledFrom([]int64{1, 999_999_999, 500_000_000, 1000, 123_000_000, 100}).Draw(t, "ns-edge")
	default:
		sc.Nanos = rapid.Int64Range(0, 999_999_999).Draw(t, "ns")
	}
	switch rapid.IntRange(0, 3).Draw(t, "zshape") {
	case 0:
		sc.ZoneMin = 0
	case 1:
		sc.ZoneMin = rapid.SampledFrom([]int{60, -60, 330, 345, -210, 765, 840, -720, 1, -1}).Draw(t, "zone-edge")
	default:
		sc.ZoneMin = rapid.IntRange(-12*60, 14*60).Draw(t, "zone")
	}
	switch rapid.IntRange(0, 4).Draw(t, "ashape") {
	case 4:
		// an empty but non-nil address: Validate refuses only a nil one, so this is a genesis the node
		// can write
		sc.Addr = []byte{}
		sc.EmptyAddr = true
	case 0:
		sc.Addr = rapid.SliceOfN(rapid.Byte(), 20, 20).Draw(t, "addr20")
	case 1:
		sc.Addr = rapid.SliceOfN(rapid.Byte(), 32, 32).Draw(t, "addr32")
	default:
		sc.Addr = rapid.SliceOfN(rapid.Byte(), 1, 64).Draw(t, "addr")
	}
	switch sc.Mode {
	case "invalid":
		sc.Invalid = rapid.SampledFrom([]string{"no-chain-id", "height-0", "zero-time", "no-address"}).Draw(t, "invalid")
		sc.ByHand = rapid.Bool().Draw(t, "byhand")
	case "truncated":
		sc.CutPermille = rapid.IntRange(0, 999).Draw(t, "cut")
	case "trailing":
		sc.Tail = rapid.SampledFrom([]string{"whitespace", "second-genesis", "garbage", "leftover", "leftover", "number"}).Draw(t, "tail")
		sc.CutPermille = rapid.IntRange(0, 999).Draw(t, "tailcut")
	}
	return sc
}

func sameGenesis(a, b genesis.Genesis) string {
	switch {
	case a.ChainID != b.ChainID:
		return fmt.Sprintf("chain id %q became %q", a.ChainID, b.ChainID)
	case a.InitialHeight != b.InitialHeight:
		return fmt.Sprintf("initial height %d became %d", a.InitialHeight, b.InitialHeight)
	case !a.GenesisDAStartTime.Equal(b.GenesisDAStartTime):
		return fmt.Sprintf("genesis time %s became %s", a.GenesisDAStartTime.Format(time.RFC3339Nano), b.GenesisDAStartTime.Format(time.RFC3339Nano))
	case !bytes.Equal(a.ProposerAddress, b.ProposerAddress):
		return fmt.Sprintf("proposer address %x became %x", a.ProposerAddress, b.ProposerAddress)
	}
	return ""
}

func runGenesis(sc GenesisScenario, tmp string) (v world.Verdict) {
	defer func() {
		if r := recover(); r != nil {
			v = world.Fail("C18/genesis-panic/"+sc.Mode, "genesis %s %+v panicked: %v", sc.Mode, sc, r)
		}
	}()
	if sc.EmptyAddr {
		sc.Addr = []byte{}
	}
	if sc.ChainID == "" || sc.Height == 0 || (len(sc.Addr) == 0 && !sc.EmptyAddr) || sc.UnixSec < minGenesisSec || sc.UnixSec > maxGenesisSec ||
		sc.Nanos < 0 || sc.Nanos > 999_999_999 || sc.ZoneMin < -12*60 || sc.ZoneMin > 14*60 {
		return world.Verdict{Excluded: true}
	}
	home := filepath.Join(tmp, "ghome")
	path := genesis.GenesisPath(home)
	if err := os.Remove(path); err != nil && !os.IsNotExist(err) {
		panic(err)
	}
	if _, err := os.Stat(filepath.Dir(path)); err != nil {
		if err := os.MkdirAll(filepath.Dir(path), 0o750); err != nil {
			panic(err)
		}
	}
	g := genesis.NewGenesis(sc.ChainID, sc.Height, sc.time(), append([]byte{}, sc.Addr...))
	labels := []string{"mode:" + sc.Mode}
	_, off := g.GenesisDAStartTime.Zone()
	subsecZoned := sc.Nanos != 0 && off != 0
	if sc.Nanos%1_000_000 != 0 {
		labels = append(labels, "ns-precision")
	}
	if off != 0 {
		labels = append(labels, "non-utc")
	}

	switch sc.Mode {
	case "roundtrip":
		if err := g.Validate(); err != nil {
			return world.Fail("C18/genesis-valid-refused", "Validate refuses a genesis with chain id, height %d, non-zero time and address: %v", sc.Height, err)
		}
		if err := g.Save(path); err != nil {
			return world.Fail("C18/genesis-save-error", "Save failed for %+v: %v", g, err)
		}
		back, err := genesis.LoadGenesis(path)
		if err != nil {
			file, _ := os.ReadFile(path)
			return world.Fail("C18/genesis-own-file-refused", "the genesis file written by Save does not load: %v\n%s", err, file)
		}
		if d := sameGenesis(g, back); d != "" {
			file, _ := os.ReadFile(path)
			return world.Fail("C18/genesis-roundtrip", "genesis saved and loaded back differs: %s\n%s", d, file)
		}
		_, off2 := back.GenesisDAStartTime.Zone()
		if off2 != off {
			v = world.OK(subsecZoned, labels...)
			v.Observations = []string{"genesis zone offset not preserved (same instant)"}
			return v
		}
		return world.OK(subsecZoned, labels...)

	case "create":
		if err := genesis.CreateGenesis(home, sc.ChainID, sc.Height, append([]byte{}, sc.Addr...)); err != nil {
			return world.Fail("C18/genesis-create-error", "CreateGenesis failed: %v", err)
		}
		back, err := genesis.LoadGenesis(path)
		if err != nil {
			file, _ := os.ReadFile(path)
			return world.Fail("C18/genesis-created-file-refused", "the genesis file written by CreateGenesis does not load: %v\n%s", err, file)
		}
		want := g
		want.GenesisDAStartTime = back.GenesisDAStartTime // chosen by the node (current time)
		if d := sameGenesis(want, back); d != "" {
			return world.Fail("C18/genesis-create-roundtrip", "CreateGenesis then LoadGenesis: %s", d)
		}
		before, _ := os.ReadFile(path)
		err = genesis.CreateGenesis(home, sc.ChainID+"-other", sc.Height, sc.Addr)
		after, _ := os.ReadFile(path)
		if !errors.Is(err, genesis.ErrGenesisExists) || !bytes.Equal(before, after) {
			return world.Fail("C18/genesis-create-overwrites", "a second CreateGenesis returned %v and the existing file changed=%v", err, !bytes.Equal(before, after))
		}
		return world.OK(true, labels...)

	case "invalid":
		labels = append(labels, "invalid:"+sc.Invalid)
		bad := g
		switch sc.Invalid {
		case "no-chain-id":
			bad.ChainID = ""
		case "height-0":
			bad.InitialHeight = 0
		case "zero-time":
			bad.GenesisDAStartTime = time.Time{}
			if sc.ZoneMin != 0 {
				bad.GenesisDAStartTime = time.Time{}.In(time.FixedZone("", sc.ZoneMin*60)) // the same instant, other zone
			}
		case "no-address":
			bad.ProposerAddress = nil
		default:
			return world.Verdict{Excluded: true}
		}
		if bad.Validate() == nil {
			return world.Fail("C18/genesis-invalid-accepted:"+sc.Invalid, "Validate accepts a genesis that is invalid (%s): %+v", sc.Invalid, bad)
		}
		if sc.ByHand {
			labels = append(labels, "hand-written")
			m := map[string]any{}
			js, _ := json.Marshal(g)
			_ = json.Unmarshal(js, &m)
			key := map[string]string{"no-chain-id": "chain_id", "height-0": "initial_height", "zero-time": "genesis_da_start_height", "no-address": "proposer_address"}[sc.Invalid]
			if sc.Height%2 == 0 && sc.Invalid == "no-address" {
				m[key] = nil
			} else {
				delete(m, key)
			}
			js, _ = json.MarshalIndent(m, "", "  ")
			if err := os.WriteFile(path, js, 0o600); err != nil {
				panic(err)
			}
		} else if err := bad.Save(path); err != nil {
			return world.OK(true, append(labels, "refused-at-save")...)
		}
		if got, err := genesis.LoadGenesis(path); err == nil {
			file, _ := os.ReadFile(path)
			return world.Fail("C18/genesis-invalid-accepted:"+sc.Invalid, "LoadGenesis accepts an invalid genesis file (%s) and returns %+v\n%s", sc.Invalid, got, file)
		}
		return world.OK(true, labels...)

	case "trailing":
		// a complete, valid genesis object followed by more bytes (an older, longer file overwritten in place;
		// a second genesis appended; junk): the file is not a genesis document, only white space may follow
		if err := g.Save(path); err != nil {
			return world.Fail("C18/genesis-save-error", "Save failed for %+v: %v", g, err)
		}
		file, _ := os.ReadFile(path)
		var tail []byte
		switch sc.Tail {
		case "whitespace":
			tail = []byte("\n \t\r\n")
		case "second-genesis":
			g2 := g
			g2.ChainID = g.ChainID + "-other"
			tail, _ = json.MarshalIndent(g2, "", "  ")
		case "garbage":
			tail = []byte("}}\x00garbage")
		case "number":
			tail = []byte(" 7")
		default: // leftover: the end of a longer file that used to be there
			tail = append([]byte(nil), file[len(file)*sc.CutPermille/1000:]...)
			if len(bytes.TrimSpace(tail)) == 0 {
				tail = []byte("}")
			}
		}
		labels = append(labels, "tail:"+sc.Tail)
		if err := os.WriteFile(path, append(append([]byte(nil), file...), tail...), 0o600); err != nil {
			panic(err)
		}
		got, err := genesis.LoadGenesis(path)
		if sc.Tail == "whitespace" {
			if err != nil {
				return world.Fail("C18/genesis-load-error", "LoadGenesis refuses a genesis file followed by white space only: %v", err)
			}
			if d := sameGenesis(g, got); d != "" {
				return world.Fail("C18/genesis-roundtrip", "genesis followed by white space loads back different: %s", d)
			}
			return world.OK(true, labels...)
		}
		if err == nil {
			return world.Fail("C18/genesis-trailing-content-accepted", "LoadGenesis accepts a genesis file in which %d more bytes (%s) follow the genesis object, and returns %+v", len(tail), sc.Tail, got)
		}
		return world.OK(true, labels...)

	case "truncated":
		if err := g.Save(path); err != nil {
			return world.Fail("C18/genesis-save-error", "Save failed for %+v: %v", g, err)
		}
		file, _ := os.ReadFile(path)
		cut := len(file) * sc.CutPermille / 1000
		if cut >= len(file) {
			return world.Verdict{Excluded: true}
		}
		if err := os.WriteFile(path, file[:cut], 0o600); err != nil {
			panic(err)
		}
		if got, err := genesis.LoadGenesis(path); err == nil {
			return world.Fail("C18/genesis-truncated-accepted", "LoadGenesis accepts a genesis file cut after %d of %d bytes and returns %+v", cut, len(file), got)
		}
		return world.OK(true, labels...)
	}
	return world.Verdict{Excluded: true}
}

func TestC18Genesis(t *testing.T) {
	tmp := t.TempDir()
	world.Run(t, "C18", "genesis", world.Scale(1500, 10000), genGenesis, func(sc GenesisScenario) world.Verdict { return runGenesis(sc, tmp) })
}
