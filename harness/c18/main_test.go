// Package c18 decides C18: every configuration option obeys flag > file > default and survives
// save/load; a genesis file written by the node loads back equal and an invalid one is refused.
//
// Everything is discovered by reflection at start-up: the leaf fields of config.Config (with their
// mapstructure and yaml paths) and the flags that AddGlobalFlags/AddFlags register on a fresh
// cobra command tree shaped like the real applications (global flags on the root command, node
// flags on the sub-command). A field or flag added later is therefore covered without touching
// this package; a field of a kind this package has no value domain for stops the run as
// inconclusive instead of being skipped.
package c18

import (
	"fmt"
	"os"
	"reflect"
	"sort"
	"strings"
	"testing"
	"time"

	"github.com/spf13/cobra"
	"github.com/spf13/pflag"

	"github.com/evstack/ev-node/pkg/config"
)

// Kinds of leaf values the harness has a domain for.
const (
	kString   = "string"
	kBool     = "bool"
	kInt      = "int"
	kUint     = "uint"
	kFloat    = "float"
	kDuration = "duration"
)

// leaf is one option of config.Config.
type leaf struct {
	Path     string // key path the loader decodes from (mapstructure tag, else the field name)
	YAMLPath string // key path the yaml writer uses (yaml tag)
	GoName   string // e.g. Node.BlockTime
	Index    [][]int
	Kind     string
	Bits     int
	Loadable bool // false only for fields tagged mapstructure:"-"
	Saved    bool // false for fields tagged yaml:"-"
}

// flagInfo is one registered command-line flag.
type flagInfo struct {
	Name       string
	Type       string // pflag value type
	Kind       string
	Bits       int
	Def        string
	Persistent bool
	Target     string // Name without the "rollkit." prefix: the key Load binds the flag to
}

// Flags that are documented not to be configuration options.
//
//	home                       selects the directory the file is read from (Config.RootDir)
//	rollkit.signer.passphrase  consumed directly by StartNode / init, deliberately never stored
var exemptFlags = map[string]bool{
	config.FlagRootDir:          true,
	config.FlagSignerPassphrase: true,
}

// Fields that are documented not to be file options.
var exemptFields = map[string]bool{"RootDir": true}

var (
	leaves     []leaf
	leafByPath = map[string]*leaf{}
	flags      []flagInfo
	flagByName = map[string]*flagInfo{}
	pristine   config.Config
	setupErr   string
)

var durationWrapperType = reflect.TypeOf(config.DurationWrapper{})
var durationType = reflect.TypeOf(time.Duration(0))

func tagName(f reflect.StructField, key string) (name string, present bool) {
	t, ok := f.Tag.Lookup(key)
	if !ok {
		return "", false
	}
	name, _, _ = strings.Cut(t, ",")
	return name, true
}

func discover(t reflect.Type, msPrefix, yamlPrefix, goPrefix string, index [][]int, loadable, saved bool) {
	for i := 0; i < t.NumField(); i++ {
		f := t.Field(i)
		if !f.IsExported() {
			continue
		}
		if f.Anonymous {
			setupErr = "embedded field " + goPrefix + f.Name + ": no model for squashed structs"
			return
		}
		ms, okMS := tagName(f, "mapstructure")
		ya, okYA := tagName(f, "yaml")
		l, s := loadable, saved
		if ms == "-" {
			l = false
		}
		if ya == "-" {
			s = false
		}
		// mapstructure without a (usable) tag matches the field name case-insensitively; viper
		// lower-cases all keys.
		if !okMS || ms == "" || ms == "-" {
			ms = strings.ToLower(f.Name)
		}
		// goccy/go-yaml without a tag uses the lower-cased field name; a field that is never
		// written (yaml:"-") can only be hand-written under the key the loader decodes
		switch {
		case ya == "-":
			ya = ms
		case !okYA || ya == "":
			ya = strings.ToLower(f.Name)
		}
		ft := f.Type
		idx := append(append([][]int{}, index...), f.Index)
		if ft.Kind() == reflect.Pointer {
			ft = ft.Elem()
		}
		msPath, yaPath, goName := msPrefix+ms, yamlPrefix+ya, goPrefix+f.Name
		if ft.Kind() == reflect.Struct && ft != durationWrapperType {
			discover(ft, msPath+".", yaPath+".", goName+".", idx, l, s)
			continue
		}
		lf := leaf{Path: msPath, YAMLPath: yaPath, GoName: goName, Index: idx, Loadable: l, Saved: s}
		switch {
		case ft == durationWrapperType || ft == durationType:
			lf.Kind = kDuration
		case ft.Kind() == reflect.String:
			lf.Kind = kString
		case ft.Kind() == reflect.Bool:
			lf.Kind = kBool
		case ft.Kind() >= reflect.Int && ft.Kind() <= reflect.Int64:
			lf.Kind, lf.Bits = kInt, ft.Bits()
		case ft.Kind() >= reflect.Uint && ft.Kind() <= reflect.Uint64:
			lf.Kind, lf.Bits = kUint, ft.Bits()
		case ft.Kind() == reflect.Float32 || ft.Kind() == reflect.Float64:
			lf.Kind, lf.Bits = kFloat, ft.Bits()
		default:
			setupErr = fmt.Sprintf("field %s has type %s: the harness has no value domain for it", goName, f.Type)
			return
		}
		leaves = append(leaves, lf)
	}
}

// fieldOf walks cfg down to the leaf (through pointers, which must be non-nil).
func fieldOf(cfg *config.Config, l *leaf) (reflect.Value, bool) {
	v := reflect.ValueOf(cfg).Elem()
	for _, ix := range l.Index {
		if v.Kind() == reflect.Pointer {
			if v.IsNil() {
				return reflect.Value{}, false
			}
			v = v.Elem()
		}
		v = v.FieldByIndex(ix)
	}
	return v, true
}

// cloneConfig deep-copies a Config (pointer-to-struct fields are duplicated).
func cloneConfig(c config.Config) config.Config {
	out := c
	clonePtrs(reflect.ValueOf(&out).Elem())
	return out
}

func clonePtrs(v reflect.Value) {
	for i := 0; i < v.NumField(); i++ {
		f := v.Field(i)
		if !f.CanSet() {
			continue
		}
		switch {
		case f.Kind() == reflect.Pointer && !f.IsNil() && f.Elem().Kind() == reflect.Struct:
			n := reflect.New(f.Type().Elem())
			n.Elem().Set(f.Elem())
			clonePtrs(n.Elem())
			f.Set(n)
		case f.Kind() == reflect.Struct && f.Type() != durationWrapperType:
			clonePtrs(f)
		}
	}
}

// newCommand builds the command tree the way the applications do: global flags are persistent
// flags of the root command, node flags belong to the sub-command that loads the configuration.
func newCommand(run func(cmd *cobra.Command) error) (root, sub *cobra.Command) {
	root = &cobra.Command{Use: "app", SilenceUsage: true, SilenceErrors: true}
	config.AddGlobalFlags(root, "app")
	sub = &cobra.Command{Use: "start", SilenceUsage: true, SilenceErrors: true, Args: cobra.ArbitraryArgs,
		RunE: func(cmd *cobra.Command, _ []string) error { return run(cmd) }}
	config.AddFlags(sub)
	root.AddCommand(sub)
	return root, sub
}

func flagKind(typ string) (string, int, bool) {
	switch typ {
	case "string":
		return kString, 0, true
	case "bool":
		return kBool, 0, true
	case "duration":
		return kDuration, 0, true
	case "float64":
		return kFloat, 64, true
	case "float32":
		return kFloat, 32, true
	case "int", "int64":
		return kInt, 64, true
	case "int32":
		return kInt, 32, true
	case "int16":
		return kInt, 16, true
	case "int8":
		return kInt, 8, true
	case "uint", "uint64":
		return kUint, 64, true
	case "uint32":
		return kUint, 32, true
	case "uint16":
		return kUint, 16, true
	case "uint8":
		return kUint, 8, true
	}
	return "", 0, false
}

func discoverFlags() {
	root, sub := newCommand(func(*cobra.Command) error { return nil })
	add := func(persistent bool) func(f *pflag.Flag) {
		return func(f *pflag.Flag) {
			if f.Name == "help" {
				return
			}
			k, bits, ok := flagKind(f.Value.Type())
			if !ok {
				setupErr = fmt.Sprintf("flag --%s has type %s: the harness has no value domain for it", f.Name, f.Value.Type())
				return
			}
			flags = append(flags, flagInfo{Name: f.Name, Type: f.Value.Type(), Kind: k, Bits: bits, Def: f.DefValue,
				Persistent: persistent, Target: strings.TrimPrefix(f.Name, "rollkit.")})
		}
	}
	root.PersistentFlags().VisitAll(add(true))
	sub.Flags().VisitAll(add(false))
	sort.Slice(flags, func(i, j int) bool { return flags[i].Name < flags[j].Name })
}

// scrubEnv removes every environment variable the loader could pick up (Load calls
// viper.AutomaticEnv and binds <executable>_<FLAG> variables). Only what the harness and the Go
// runtime need is kept.
func scrubEnv() {
	keep := func(k string) bool {
		switch k {
		case "PATH", "HOME", "TMPDIR", "GOLOG_LOG_LEVEL", "GOEXPERIMENT", "GOTRACEBACK", "GOMAXPROCS":
			return true
		}
		return strings.HasPrefix(k, "VERIF_")
	}
	for _, kv := range os.Environ() {
		k, _, _ := strings.Cut(kv, "=")
		if !keep(k) {
			_ = os.Unsetenv(k)
		}
	}
}

func TestMain(m *testing.M) {
	scrubEnv()
	pristine = cloneConfig(config.DefaultConfig)
	discover(reflect.TypeOf(config.Config{}), "", "", "", nil, true, true)
	sort.Slice(leaves, func(i, j int) bool { return leaves[i].Path < leaves[j].Path })
	for i := range leaves {
		if prev, dup := leafByPath[leaves[i].Path]; dup {
			setupErr = fmt.Sprintf("fields %s and %s share the key %s", prev.GoName, leaves[i].GoName, leaves[i].Path)
		}
		leafByPath[leaves[i].Path] = &leaves[i]
	}
	discoverFlags()
	for i := range flags {
		flagByName[flags[i].Name] = &flags[i]
	}
	os.Exit(m.Run())
}

// requireSetup turns a discovery problem into an inconclusive run (no VIOLATION line).
func requireSetup(t *testing.T) {
	t.Helper()
	if setupErr != "" {
		t.Fatalf("C18 harness cannot model the configuration: %s", setupErr)
	}
	if len(leaves) < 5 || len(flags) < 5 {
		t.Fatalf("C18 discovery found only %d fields and %d flags", len(leaves), len(flags))
	}
}

// resetDefaults restores the package-level defaults before a case, so that a case is a pure
// function of its scenario even if the code under test writes through DefaultConfig.
func resetDefaults() {
	config.DefaultConfig = cloneConfig(pristine)
}
