// Package c11 decides C11: no transaction taken from the mempool is lost on its way into the
// chain — the end-to-end aggregator pipeline (execution mempool -> real Reaper -> real single
// sequencer -> real production step) on one crash-capable datastore, with a crash enumerated at
// every durable-write boundary of every reap and produce step of the generated history.
package c11

import (
	"bytes"
	"context"
	"fmt"
	"testing"
	"time"

	"pgregory.net/rapid"

	"github.com/evstack/ev-node/block"
	coresequencer "github.com/evstack/ev-node/core/sequencer"
	"github.com/evstack/ev-node/sequencers/single"

	"verif/harness/pw"
	"verif/harness/world"
)

type Op struct {
	// Kind: arrive | reap | produce | produce-exec-fails | produce-stop-during-take | restart
	Kind string   `json:"kind"`
	Txs  [][]byte `json:"txs,omitempty"`
	// Pad > 0 (arrive): every transaction of this arrival is padded to Pad more bytes when the scenario runs
	// (a reap of megabytes from a short description).
	Pad int `json:"pad,omitempty"`
}

// expanded returns the scenario with the paddings applied.
func (sc Scenario) expanded() Scenario {
	out := sc
	out.Ops = make([]Op, len(sc.Ops))
	for i, o := range sc.Ops {
		if o.Pad > 0 {
			txs := make([][]byte, len(o.Txs))
			for j, tx := range o.Txs {
				txs[j] = append(append([]byte(nil), tx...), bytes.Repeat([]byte{'.'}, o.Pad)...)
			}
			o.Txs, o.Pad = txs, 0
		}
		out.Ops[i] = o
	}
	return out
}

type Scenario struct {
	QueueBound int  `json:"queue_bound"`
	Ops        []Op `json:"ops"`
	// CoarseClock: the sequencing layer stamps its batches with a coarse clock (10 s granularity), so
	// consecutive batches carry equal timestamps - which block production accepts.
	CoarseClock bool `json:"coarse_clock,omitempty"`
}

func gen(t *rapid.T) Scenario {
	sc := Scenario{QueueBound: rapid.SampledFrom([]int{1, 1, 2, 3, 1000}).Draw(t, "bound")}
	sc.CoarseClock = rapid.IntRange(0, 2).Draw(t, "clock") == 0
	n := rapid.IntRange(3, world.Scale(12, 24)).Draw(t, "nops")
	pool := [][]byte{}
	for i := 0; i < n; i++ {
		switch k := rapid.IntRange(0, 9).Draw(t, "op"); {
		case k < 4:
			m := rapid.IntRange(1, 3).Draw(t, "ntx")
			o := Op{Kind: "arrive"}
			for j := 0; j < m; j++ {
				var tx []byte
				if len(pool) > 0 && rapid.IntRange(0, 3).Draw(t, "repeat") == 0 {
					tx = pool[rapid.IntRange(0, len(pool)-1).Draw(t, "which")]
				} else {
					tx = rapid.SliceOfN(rapid.Byte(), 1, 12).Draw(t, "tx")
					pool = append(pool, tx)
				}
				o.Txs = append(o.Txs, tx)
			}
			if rapid.Uint64().Draw(t, "bigarrival")%25 == 7 {
				// megabytes of new transactions in one reap (more than fits one batch of the sequencing layer)
				o.Pad = rapid.SampledFrom([]int{400_000, 600_000, 800_000}).Draw(t, "pad")
				for len(o.Txs) < 3 {
					tx := rapid.SliceOfN(rapid.Byte(), 1, 12).Draw(t, "bigtx")
					pool = append(pool, tx)
					o.Txs = append(o.Txs, tx)
				}
			}
			sc.Ops = append(sc.Ops, o)
		case k < 7:
			sc.Ops = append(sc.Ops, Op{Kind: "reap"})
		case k < 9:
			if x := rapid.IntRange(0, 11).Draw(t, "execfail"); x <= 1 {
				sc.Ops = append(sc.Ops, Op{Kind: "produce-exec-fails"}, Op{Kind: "restart"})
			} else if x <= 3 {
				sc.Ops = append(sc.Ops, Op{Kind: "produce-stop-during-take"}, Op{Kind: "restart"})
			} else {
				sc.Ops = append(sc.Ops, Op{Kind: "produce"})
			}
		default:
			sc.Ops = append(sc.Ops, Op{Kind: "restart"})
		}
	}
	return sc
}

// seqLog wraps the real sequencer and records what it released and what it refused.
type seqLog struct {
	inner    coresequencer.Sequencer
	released *[][][]byte
	refused  *int
	coarse   bool
	// onTake, when set, is called once right after the real sequencer has handed out a non-empty batch
	// (before the answer reaches the node): a stop request that arrives during the call
	onTake *func()
}

func (s seqLog) SubmitBatchTxs(ctx context.Context, req coresequencer.SubmitBatchTxsRequest) (*coresequencer.SubmitBatchTxsResponse, error) {
	r, err := s.inner.SubmitBatchTxs(ctx, req)
	if err != nil {
		*s.refused++
	}
	return r, err
}

func (s seqLog) GetNextBatch(ctx context.Context, req coresequencer.GetNextBatchRequest) (*coresequencer.GetNextBatchResponse, error) {
	r, err := s.inner.GetNextBatch(ctx, req)
	if err == nil && r != nil && s.coarse {
		r.Timestamp = r.Timestamp.Truncate(10 * time.Second)
	}
	if err == nil && r != nil && r.Batch != nil && len(r.Batch.Transactions) > 0 {
		cp := make([][]byte, len(r.Batch.Transactions))
		for i, tx := range r.Batch.Transactions {
			cp[i] = append([]byte(nil), tx...)
		}
		*s.released = append(*s.released, cp)
		if s.onTake != nil && *s.onTake != nil {
			f := *s.onTake
			*s.onTake = nil
			f()
		}
	}
	return r, err
}

func (s seqLog) VerifyBatch(ctx context.Context, req coresequencer.VerifyBatchRequest) (*coresequencer.VerifyBatchResponse, error) {
	return s.inner.VerifyBatch(ctx, req)
}

type pipeline struct {
	p        *pw.Producer
	reaper   *block.Reaper
	released [][][]byte
	refused  int
	bound    int
	coarse   bool
	onTake   func()
	// releasedInCrashedStep marks batches released by a step that then died
	releasedInCrashedStep map[int]bool
}

func (pl *pipeline) wire() error {
	seq, err := single.NewSequencerWithQueueSize(pl.p.Ctx, world.Logger(), pl.p.Raw, pl.p.DA, []byte(pl.p.Opts.ChainID), time.Second, nil, true, pl.bound)
	if err != nil {
		return err
	}
	pl.p.SeqOverride = seqLog{inner: seq, released: &pl.released, refused: &pl.refused, coarse: pl.coarse, onTake: &pl.onTake}
	return nil
}

func newPipeline(sc Scenario, dir string) (*pipeline, error) {
	pl := &pipeline{bound: sc.QueueBound, coarse: sc.CoarseClock, releasedInCrashedStep: map[int]bool{}}
	p, err := pw.New(world.NodeOpts{ChainID: "c11-chain", InitialHeight: 1, RootDir: dir})
	if err != nil {
		return nil, err
	}
	pl.p = p
	if err := pl.wire(); err != nil {
		return nil, err
	}
	// rebuild the manager with the real sequencer
	if err := p.RestartOn(p.Raw); err != nil {
		return nil, err
	}
	pl.mkReaper()
	return pl, nil
}

func (pl *pipeline) mkReaper() {
	pl.reaper = block.NewReaper(pl.p.Ctx, pl.p.Exec, pl.p.SeqOverride, pl.p.Opts.ChainID, time.Second, world.Logger(), pl.p.N.KV)
	pl.reaper.SetManager(pl.p.N.M)
}

func (pl *pipeline) restart(img map[string][]byte) error {
	pl.p.Raw = world.FromImage(img)
	if err := pl.wire(); err != nil {
		return err
	}
	if err := pl.p.RestartOn(pl.p.Raw); err != nil {
		return err
	}
	pl.mkReaper()
	return nil
}

// do performs one op; it returns crashed=true when the armed crash fired inside it.
func (pl *pipeline) do(o Op) (crashed bool, pan any) {
	nrel := len(pl.released)
	func() {
		defer func() {
			if r := recover(); r != nil {
				if _, ok := r.(world.CrashPanic); ok {
					crashed = true
					return
				}
				pan = r
			}
		}()
		switch o.Kind {
		case "arrive":
			for _, tx := range o.Txs {
				pl.p.Exec.InjectTx(tx)
			}
		case "reap":
			pl.reaper.SubmitTxs()
		case "produce":
			_ = pl.p.N.M.VerifPublishBlock(pl.p.Ctx)
		case "produce-stop-during-take":
			// the node is asked to stop while the sequencing layer is answering: the production step runs under a
			// context that ends the moment the batch has been handed out (the caller follows this op with a restart)
			ctx, cancel := context.WithCancel(pl.p.Ctx)
			pl.onTake = cancel
			_ = pl.p.N.M.VerifPublishBlock(ctx)
			pl.onTake = nil
			cancel()
		case "produce-exec-fails":
			// the execution layer fails this once (a transient error); block production gives up, which in a
			// running node ends the aggregation loop: the node is shut down and started again (the caller
			// follows this op with a restart)
			pl.p.Exec.FailNextExec(1)
			_ = pl.p.N.M.VerifPublishBlock(pl.p.Ctx)
			pl.p.Exec.FailNextExec(0)
		}
	}()
	if crashed {
		for i := nrel; i < len(pl.released); i++ {
			pl.releasedInCrashedStep[i] = true
		}
	}
	return
}

func (pl *pipeline) chainTxs() ([][][]byte, error) {
	h, err := pl.p.N.Store.Height(pl.p.Ctx)
	if err != nil {
		return nil, err
	}
	out := [][][]byte{}
	for i := uint64(1); i <= h; i++ {
		_, d, err := pl.p.N.Store.GetBlockData(pl.p.Ctx, i)
		if err != nil {
			return nil, fmt.Errorf("block %d: %w", i, err)
		}
		if len(d.Txs) == 0 {
			continue
		}
		b := make([][]byte, len(d.Txs))
		for j, tx := range d.Txs {
			b[j] = tx
		}
		out = append(out, b)
	}
	return out, nil
}

// runWith replays the scenario; crashAt >= 0 arms a crash at durable op crashK of op index crashAt.
// It returns the verdict and the number of durable ops each op performed (for enumeration).
func runWith(sc Scenario, crashAt, crashK int, dir string) (world.Verdict, []int) {
	pl, err := newPipeline(sc, dir)
	if err != nil {
		return world.Fail("C11/start", "cannot build the pipeline: %v", err), nil
	}
	ops := make([]int, len(sc.Ops))
	crashed := false
	for i, o := range sc.Ops {
		if o.Kind == "restart" {
			if err := pl.restart(pl.p.Raw.Image()); err != nil {
				return world.Fail("C11/restart-fails", "restart at op %d: %v", i, err), nil
			}
			continue
		}
		start := pl.p.Raw.Ops()
		if i == crashAt {
			pl.p.Raw.ArmCrashAfter(crashK)
		}
		c, pan := pl.do(o)
		pl.p.Raw.Disarm()
		if pan != nil {
			return world.Fail("C11/panic", "op %d (%s) panicked: %v", i, o.Kind, pan), nil
		}
		ops[i] = pl.p.Raw.Ops() - start
		if i == crashAt {
			crashed = true
			// process death (inside the op, or right after it when it performed fewer ops)
			if !c {
				pl.p.Raw.Kill()
			}
			if err := pl.restart(pl.p.Raw.Image()); err != nil {
				return world.Fail("C11/restart-fails", "restart after crash at op %d/%d: %v", i, crashK, err), nil
			}
		}
	}
	// quiescence: reap until the mempool yields nothing new, produce until the queue is drained
	for round := 0; round < 60; round++ {
		nrel := len(pl.released)
		nget := len(pl.p.Exec.CallsOf("gettxs"))
		_ = nget
		before := pl.refused
		pl.do(Op{Kind: "reap"})
		pl.do(Op{Kind: "produce"})
		pl.do(Op{Kind: "produce"})
		if len(pl.released) == nrel && pl.refused == before && round > 2 {
			break
		}
	}
	// oracle
	chain, err := pl.chainTxs()
	if err != nil {
		return world.Fail("C11/chain-read", "%v", err), nil
	}
	inChain := map[string]int{}
	for _, b := range chain {
		for _, tx := range b {
			inChain[string(tx)]++
		}
	}
	taken := map[string]bool{}
	for _, c := range pl.p.Exec.CallsOf("gettxs") {
		for _, tx := range c.Txs {
			taken[string(tx)] = true
		}
	}
	arrivals := map[string]int{}
	for _, o := range sc.Ops {
		for _, tx := range o.Txs {
			arrivals[string(tx)]++
		}
	}
	for tx := range taken {
		if inChain[tx] == 0 {
			// classify: was it in a batch released by a step that died before saving the block?
			sig := "C11/tx-lost"
			for i, b := range pl.released {
				for _, t := range b {
					if string(t) == tx && pl.releasedInCrashedStep[i] {
						sig = "C11/tx-lost/batch-taken-from-queue-then-crash-before-block-saved"
					}
				}
			}
			return world.Fail(sig, "transaction %x was taken from the mempool but is in no committed block after quiescence (crash at op %d, durable op %d)", tx, crashAt, crashK), ops
		}
	}
	// batches are included in the order the sequencing layer released them
	ci := 0
	for ri, b := range pl.released {
		if ci < len(chain) && world.EqTxs(chain[ci], b) {
			ci++
			continue
		}
		if pl.releasedInCrashedStep[ri] {
			continue // released by a step that died: may legitimately be absent (judged by the loss clause)
		}
		return world.Fail("C11/batch-order", "released batch %d %v is not the next non-empty block of the chain (chain has %d non-empty blocks, matched %d)", ri, brief(b), len(chain), ci), ops
	}
	if ci != len(chain) {
		return world.Fail("C11/unreleased-block", "the chain contains a non-empty block the sequencing layer never released (matched %d of %d)", ci, len(chain)), ops
	}
	if !crashed {
		for tx, n := range inChain {
			if n > arrivals[tx] {
				return world.Fail("C11/duplicated", "without any crash, transaction %x is included %d times but arrived %d times", tx, n, arrivals[tx]), ops
			}
		}
	}
	nb := len(pl.released)
	v := world.OK(nb >= 2 && (pl.refused > 0 || crashed))
	if pl.refused > 0 {
		v.Labels = append(v.Labels, "queue-full-refusal")
	}
	return v, ops
}

func brief(b [][]byte) string {
	var buf bytes.Buffer
	for i, tx := range b {
		if i > 0 {
			buf.WriteByte(' ')
		}
		fmt.Fprintf(&buf, "%x", tx)
	}
	return "[" + buf.String() + "]"
}

func run(sc Scenario, dir string) world.Verdict {
	sc = sc.expanded()
	base, ops := runWith(sc, -1, 0, dir)
	if base.Violation != "" {
		return base
	}
	runs, inside := 1, 0
	var known *world.Verdict
	nt := base.NonTrivial
	for i, o := range sc.Ops {
		if o.Kind != "reap" && o.Kind != "produce" {
			continue
		}
		for k := 0; k <= ops[i]; k++ {
			v, _ := runWith(sc, i, k, dir)
			runs++
			if k > 0 && k < ops[i] {
				inside++
			}
			if v.Violation != "" {
				if world.KnownOpen("C11", v.Signature) {
					if known == nil {
						kv := v
						known = &kv
					}
					continue
				}
				return v
			}
			nt = nt || v.NonTrivial
		}
	}
	if known != nil {
		known.Counts = map[string]int{"crash-runs": runs}
		return *known
	}
	v := world.OK(nt && inside > 0, base.Labels...)
	v.Counts = map[string]int{"crash-runs": runs, "crash-inside-step": inside}
	return v
}

func TestC11(t *testing.T) {
	dir := t.TempDir()
	world.Run(t, "C11", "mempool-to-chain", world.Scale(120, 600), gen, func(sc Scenario) world.Verdict { return run(sc, dir) })
}
