// Package c15 decides C15: the reference key-value execution layer returns a state root that
// depends only on the ordered transactions executed so far — not on when blocks were
// finalized, on mempool contents, on restarts, or on which node executes them; a block that
// contains a malformed transaction changes nothing, re-executing a block is harmless and
// chain initialization is idempotent.
//
// Shape of the check: rapid draws ONE block history and, independently for two instances A
// and B, an interleaving of side operations (SetFinal, InjectTx, GetTxs, repeated InitChain,
// re-execution of the last block, reopen on the same datastore). Two further instances act as
// the reference: P ("plain") executes every block with no side operation at all, Q
// ("accepted only") executes only the non-empty blocks P accepted (never an empty block and
// never a block that contains a transaction without a key or without '='). The oracle makes no assumption about the format
// of the root: it only compares roots returned by the real executor on different instances.
package c15

import (
	"bytes"
	"context"
	"fmt"
	"sort"
	"strings"
	"testing"
	"time"

	"pgregory.net/rapid"

	kv "github.com/evstack/ev-node/apps/testapp/kv"

	"verif/harness/world"
)

// ---------------------------------------------------------------------------------------------
// scenario

// SideOp is one operation that is not the execution of a new block.
type SideOp struct {
	// Kind: final | inject | gettxs | init | reexec | reopen
	Kind string `json:"kind"`
	// Back (final): the height finalized is (number of blocks executed so far) - Back, at least 1.
	Back int `json:"back,omitempty"`
	// Tx (inject): the transaction put into the mempool.
	Tx []byte `json:"tx,omitempty"`
}

// Block is one block of the common history plus what each instance does after executing it.
type Block struct {
	Txs     [][]byte `json:"txs"`
	NilTxs  bool     `json:"nil_txs,omitempty"` // an empty block is passed as nil instead of [][]byte{}
	DeltaMs int      `json:"delta_ms"`
	A       []SideOp `json:"a,omitempty"`
	B       []SideOp `json:"b,omitempty"`
}

// Scenario is the whole case: side operations between InitChain and the first block, then blocks.
type Scenario struct {
	PreA   []SideOp `json:"pre_a,omitempty"`
	PreB   []SideOp `json:"pre_b,omitempty"`
	Blocks []Block  `json:"blocks"`
}

var (
	genesisTime = time.Unix(1_700_000_000, 0).UTC()
	chainID     = "c15-chain"
)

// ---------------------------------------------------------------------------------------------
// generators

var commonKeys = []string{
	"a", "a", "b", "b", "c", "a/b", "/a", "a//b", "a/", " a ", "a b", "a/../b", "A", " ", "/", ".", "a:b", "a;b",
}

// nearReserved look like reserved keys but are ordinary ones.
var nearReserved = []string{"genesis", "genesis/x", "genesis/initialized/x", "finalizedHeight/x", "FinalizedHeight", "finalizedheight", "x/finalizedHeight"}

// reservedKeys are the executor's own keys in several spellings (ds.NewKey cleans the path).
var reservedKeys = []string{"genesis/initialized", "genesis/stateroot", "/genesis/initialized/", " genesis/stateroot ", "genesis//stateroot"}

// finalKeys address the key SetFinal writes.
var finalKeys = []string{"finalizedHeight", "/finalizedHeight", " finalizedHeight", "finalizedHeight/", "x/../finalizedHeight"}

var valAlphabet = []string{"", "1", "1", "2", "3", "4", " v ", "x=y", "p:q;", "/b:2", "\x00\xff", "true"}

// pick draws an (almost) uniform value in [0,n). rapid.IntRange is strongly biased towards small
// values, which would make the rare shapes listed first the most frequent ones; a full-width
// draw reduced modulo n is close to uniform and still shrinks towards 0 (the plainest shape).
func pick(t *rapid.T, label string, n int) int {
	return int(rapid.Uint64().Draw(t, label) % uint64(n))
}

func genKey(t *rapid.T) string {
	switch k := pick(t, "keyshape", 20); {
	case k < 15:
		return commonKeys[pick(t, "key", len(commonKeys))]
	case k < 17:
		return nearReserved[pick(t, "nearreserved", len(nearReserved))]
	case k == 17:
		return string(rapid.SliceOfN(rapid.ByteRange(0x20, 0x7e), 1, 6).Draw(t, "rndkey"))
	case k == 18:
		return finalKeys[pick(t, "finalkey", len(finalKeys))]
	default:
		return reservedKeys[pick(t, "reservedkey", len(reservedKeys))]
	}
}

func genVal(t *rapid.T) string {
	if pick(t, "valshape", 10) == 9 {
		return string(rapid.SliceOfN(rapid.Byte(), 0, 8).Draw(t, "rndval"))
	}
	return valAlphabet[pick(t, "val", len(valAlphabet))]
}

func genTx(t *rapid.T) []byte {
	switch k := pick(t, "txshape", 40); {
	case k < 37:
		return []byte(genKey(t) + "=" + genVal(t))
	case k == 37:
		// no '=' at all
		noeq := []string{"novalue", "", "a", "finalizedHeight", "a:1;"}
		return []byte(noeq[pick(t, "noeq", len(noeq))])
	case k == 38:
		// empty key
		nokey := []string{"=v", "=", " =v", "\t = 1"}
		return []byte(nokey[pick(t, "nokey", len(nokey))])
	default:
		// arbitrary bytes
		return rapid.SliceOfN(rapid.Byte(), 0, 10).Draw(t, "rawtx")
	}
}

func genSideOp(t *rapid.T) SideOp {
	switch pick(t, "opkind", 10) {
	case 0, 1, 2:
		// Back in -2..3: a negative value finalizes a height AHEAD of what this instance has executed
		// (the statement quantifies over all interleavings of execute and finalize: the root must not
		// depend on when heights were finalized, also when finality is signalled early)
		return SideOp{Kind: "final", Back: pick(t, "back", 6) - 2}
	case 3:
		return SideOp{Kind: "reopen"}
	case 4:
		return SideOp{Kind: "reexec"}
	case 5:
		return SideOp{Kind: "init"}
	case 6:
		return SideOp{Kind: "gettxs"}
	default:
		return SideOp{Kind: "inject", Tx: genTx(t)}
	}
}

func genSideOps(t *rapid.T, label string) []SideOp {
	n := pick(t, label, 4)
	var ops []SideOp
	for i := 0; i < n; i++ {
		ops = append(ops, genSideOp(t))
	}
	return ops
}

func genScenario(t *rapid.T) Scenario {
	var sc Scenario
	sc.PreA = genSideOps(t, "npreA")
	sc.PreB = genSideOps(t, "npreB")
	n := 1 + pick(t, "nblocks", world.Scale(8, 20))
	for i := 0; i < n; i++ {
		var b Block
		ntx := pick(t, "ntx", 5)
		if pick(t, "bigblock", 12) == 0 {
			// a large block (execution layers stage and flush in chunks): hundreds of valid transactions
			// and, in half of the cases, a malformed / reserved one late in the block
			nbig := []int{33, 130, 257, 300, 600, 1100, 2300}[pick(t, "nbig", 7)]
			// keys that sort before or after the executor's own records (a scan in key order meets those in the
			// middle of a large state, or at its end)
			prefix := []string{"big", "zbig", "h"}[pick(t, "bigprefix", 3)]
			for j := 0; j < nbig; j++ {
				b.Txs = append(b.Txs, []byte(fmt.Sprintf("%s%d/k%04d=v%d", prefix, i, j, j)))
			}
			if rapid.Bool().Draw(t, "bigbad") {
				pos := nbig - 1 - pick(t, "badfromend", 40)
				if pos < 0 {
					pos = 0
				}
				bad := genTx(t)
				b.Txs = append(b.Txs[:pos], append([][]byte{bad}, b.Txs[pos:]...)...)
			}
			ntx = 0
			if len(b.Txs) == 0 {
				ntx = 0
			}
		}
		for j := 0; j < ntx; j++ {
			b.Txs = append(b.Txs, genTx(t))
		}
		if len(b.Txs) > 0 {
			ntx = len(b.Txs)
		}
		if ntx == 0 {
			b.NilTxs = rapid.Bool().Draw(t, "niltxs")
		}
		b.DeltaMs = rapid.IntRange(1, 5000).Draw(t, "delta")
		b.A = genSideOps(t, "nA")
		b.B = genSideOps(t, "nB")
		sc.Blocks = append(sc.Blocks, b)
	}
	return sc
}

// stripFinal returns the scenario without any SetFinal operation (the second check explores
// everything else independently of finalization).
func stripFinal(sc Scenario) Scenario {
	f := func(ops []SideOp) []SideOp {
		var out []SideOp
		for _, o := range ops {
			if o.Kind != "final" {
				out = append(out, o)
			}
		}
		return out
	}
	sc.PreA, sc.PreB = f(sc.PreA), f(sc.PreB)
	for i := range sc.Blocks {
		sc.Blocks[i].A, sc.Blocks[i].B = f(sc.Blocks[i].A), f(sc.Blocks[i].B)
	}
	return sc
}

// ---------------------------------------------------------------------------------------------
// instances

// clearlyMalformed is the only assumption made about the transaction format: a transaction
// without any '=' or with nothing before the first '=' is not "key=value".
func clearlyMalformed(tx []byte) bool {
	return bytes.IndexByte(tx, '=') <= 0
}

func blockClearlyMalformed(txs [][]byte) bool {
	for _, tx := range txs {
		if clearlyMalformed(tx) {
			return true
		}
	}
	return false
}

type execArgs struct {
	txs    [][]byte
	height uint64
	ts     time.Time
	prev   []byte
}

type finalEvent struct {
	AfterBlock int
	Height     uint64
}

// inst is one executor instance with its own datastore.
type inst struct {
	name     string
	db       *world.CrashDS
	ex       *kv.KVExecutor
	ctx      context.Context
	genesis  []byte    // first InitChain answer
	root     []byte    // last root this instance returned (what a node would pass as prevStateRoot)
	executed uint64    // accepted blocks
	last     *execArgs // last block handed to ExecuteTxs (not probes)
	lastOK   bool
	finals   []finalEvent
	kinds    map[string]bool
	// retained: every root the executor ever returned, as the very slice it returned and as a copy made at
	// that moment (a node keeps the slice: State.AppHash, header.AppHash, prevStateRoot)
	retained []retainedRoot
}

type retainedRoot struct {
	slice, copy []byte
	what        string
}

// retain records a returned root; stale reports a root that is no longer what it was when it was returned.
func (in *inst) retain(root []byte, what string) {
	if root != nil {
		in.retained = append(in.retained, retainedRoot{slice: root, copy: append([]byte(nil), root...), what: what})
	}
}

func (in *inst) stale() *world.Verdict {
	for _, r := range in.retained {
		if !bytes.Equal(r.slice, r.copy) {
			v := world.Fail("C15/returned-root-changed-later", "instance %s: the root returned by %s was %s when it was returned and reads %s now: a later call wrote into the memory of a root the executor had already handed out", in.name, r.what, short(r.copy), short(r.slice))
			return &v
		}
	}
	return nil
}

type outcome struct {
	root []byte
	err  error
	pan  any
}

func newInst(name string) *inst {
	db := world.NewCrashDS()
	return &inst{name: name, db: db, ex: kv.NewKVExecutorWithDB(db), ctx: context.Background(), kinds: map[string]bool{}}
}

func (in *inst) exec(a execArgs) (o outcome) {
	defer func() {
		if r := recover(); r != nil {
			o.pan = r
		}
	}()
	root, _, err := in.ex.ExecuteTxs(in.ctx, a.txs, a.height, a.ts, a.prev)
	if err == nil {
		in.retain(root, fmt.Sprintf("ExecuteTxs(height %d)", a.height))
	}
	return outcome{root: root, err: err}
}

func (in *inst) init() (o outcome) {
	defer func() {
		if r := recover(); r != nil {
			o.pan = r
		}
	}()
	root, _, err := in.ex.InitChain(in.ctx, genesisTime, 1, chainID)
	if err == nil {
		in.retain(root, "InitChain")
	}
	return outcome{root: root, err: err}
}

// block executes a new block of the history; on acceptance the instance advances.
func (in *inst) block(txs [][]byte, ts time.Time) outcome {
	a := execArgs{txs: txs, height: in.executed + 1, ts: ts, prev: in.root}
	o := in.exec(a)
	in.last = &a
	in.lastOK = o.err == nil && o.pan == nil
	if in.lastOK {
		in.executed++
		in.root = o.root
	}
	return o
}

// probe observes the current root by executing a block without transactions: since the root
// depends only on the transactions executed so far, it must return the current root.
func (in *inst) probe(ts time.Time) outcome {
	o := in.exec(execArgs{txs: [][]byte{}, height: in.executed + 1, ts: ts, prev: in.root})
	return o
}

// ---------------------------------------------------------------------------------------------
// oracle helpers

// classify names the root cause of a root difference between an instance and the reference by
// looking at the two datastore images (used for the signature only, never to decide a verdict).
func classify(in, ref *inst, phase string) string {
	a, b := in.db.Image(), ref.db.Image()
	diff := []string{}
	for k, v := range a {
		if w, ok := b[k]; !ok || !bytes.Equal(v, w) {
			diff = append(diff, k)
		}
	}
	for k := range b {
		if _, ok := a[k]; !ok {
			diff = append(diff, k)
		}
	}
	sort.Strings(diff)
	if len(diff) == 1 && diff[0] == "/finalizedHeight" {
		return "C15/finalized-height-in-root"
	}
	return "C15/root-diverges-" + phase
}

func short(b []byte) string {
	s := fmt.Sprintf("%q", b)
	if len(s) > 160 {
		s = s[:160] + "…"
	}
	return s
}

func showTxs(txs [][]byte) string {
	p := []string{}
	for _, tx := range txs {
		p = append(p, fmt.Sprintf("%q", tx))
	}
	return "[" + strings.Join(p, " ") + "]"
}

type world4 struct {
	p, q, a, b *inst
	ts         time.Time
	labels     map[string]bool
	obs        map[string]bool
}

// checkAgainstQ compares an observed root of instance in with the reference root.
func (w *world4) checkAgainstQ(in *inst, got []byte, phase, when string) *world.Verdict {
	if !bytes.Equal(got, w.q.root) {
		v := world.Fail(classify(in, w.q, phase),
			"%s: instance %s returned root %s but a plain instance that executed exactly the same accepted transactions returned %s (side operations on %s so far: %s)",
			when, in.name, short(got), short(w.q.root), in.name, kindsOf(in))
		return &v
	}
	return nil
}

func kindsOf(in *inst) string {
	ks := []string{}
	for k := range in.kinds {
		ks = append(ks, k)
	}
	sort.Strings(ks)
	return strings.Join(ks, ",")
}

// side runs one side operation on a driven instance and checks its local laws.
func (w *world4) side(in *inst, op SideOp, afterBlock int, when string) *world.Verdict {
	fail := func(sig, f string, args ...any) *world.Verdict {
		v := world.Fail(sig, "%s: %s on %s: %s", when, op.Kind, in.name, fmt.Sprintf(f, args...))
		return &v
	}
	switch op.Kind {
	case "final":
		if in.executed == 0 && op.Back >= 0 {
			w.labels["final-skipped-nothing-executed"] = true
			return nil
		}
		h := uint64(1)
		if op.Back < 0 {
			h = in.executed + uint64(-op.Back)
			w.labels["final-ahead-of-execution"] = true
		} else if uint64(op.Back) < in.executed {
			h = in.executed - uint64(op.Back)
		}
		var err error
		var pan any
		func() {
			defer func() { pan = recover() }()
			err = in.ex.SetFinal(in.ctx, h)
		}()
		if pan != nil {
			return fail("C15/panic-setfinal", "panicked: %v", pan)
		}
		if err != nil {
			// not promised by C15 (finalizing an executed height is expected to succeed); recorded only
			w.labels["obs:setfinal-error"] = true
			return nil
		}
		in.finals = append(in.finals, finalEvent{AfterBlock: afterBlock, Height: h})
		in.kinds["final"] = true
		w.labels["final"] = true
	case "inject":
		func() {
			defer func() { _ = recover() }()
			in.ex.InjectTx(op.Tx)
		}()
		in.kinds["inject"] = true
		w.labels["inject"] = true
	case "gettxs":
		func() {
			defer func() { _ = recover() }()
			_, _ = in.ex.GetTxs(in.ctx)
		}()
		in.kinds["gettxs"] = true
		w.labels["gettxs"] = true
	case "init":
		o := in.init()
		if o.pan != nil {
			return fail("C15/panic-initchain", "panicked: %v", o.pan)
		}
		if o.err != nil {
			return fail("C15/initchain-repeat-error", "repeated InitChain failed: %v", o.err)
		}
		if !bytes.Equal(o.root, in.genesis) {
			return fail("C15/initchain-not-idempotent", "repeated InitChain returned %s, the first call returned %s", short(o.root), short(in.genesis))
		}
		in.kinds["init"] = true
		w.labels["init-repeat"] = true
	case "reopen":
		in.ex = kv.NewKVExecutorWithDB(in.db)
		in.kinds["reopen"] = true
		w.labels["reopen"] = true
	case "reexec":
		if in.last == nil {
			w.labels["reexec-skipped-no-block"] = true
			return nil
		}
		o := in.exec(*in.last)
		if o.pan != nil {
			return fail("C15/panic-execute", "re-execution panicked: %v", o.pan)
		}
		in.kinds["reexec"] = true
		if in.lastOK {
			w.labels["reexec-accepted"] = true
			if o.err != nil {
				return fail("C15/reexec-rejected", "re-executing the accepted block %s failed: %v", showTxs(in.last.txs), o.err)
			}
			if v := w.checkAgainstQ(in, o.root, "reexec", when+": re-execution of the last block "+showTxs(in.last.txs)); v != nil {
				return v
			}
		} else {
			w.labels["reexec-rejected"] = true
			if o.err == nil {
				// a block that was refused is now accepted by the same instance
				if v := w.checkAgainstQ(in, o.root, "reexec-of-refused", when+": re-execution of the refused block "+showTxs(in.last.txs)); v != nil {
					return v
				}
			}
			pr := in.probe(w.ts.Add(time.Second))
			if pr.pan != nil || pr.err != nil {
				return fail("C15/probe-failed", "empty block failed after re-executing a refused block: err=%v panic=%v", pr.err, pr.pan)
			}
			if v := w.checkAgainstQ(in, pr.root, "refused-block-changed-state", when+": empty block after re-executing the refused block "+showTxs(in.last.txs)); v != nil {
				return v
			}
		}
	default:
		panic("unknown side op " + op.Kind)
	}
	return nil
}

// ---------------------------------------------------------------------------------------------
// run

func run(sc Scenario, needFinal bool) world.Verdict {
	w := &world4{p: newInst("P"), q: newInst("Q"), a: newInst("A"), b: newInst("B"), ts: genesisTime, labels: map[string]bool{}, obs: map[string]bool{}}
	all := []*inst{w.p, w.q, w.a, w.b}

	// chain initialization: every instance starts from an empty datastore
	for _, in := range all {
		o := in.init()
		if o.pan != nil {
			return world.Fail("C15/panic-initchain", "InitChain on a fresh instance panicked: %v", o.pan)
		}
		if o.err != nil {
			return world.Fail("C15/initchain-error", "InitChain on a fresh instance failed: %v", o.err)
		}
		in.genesis, in.root = o.root, o.root
		if !bytes.Equal(o.root, w.p.genesis) {
			return world.Fail("C15/genesis-root-differs", "two fresh instances returned different genesis roots: %s vs %s", short(o.root), short(w.p.genesis))
		}
	}
	for i, op := range sc.PreA {
		if v := w.side(w.a, op, -1, fmt.Sprintf("before the first block, op %d", i)); v != nil {
			return *v
		}
	}
	for i, op := range sc.PreB {
		if v := w.side(w.b, op, -1, fmt.Sprintf("before the first block, op %d", i)); v != nil {
			return *v
		}
	}

	nonEmptyAccepted, refused := 0, 0
	for bi, blk := range sc.Blocks {
		w.ts = w.ts.Add(time.Duration(blk.DeltaMs) * time.Millisecond)
		txs := blk.Txs
		if len(txs) == 0 && !blk.NilTxs {
			txs = [][]byte{}
		}
		when := fmt.Sprintf("block %d %s", bi, showTxs(txs))
		malformed := blockClearlyMalformed(txs)

		// reference, part 1: the plain instance decides acceptance
		po := w.p.block(txs, w.ts)
		if po.pan != nil {
			return world.Fail("C15/panic-execute", "%s: ExecuteTxs panicked on the plain instance: %v", when, po.pan)
		}
		accepted := po.err == nil
		// reference, part 2: Q executes only accepted, not clearly malformed blocks
		if accepted && !malformed && len(txs) > 0 {
			qo := w.q.block(txs, w.ts)
			if qo.pan != nil || qo.err != nil {
				return world.Fail("C15/acceptance-depends-on-history", "%s: accepted by a plain instance that also saw the refused blocks, refused by one that did not: err=%v panic=%v", when, qo.err, qo.pan)
			}
			if !bytes.Equal(po.root, qo.root) {
				return world.Fail("C15/refused-block-changed-state", "%s: a plain instance that earlier executed refused/malformed blocks returns root %s, one that never saw them returns %s", when, short(po.root), short(qo.root))
			}
		}
		if accepted && !malformed && len(txs) > 0 {
			// stronger than the statement (key-value semantics), recorded as an observation only:
			// the value of the block's last transaction can be read back.
			last := txs[len(txs)-1]
			i := bytes.IndexByte(last, '=')
			got, ok := w.p.ex.GetStoreValue(w.p.ctx, strings.TrimSpace(string(last[:i])))
			if !ok || got != strings.TrimSpace(string(last[i+1:])) {
				w.obs["last-written-value-not-read-back"] = true
			}
		}
		if accepted && malformed {
			w.labels["malformed-block-accepted"] = true
			if !bytes.Equal(po.root, w.q.root) {
				return world.Fail("C15/malformed-block-changed-state", "%s: the block contains a transaction without key or '=' yet changed the root from %s to %s", when, short(w.q.root), short(po.root))
			}
		}
		if !accepted {
			refused++
			w.labels["refused-block"] = true
			if malformed {
				w.labels["refused-clearly-malformed"] = true
			} else {
				w.labels["refused-reserved-key"] = true
			}
			pr := w.p.probe(w.ts.Add(time.Second))
			if pr.pan != nil || pr.err != nil {
				return world.Fail("C15/probe-failed", "%s: an empty block failed on the plain instance after the refused block: err=%v panic=%v", when, pr.err, pr.pan)
			}
			if !bytes.Equal(pr.root, w.q.root) {
				return world.Fail("C15/refused-block-changed-state", "%s: refused with %q, yet the next (empty) block returns root %s instead of the previous root %s", when, po.err, short(pr.root), short(w.q.root))
			}
		} else if len(txs) > 0 && !malformed {
			nonEmptyAccepted++
		}
		if len(txs) == 0 {
			// Q never executes empty blocks: no transactions, so the root must not move
			w.labels["empty-block"] = true
			if accepted && !bytes.Equal(po.root, w.q.root) {
				return world.Fail("C15/empty-block-changed-root", "%s: a block without transactions changed the root of the plain instance from %s to %s", when, short(w.q.root), short(po.root))
			}
		}

		// the two driven instances
		for _, in := range []*inst{w.a, w.b} {
			o := in.block(txs, w.ts)
			if o.pan != nil {
				return world.Fail("C15/panic-execute", "%s: ExecuteTxs panicked on %s: %v", when, in.name, o.pan)
			}
			if (o.err == nil) != accepted {
				return world.Fail("C15/acceptance-differs", "%s: plain instance err=%v, instance %s err=%v (side operations so far: %s)", when, po.err, in.name, o.err, kindsOf(in))
			}
			if accepted {
				if v := w.checkAgainstQ(in, o.root, "block", when); v != nil {
					return *v
				}
			} else {
				pr := in.probe(w.ts.Add(time.Second))
				if pr.pan != nil || pr.err != nil {
					return world.Fail("C15/probe-failed", "%s: an empty block failed on %s after the refused block: err=%v panic=%v", when, in.name, pr.err, pr.pan)
				}
				if v := w.checkAgainstQ(in, pr.root, "refused-block-changed-state", when+": empty block after the refused block"); v != nil {
					return *v
				}
			}
		}
		if accepted && !bytes.Equal(w.a.root, w.b.root) {
			// implied by the two comparisons above; kept as the literal statement of the property
			return world.Fail(classify(w.a, w.b, "block"), "%s: instances A and B returned different roots", when)
		}
		for i, op := range blk.A {
			if v := w.side(w.a, op, bi, fmt.Sprintf("after block %d, op %d", bi, i)); v != nil {
				return *v
			}
		}
		for i, op := range blk.B {
			if v := w.side(w.b, op, bi, fmt.Sprintf("after block %d, op %d", bi, i)); v != nil {
				return *v
			}
		}
		for _, in := range []*inst{w.a, w.b} {
			if v := in.stale(); v != nil {
				return *v
			}
		}
	}

	// epilogue: observe the final roots, and initialization is still idempotent
	for _, in := range []*inst{w.a, w.b} {
		pr := in.probe(w.ts.Add(2 * time.Second))
		if pr.pan != nil || pr.err != nil {
			return world.Fail("C15/probe-failed", "final empty block failed on %s: err=%v panic=%v", in.name, pr.err, pr.pan)
		}
		if v := w.checkAgainstQ(in, pr.root, "final", "final empty block"); v != nil {
			return *v
		}
		if v := w.side(in, SideOp{Kind: "init"}, len(sc.Blocks), "epilogue"); v != nil {
			return *v
		}
	}

	ls := []string{}
	for l := range w.labels {
		ls = append(ls, l)
	}
	sort.Strings(ls)
	differ := fmt.Sprint(w.a.finals) != fmt.Sprint(w.b.finals)
	var nt bool
	if needFinal {
		nt = differ && nonEmptyAccepted >= 2
	} else {
		other := w.labels["reopen"] || w.labels["reexec-accepted"] || w.labels["reexec-rejected"] || refused > 0
		nt = nonEmptyAccepted >= 2 && other && fmt.Sprint(sc.PreA, blocksOps(sc, true)) != fmt.Sprint(sc.PreB, blocksOps(sc, false))
	}
	if differ {
		ls = append(ls, "finalize-timing-differs")
	}
	if nonEmptyAccepted >= 2 {
		ls = append(ls, ">=2-nonempty-blocks")
	}
	v := world.OK(nt, ls...)
	for o := range w.obs {
		v.Observations = append(v.Observations, o)
	}
	sort.Strings(v.Observations)
	return v
}

func blocksOps(sc Scenario, a bool) [][]SideOp {
	out := [][]SideOp{}
	for _, b := range sc.Blocks {
		if a {
			out = append(out, b.A)
		} else {
			out = append(out, b.B)
		}
	}
	return out
}

// TestC15 is the designed check: one history, two independently driven instances.
func TestC15(t *testing.T) {
	world.Run(t, "C15", "two-instance-history", world.Scale(500, 5000), genScenario,
		func(sc Scenario) world.Verdict { return run(sc, true) })
}

// TestC15NoFinalize explores the same space without any SetFinal call, so that the clauses on
// malformed blocks, re-execution, restarts, mempool and initialization are decided on their own
// even while finalization disturbs the root.
func TestC15NoFinalize(t *testing.T) {
	world.Run(t, "C15", "history-without-finalize", world.Scale(300, 3000),
		func(t *rapid.T) Scenario { return stripFinal(genScenario(t)) },
		func(sc Scenario) world.Verdict { return run(stripFinal(sc), false) })
}
