// Package c14 decides C14: pkg/store.DefaultStore behaves like a height-indexed map, atomically
// and durably. Generated operation histories (block saves with overwrites, SetHeight,
// UpdateState, SetMetadata, reopen, crash at a durable operation) are run on the real store
// and every observable read is compared with an in-memory reference model after every step.
package c14

import (
	"bytes"
	"context"
	"encoding/hex"
	"fmt"
	"sort"
	"time"

	"github.com/libp2p/go-libp2p/core/crypto"

	"github.com/evstack/ev-node/pkg/store"
	"github.com/evstack/ev-node/types"

	"verif/harness/world"
)

// ---------------------------------------------------------------------------------------------
// scenario data

// BlockSpec describes one block (header, data, signature) as plain data.
type BlockSpec struct {
	Chain    string   `json:"chain,omitempty"`
	Time     uint64   `json:"time,omitempty"`
	VBlock   uint64   `json:"vblock,omitempty"`
	VApp     uint64   `json:"vapp,omitempty"`
	Last     []byte   `json:"last,omitempty"`
	Commit   []byte   `json:"commit,omitempty"`
	DataHash []byte   `json:"datahash,omitempty"`
	Cons     []byte   `json:"cons,omitempty"`
	App      []byte   `json:"app,omitempty"`
	Results  []byte   `json:"results,omitempty"`
	Valid    []byte   `json:"valid,omitempty"`
	Proposer []byte   `json:"proposer,omitempty"`
	Signer   int      `json:"signer,omitempty"`   // 0 = header carries no signer, 1..3 = fixed keys
	HSig     []byte   `json:"hsig,omitempty"`     // header.Signature
	Sig      []byte   `json:"sig,omitempty"`      // the separate signature argument of SaveBlockData
	SigSame  bool     `json:"sig_same,omitempty"` // pass &header.Signature, as block/sync.go does
	Meta     bool     `json:"meta,omitempty"`     // data carries metadata
	MetaLast []byte   `json:"meta_last,omitempty"`
	Txs      [][]byte `json:"txs,omitempty"`
}

// StateSpec describes a types.State.
type StateSpec struct {
	VBlock   uint64 `json:"vblock,omitempty"`
	VApp     uint64 `json:"vapp,omitempty"`
	Chain    string `json:"chain,omitempty"`
	Initial  uint64 `json:"initial,omitempty"`
	Last     uint64 `json:"last,omitempty"`
	Sec      int64  `json:"sec,omitempty"`
	Nsec     int64  `json:"nsec,omitempty"`
	DA       uint64 `json:"da,omitempty"`
	Results  []byte `json:"results,omitempty"`
	AppHash  []byte `json:"apphash,omitempty"`
	ZeroTime bool   `json:"zero_time,omitempty"`
}

// Op is one step of a history.
//
//	save       SaveBlockData of Blk at height Base+Off
//	resave     SaveBlockData at Base+Off re-using the header stored there (same hash) with the
//	           data / signatures of Blk — what the block producer does (early save, final save)
//	setheight  SetHeight(Base+Off), or SetHeight(*Abs)
//	state      UpdateState(St)
//	meta       SetMetadata(key, Val); key = Key, or "i/<hash of the HashRef-th saved block>"
//	reopen     drop the store and open a new one on the same database
//
// CrashK >= 0 on a write arms a process death at the CrashK-th next durable database
// operation (0 = the first one the write issues).
type Op struct {
	Kind    string     `json:"kind"`
	Off     uint64     `json:"off,omitempty"`
	Low     bool       `json:"low,omitempty"` // use the height truncated to 32 bits instead (aliasing probe)
	Abs     *uint64    `json:"abs,omitempty"`
	Blk     *BlockSpec `json:"blk,omitempty"`
	St      *StateSpec `json:"st,omitempty"`
	Key     string     `json:"key,omitempty"`
	KeyKind string     `json:"key_kind,omitempty"` // node | shape | hashref | trick
	HashRef int        `json:"hash_ref,omitempty"`
	Val     []byte     `json:"val,omitempty"`
	CrashK  int        `json:"crash_k"` // -1 = no crash
	// Blind (reopen): no read is issued on the freshly opened store before the next operation, so the
	// first thing the new instance sees is a write (a store that only looks at the database lazily, or
	// keeps state in memory, must still honour what is persisted)
	Blind bool `json:"blind,omitempty"`
	// ReadFaults > 0 (crash-injection database only): the first ReadFaults reads the write issues fail with an
	// I/O error: the write then fails and changes nothing, or succeeds and is complete.
	ReadFaults int `json:"read_faults,omitempty"`
}

// heightOf resolves the height a save / setheight step refers to.
func (sc *Scenario) heightOf(op Op) uint64 {
	if op.Abs != nil {
		return *op.Abs
	}
	h := sc.Base + op.Off
	if op.Low {
		h = uint64(uint32(h))
	}
	return h
}

// Scenario is a history plus the extra (never written) things probed by every read sweep.
type Scenario struct {
	Base         uint64   `json:"base"`
	Ops          []Op     `json:"ops"`
	ProbeHeights []uint64 `json:"probe_heights,omitempty"`
	ProbeHashes  [][]byte `json:"probe_hashes,omitempty"`
	ProbeKeys    []string `json:"probe_keys,omitempty"`
}

// ---------------------------------------------------------------------------------------------
// concrete values

var pubKeys = func() []crypto.PubKey {
	out := []crypto.PubKey{nil}
	for _, l := range []string{"c14-a", "c14-b", "c14-c"} {
		_, pub := world.KeyFromSeed(l)
		out = append(out, pub)
	}
	return out
}()

func (b *BlockSpec) header(height uint64) *types.SignedHeader {
	h := &types.SignedHeader{
		Header: types.Header{
			BaseHeader:      types.BaseHeader{Height: height, Time: b.Time, ChainID: b.Chain},
			Version:         types.Version{Block: b.VBlock, App: b.VApp},
			LastHeaderHash:  b.Last,
			LastCommitHash:  b.Commit,
			DataHash:        b.DataHash,
			ConsensusHash:   b.Cons,
			AppHash:         b.App,
			LastResultsHash: b.Results,
			ValidatorHash:   b.Valid,
			ProposerAddress: b.Proposer,
		},
		Signature: types.Signature(b.HSig),
	}
	if b.Signer > 0 && b.Signer < len(pubKeys) {
		pk := pubKeys[b.Signer]
		h.Signer = types.Signer{PubKey: pk, Address: types.KeyAddress(pk)}
	}
	return h
}

func (b *BlockSpec) data(height uint64) *types.Data {
	d := &types.Data{}
	if b.Meta {
		d.Metadata = &types.Metadata{ChainID: b.Chain, Height: height, Time: b.Time, LastDataHash: b.MetaLast}
	}
	d.Txs = make(types.Txs, len(b.Txs))
	for i, tx := range b.Txs {
		d.Txs[i] = types.Tx(tx)
	}
	return d
}

func (b *BlockSpec) sig() types.Signature {
	if b.SigSame {
		return types.Signature(b.HSig)
	}
	return types.Signature(b.Sig)
}

func (s *StateSpec) state() types.State {
	st := types.State{
		Version:         types.Version{Block: s.VBlock, App: s.VApp},
		ChainID:         s.Chain,
		InitialHeight:   s.Initial,
		LastBlockHeight: s.Last,
		LastBlockTime:   time.Unix(s.Sec, s.Nsec).UTC(),
		DAHeight:        s.DA,
		LastResultsHash: s.Results,
		AppHash:         s.AppHash,
	}
	if s.ZeroTime {
		st.LastBlockTime = time.Time{}
	}
	return st
}

// ---------------------------------------------------------------------------------------------
// reference model

type mblock struct {
	height uint64
	spec   BlockSpec // header part of the spec that produced the stored header
	hdr    []byte    // wire form of the signed header handed to SaveBlockData
	data   []byte    // wire form of the data handed to SaveBlockData
	hash   []byte    // header hash at the time of the save
	sig    []byte    // the signature argument
	seq    int       // write sequence number
}

type model struct {
	height   uint64
	byHeight map[uint64]*mblock
	byHash   map[string]*mblock // latest write for each header hash ever saved
	order    []string           // hashes in order of first save (for hashref keys)
	state    *types.State
	meta     map[string][]byte
	seq      int
}

func newModel() *model {
	return &model{byHeight: map[uint64]*mblock{}, byHash: map[string]*mblock{}, meta: map[string][]byte{}}
}

func (m *model) clone() *model {
	c := &model{height: m.height, byHeight: map[uint64]*mblock{}, byHash: map[string]*mblock{}, meta: map[string][]byte{}, seq: m.seq}
	for k, v := range m.byHeight {
		c.byHeight[k] = v // mblocks are immutable
	}
	for k, v := range m.byHash {
		c.byHash[k] = v
	}
	c.order = append([]string(nil), m.order...)
	for k, v := range m.meta {
		c.meta[k] = v
	}
	if m.state != nil {
		s := *m.state
		c.state = &s
	}
	return c
}

// resolved is an operation with every relative reference resolved against the model.
type resolved struct {
	kind   string
	height uint64
	hdr    *types.SignedHeader
	data   *types.Data
	sig    types.Signature
	spec   BlockSpec
	state  types.State
	key    string
	val    []byte
	// classification
	overwriteDifferent bool
	overwriteSame      bool
}

func (sc *Scenario) resolve(op Op, m *model) resolved {
	r := resolved{kind: op.Kind}
	switch op.Kind {
	case "save", "resave":
		r.kind = "save"
		r.height = sc.heightOf(op)
		spec := *op.Blk
		if op.Kind == "resave" {
			if cur, ok := m.byHeight[r.height]; ok {
				// keep the stored header fields, take data and signatures of the new spec
				hs := cur.spec
				hs.HSig, hs.Sig, hs.SigSame = spec.HSig, spec.Sig, spec.SigSame
				hs.Meta, hs.MetaLast, hs.Txs = spec.Meta, spec.MetaLast, spec.Txs
				spec = hs
			}
		}
		r.spec = spec
		r.hdr = spec.header(r.height)
		r.data = spec.data(r.height)
		r.sig = spec.sig()
		if cur, ok := m.byHeight[r.height]; ok {
			if bytes.Equal(cur.hash, r.hdr.Hash()) {
				r.overwriteSame = true
			} else {
				r.overwriteDifferent = true
			}
		}
	case "setheight":
		r.height = sc.heightOf(op)
	case "state":
		r.state = op.St.state()
	case "meta":
		r.key = op.Key
		if op.KeyKind == "hashref" {
			if len(m.order) > 0 {
				r.key = "i/" + m.order[op.HashRef%len(m.order)]
			} else {
				r.key = "i/" + types.Hash(bytes.Repeat([]byte{0xab}, 32)).String()
			}
		}
		r.val = op.Val
	}
	return r
}

// apply performs the write on the model.
func (m *model) apply(r resolved) error {
	switch r.kind {
	case "save":
		hb, err := r.hdr.MarshalBinary()
		if err != nil {
			return fmt.Errorf("harness: header does not marshal: %w", err)
		}
		db, err := r.data.MarshalBinary()
		if err != nil {
			return fmt.Errorf("harness: data does not marshal: %w", err)
		}
		m.seq++
		b := &mblock{height: r.height, spec: r.spec, hdr: hb, data: db, hash: append([]byte(nil), r.hdr.Hash()...), sig: append([]byte(nil), r.sig...), seq: m.seq}
		m.byHeight[r.height] = b
		hx := types.Hash(b.hash).String()
		if _, seen := m.byHash[hx]; !seen {
			m.order = append(m.order, hx)
		}
		m.byHash[hx] = b
	case "setheight":
		if r.height > m.height {
			m.height = r.height
		}
	case "state":
		s := r.state
		m.state = &s
	case "meta":
		m.meta[r.key] = append([]byte{}, r.val...)
	}
	return nil
}

// exec performs the write on the store under test.
func exec(ctx context.Context, st store.Store, r resolved) error {
	switch r.kind {
	case "save":
		sig := append(types.Signature(nil), r.sig...)
		return st.SaveBlockData(ctx, r.hdr, r.data, &sig)
	case "setheight":
		return st.SetHeight(ctx, r.height)
	case "state":
		return st.UpdateState(ctx, r.state)
	case "meta":
		return st.SetMetadata(ctx, r.key, r.val)
	}
	return nil
}

// ---------------------------------------------------------------------------------------------
// the read sweep: every observable read against the model

type problem struct {
	sig string
	msg string
}

func prob(sig, f string, a ...any) *problem { return &problem{sig: sig, msg: fmt.Sprintf(f, a...)} }

// universe is the set of things every sweep reads (written or not).
type universe struct {
	heights []uint64
	hashes  [][]byte
	keys    []string
}

func (sc *Scenario) universe() *universe {
	u := &universe{}
	hs := map[uint64]bool{0: true}
	ks := map[string]bool{}
	for _, k := range nodeKeys(sc.Base) {
		ks[k] = true
	}
	for _, k := range shapeKeys(sc.Base) {
		ks[k] = true
	}
	for _, op := range sc.Ops {
		switch op.Kind {
		case "save", "resave", "setheight":
			hs[sc.heightOf(op)] = true
		case "meta":
			if op.KeyKind != "trick" && op.KeyKind != "hashref" {
				ks[op.Key] = true
			}
		}
	}
	for i := uint64(0); i < 7; i++ {
		hs[sc.Base+i] = true
		hs[uint64(uint32(sc.Base+i))] = true
	}
	for _, h := range sc.ProbeHeights {
		hs[h] = true
	}
	for _, k := range sc.ProbeKeys {
		ks[k] = true
	}
	for h := range hs {
		u.heights = append(u.heights, h)
	}
	sort.Slice(u.heights, func(i, j int) bool { return u.heights[i] < u.heights[j] })
	for k := range ks {
		u.keys = append(u.keys, k)
	}
	sort.Strings(u.keys)
	u.hashes = append(u.hashes, sc.ProbeHashes...)
	return u
}

func eqBytes(a, b []byte) bool { return len(a) == len(b) && bytes.Equal(a, b) } // nil == empty

func eqState(a, b types.State) bool {
	return a.Version == b.Version && a.ChainID == b.ChainID && a.InitialHeight == b.InitialHeight &&
		a.LastBlockHeight == b.LastBlockHeight && a.LastBlockTime.Equal(b.LastBlockTime) && a.DAHeight == b.DAHeight &&
		eqBytes(a.LastResultsHash, b.LastResultsHash) && eqBytes(a.AppHash, b.AppHash)
}

// sameBlock compares what a getter returned with what was written (wire identity, nil == empty).
func sameHeader(got *types.SignedHeader, want *mblock) string {
	if got == nil {
		return "nil header without an error"
	}
	gb, err := got.MarshalBinary()
	if err != nil {
		return "returned header does not marshal: " + err.Error()
	}
	if !bytes.Equal(gb, want.hdr) {
		return fmt.Sprintf("header differs from the one written (got height %d hash %s, written height %d hash %s)", got.Height(), got.Hash(), want.height, types.Hash(want.hash))
	}
	if !bytes.Equal(got.Hash(), want.hash) {
		return "header hash changed across the store"
	}
	return ""
}

func sameData(got *types.Data, want *mblock) string {
	if got == nil {
		return "nil data without an error"
	}
	gb, err := got.MarshalBinary()
	if err != nil {
		return "returned data does not marshal: " + err.Error()
	}
	if !bytes.Equal(gb, want.data) {
		return fmt.Sprintf("data differs from the data written with that block (%d txs returned)", len(got.Txs))
	}
	return ""
}

// sweep reads everything and compares it with the model. skipKeys are metadata keys that are
// not judged.
func sweep(ctx context.Context, st store.Store, m *model, u *universe) *problem {
	// recorded height
	h, err := st.Height(ctx)
	if err != nil {
		return prob("height-read-error", "Height() failed: %v", err)
	}
	if h != m.height {
		return prob("height-value", "Height() = %d, the largest height ever set is %d", h, m.height)
	}
	// by height
	heights := append([]uint64(nil), u.heights...)
	for _, hh := range heights {
		want, ok := m.byHeight[hh]
		hdr, herr := st.GetHeader(ctx, hh)
		bh, bd, berr := st.GetBlockData(ctx, hh)
		sg, serr := st.GetSignature(ctx, hh)
		if !ok {
			if herr == nil || berr == nil || serr == nil {
				return prob("phantom-block", "height %d was never saved but GetHeader/GetBlockData/GetSignature errors are %v / %v / %v", hh, herr, berr, serr)
			}
			continue
		}
		if herr != nil || berr != nil || serr != nil {
			return prob("block-lost", "block saved at height %d is not retrievable: GetHeader: %v, GetBlockData: %v, GetSignature: %v", hh, herr, berr, serr)
		}
		if d := sameHeader(hdr, want); d != "" {
			return prob("by-height-header", "GetHeader(%d): %s", hh, d)
		}
		if d := sameHeader(bh, want); d != "" {
			return prob("by-height-header", "GetBlockData(%d): %s", hh, d)
		}
		if d := sameData(bd, want); d != "" {
			return prob("by-height-data", "GetBlockData(%d): %s", hh, d)
		}
		if sg == nil || !eqBytes(*sg, want.sig) {
			return prob("by-height-signature", "GetSignature(%d) is not the signature saved with the latest block at that height", hh)
		}
	}
	// by hash: every hash ever written, in a fixed order
	hxs := make([]string, 0, len(m.byHash))
	for hx := range m.byHash {
		hxs = append(hxs, hx)
	}
	sort.Strings(hxs)
	for _, hx := range hxs {
		w := m.byHash[hx] // latest write for this hash
		cur := m.byHeight[w.height]
		bh, bd, berr := st.GetBlockByHash(ctx, w.hash)
		sg, serr := st.GetSignatureByHash(ctx, w.hash)
		if cur == w {
			if berr != nil || serr != nil {
				return prob("by-hash-lost", "block %s saved at height %d is not retrievable by hash: GetBlockByHash: %v, GetSignatureByHash: %v", hx, w.height, berr, serr)
			}
			if d := sameHeader(bh, w); d != "" {
				return prob("by-hash-header", "GetBlockByHash(%s): %s", hx, d)
			}
			if d := sameData(bd, w); d != "" {
				return prob("by-hash-data", "GetBlockByHash(%s): %s", hx, d)
			}
			if sg == nil || !eqBytes(*sg, w.sig) {
				return prob("by-hash-signature", "GetSignatureByHash(%s) is not the signature saved with that block", hx)
			}
			continue
		}
		// The height this hash was saved at has since been overwritten by a block with another
		// hash. The block with this hash is gone; the one thing a by-hash read must not do is
		// hand out a different block (or its signature) under this hash.
		if berr == nil {
			if bh == nil || !bytes.Equal(bh.Hash(), w.hash) {
				got := "nil"
				if bh != nil {
					got = bh.Hash().String()
				}
				return prob("by-hash-stale-index-after-overwrite", "GetBlockByHash(%s) returned the block with hash %s: height %d was saved with %s first and then overwritten; the hash index entry of the replaced block still points at the height", hx, got, w.height, hx)
			}
			if d := sameHeader(bh, w); d != "" {
				return prob("by-hash-header", "GetBlockByHash(%s) after overwrite: %s", hx, d)
			}
			if d := sameData(bd, w); d != "" {
				return prob("by-hash-data", "GetBlockByHash(%s) after overwrite: %s", hx, d)
			}
		}
		if serr == nil {
			if sg == nil || !eqBytes(*sg, w.sig) {
				return prob("by-hash-stale-index-after-overwrite", "GetSignatureByHash(%s) returned the signature of another block: height %d was saved with %s first and then overwritten", hx, w.height, hx)
			}
		}
	}
	for _, hb := range u.hashes {
		if _, ok := m.byHash[types.Hash(hb).String()]; ok {
			continue
		}
		_, _, berr := st.GetBlockByHash(ctx, hb)
		_, serr := st.GetSignatureByHash(ctx, hb)
		if berr == nil || serr == nil {
			return prob("phantom-hash", "hash %s was never saved but GetBlockByHash/GetSignatureByHash errors are %v / %v", hex.EncodeToString(hb), berr, serr)
		}
	}
	// state
	gs, gerr := st.GetState(ctx)
	if m.state == nil {
		if gerr == nil {
			return prob("phantom-state", "GetState succeeded although UpdateState was never called")
		}
	} else {
		if gerr != nil {
			return prob("state-lost", "GetState failed after UpdateState: %v", gerr)
		}
		if !eqState(gs, *m.state) {
			return prob("state-value", "GetState returned %+v, last written %+v", gs, *m.state)
		}
	}
	// metadata
	keys := map[string]bool{}
	for _, k := range u.keys {
		keys[k] = true
	}
	for k := range m.meta {
		keys[k] = true
	}
	ks := make([]string, 0, len(keys))
	for k := range keys {
		ks = append(ks, k)
	}
	sort.Strings(ks)
	for _, k := range ks {
		want, ok := m.meta[k]
		got, err := st.GetMetadata(ctx, k)
		if !ok {
			if err == nil {
				return prob("phantom-meta", "metadata key %q was never written but GetMetadata returned %d bytes", k, len(got))
			}
			continue
		}
		if err != nil {
			return prob("meta-lost", "metadata key %q was written but GetMetadata fails: %v", k, err)
		}
		if !eqBytes(got, want) {
			return prob("meta-value", "GetMetadata(%q) = %x, last written %x", k, got, want)
		}
	}
	return nil
}

// nodeKeys is the metadata vocabulary of the node (block/manager.go, block/pending_*.go,
// block/da_includer.go, pkg/rpc/server) for the heights around base.
func nodeKeys(base uint64) []string {
	out := []string{store.DAIncludedHeightKey, store.LastBatchDataKey, store.LastSubmittedHeaderHeightKey, "last-submitted-data-height"}
	for i := uint64(0); i < 4; i++ {
		out = append(out, fmt.Sprintf("%s/%d/h", store.RollkitHeightToDAHeightKey, base+i), fmt.Sprintf("%s/%d/d", store.RollkitHeightToDAHeightKey, base+i))
	}
	return out
}

// shapeKeys are well-formed keys of the same shapes (a letter, a number, letter/number[/letter])
// that happen to spell the prefixes or key segments of the other record kinds.
func shapeKeys(base uint64) []string {
	out := []string{"h", "c", "s", "m", "i", "t", "rhb"}
	for i := uint64(0); i < 3; i++ {
		out = append(out, fmt.Sprintf("%d", base+i))
		for _, p := range []string{"h", "d", "c", "m"} {
			out = append(out, fmt.Sprintf("%s/%d", p, base+i))
		}
	}
	return out
}
