package c14

import (
	"context"
	"fmt"
	"math"
	"os"
	"sort"
	"testing"

	ds "github.com/ipfs/go-datastore"
	"pgregory.net/rapid"

	"github.com/evstack/ev-node/pkg/store"

	"verif/harness/world"
)

// ---------------------------------------------------------------------------------------------
// generators

func genBytes(t *rapid.T, label string, max int) []byte {
	switch rapid.IntRange(0, 5).Draw(t, label+"-shape") {
	case 0:
		return nil
	case 1:
		return []byte{}
	case 2:
		return rapid.SliceOfN(rapid.Byte(), 32, 32).Draw(t, label+"-32")
	default:
		return rapid.SliceOfN(rapid.Byte(), 1, max).Draw(t, label)
	}
}

var chains = []string{"", "c14", "chain-ü", "a/b", "c14-other"}

func genBlock(t *rapid.T) *BlockSpec {
	b := &BlockSpec{}
	b.Chain = rapid.SampledFrom(chains).Draw(t, "chain")
	b.Time = rapid.Uint64().Draw(t, "time")
	if rapid.Bool().Draw(t, "versioned") {
		b.VBlock = rapid.Uint64Range(0, 20).Draw(t, "vblock")
		b.VApp = rapid.Uint64().Draw(t, "vapp")
	}
	// a few header fields are enough to make headers (and so hashes) differ; the others are
	// filled less often
	b.App = genBytes(t, "app", 40)
	b.DataHash = genBytes(t, "datahash", 40)
	b.Last = genBytes(t, "last", 40)
	if rapid.IntRange(0, 2).Draw(t, "rare-fields") == 0 {
		b.Commit = genBytes(t, "commit", 40)
		b.Cons = genBytes(t, "cons", 40)
		b.Results = genBytes(t, "results", 40)
		b.Valid = genBytes(t, "valid", 40)
	}
	b.Proposer = genBytes(t, "proposer", 40)
	b.Signer = rapid.IntRange(0, 3).Draw(t, "signer")
	b.HSig = genBytes(t, "hsig", 64)
	switch rapid.IntRange(0, 3).Draw(t, "sigmode") {
	case 0:
		b.Sig = nil // the producer's early save hands in an empty signature
	case 1:
		b.Sig = genBytes(t, "sig", 64)
	default:
		b.SigSame = true
	}
	b.Meta = rapid.Bool().Draw(t, "meta")
	if b.Meta {
		b.MetaLast = genBytes(t, "meta-last", 32)
	}
	n := rapid.IntRange(0, 4).Draw(t, "ntx")
	for i := 0; i < n; i++ {
		if rapid.IntRange(0, 9).Draw(t, "bigtx") == 0 {
			b.Txs = append(b.Txs, rapid.SliceOfN(rapid.Byte(), 500, world.Scale(2000, 20000)).Draw(t, "txbig"))
		} else {
			b.Txs = append(b.Txs, rapid.SliceOfN(rapid.Byte(), 0, 24).Draw(t, "tx"))
		}
	}
	return b
}

func genState(t *rapid.T) *StateSpec {
	s := &StateSpec{}
	s.VBlock = rapid.Uint64Range(0, 20).Draw(t, "s-vblock")
	s.VApp = rapid.Uint64Range(0, 3).Draw(t, "s-vapp")
	s.Chain = rapid.SampledFrom(chains).Draw(t, "s-chain")
	s.Initial = rapid.Uint64().Draw(t, "s-initial")
	s.Last = rapid.Uint64().Draw(t, "s-last")
	switch rapid.IntRange(0, 4).Draw(t, "s-time") {
	case 0:
		s.ZeroTime = true
	case 1:
		s.Sec, s.Nsec = 0, 0
	default:
		// inside the range protobuf timestamps can carry (years 1..9999)
		s.Sec = rapid.Int64Range(-62135596800, 253402300799).Draw(t, "s-sec")
		s.Nsec = rapid.Int64Range(0, 999_999_999).Draw(t, "s-nsec")
	}
	s.DA = rapid.Uint64().Draw(t, "s-da")
	s.Results = genBytes(t, "s-results", 40)
	s.AppHash = genBytes(t, "s-apphash", 40)
	return s
}

// trickKeys are not well-formed key paths (dot segments, empty segments); no caller in the
// node produces them. They are never judged as violations; see runTrick.
var trickKeys = []string{"../t", "../s", "../h/%d", "../d/%d", "../c/%d", "a//b", "a/./b", "", "/", "x/", "x/..", "../m/d"}

func genMetaOp(t *rapid.T, base uint64, allowTrick bool) Op {
	op := Op{Kind: "meta", CrashK: -1}
	k := rapid.IntRange(0, 19).Draw(t, "keyclass")
	switch {
	case k < 10:
		op.KeyKind = "node"
		op.Key = rapid.SampledFrom(nodeKeys(base)).Draw(t, "nodekey")
	case k < 16:
		op.KeyKind = "shape"
		op.Key = rapid.SampledFrom(shapeKeys(base)).Draw(t, "shapekey")
	case k < 19 || !allowTrick || rapid.IntRange(0, 2).Draw(t, "trick") != 0:
		op.KeyKind = "hashref"
		op.HashRef = rapid.IntRange(0, 7).Draw(t, "hashref")
	default:
		op.KeyKind = "trick"
		f := rapid.SampledFrom(trickKeys).Draw(t, "trickkey")
		op.Key = f
		if len(f) > 2 && f[len(f)-2:] == "%d" {
			op.Key = fmt.Sprintf(f, base+uint64(rapid.IntRange(0, 2).Draw(t, "trickh")))
		}
	}
	switch rapid.IntRange(0, 5).Draw(t, "valshape") {
	case 0:
		op.Val = []byte{}
	case 1:
		op.Val = rapid.SliceOfN(rapid.Byte(), 8, 8).Draw(t, "val8") // heights are stored as 8 bytes
	default:
		op.Val = rapid.SliceOfN(rapid.Byte(), 1, 40).Draw(t, "val")
	}
	return op
}

func genBase(t *rapid.T) uint64 {
	switch rapid.IntRange(0, 7).Draw(t, "base") {
	case 0:
		return 0
	case 1:
		return 1 << 32
	case 2:
		return math.MaxUint64 - 6
	case 3:
		return 9 // 9,10,11: decimal keys of different lengths
	case 4:
		return 98
	default:
		return 1
	}
}

// genWrite draws one write operation.
func genWrite(t *rapid.T, base uint64, allowTrick bool) Op {
	k := rapid.IntRange(0, 19).Draw(t, "opkind")
	switch {
	case k < 8:
		kind := "save"
		if rapid.IntRange(0, 3).Draw(t, "resave") == 0 {
			kind = "resave"
		}
		op := Op{Kind: kind, Off: uint64(rapid.IntRange(0, 3).Draw(t, "off")), Blk: genBlock(t), CrashK: -1}
		if base > math.MaxUint32 && rapid.IntRange(0, 3).Draw(t, "low") == 0 {
			op.Low = true
		}
		return op
	case k < 12:
		op := Op{Kind: "setheight", CrashK: -1}
		switch rapid.IntRange(0, 9).Draw(t, "shkind") {
		case 0:
			z := uint64(0)
			op.Abs = &z
		case 1:
			v := rapid.Uint64().Draw(t, "shabs")
			op.Abs = &v
		default:
			op.Off = uint64(rapid.IntRange(0, 6).Draw(t, "shoff"))
		}
		return op
	case k < 15:
		return Op{Kind: "state", St: genState(t), CrashK: -1}
	default:
		return genMetaOp(t, base, allowTrick)
	}
}

func genProbes(t *rapid.T, sc *Scenario) {
	sc.ProbeHeights = rapid.SliceOfN(rapid.Uint64(), 0, 3).Draw(t, "probe-heights")
	n := rapid.IntRange(0, 3).Draw(t, "nprobehash")
	for i := 0; i < n; i++ {
		switch rapid.IntRange(0, 3).Draw(t, "probehashshape") {
		case 0:
			sc.ProbeHashes = append(sc.ProbeHashes, []byte{})
		case 1:
			sc.ProbeHashes = append(sc.ProbeHashes, rapid.SliceOfN(rapid.Byte(), 1, 8).Draw(t, "probehash-short"))
		default:
			sc.ProbeHashes = append(sc.ProbeHashes, rapid.SliceOfN(rapid.Byte(), 32, 32).Draw(t, "probehash"))
		}
	}
	sc.ProbeKeys = rapid.SliceOfN(rapid.SampledFrom([]string{"unknown", "dd", "rhb", "rhb/1", "last-submitted", "L", "D"}), 0, 2).Draw(t, "probe-keys")
}

// genHistory draws a history with reopen steps and sampled crashes.
func genHistory(maxOps int, withCrash, allowTrick bool) func(t *rapid.T) Scenario {
	return func(t *rapid.T) Scenario {
		sc := Scenario{Base: genBase(t)}
		n := rapid.IntRange(1, maxOps).Draw(t, "nops")
		for i := 0; i < n; i++ {
			if rapid.IntRange(0, 7).Draw(t, "reopen") == 0 {
				sc.Ops = append(sc.Ops, Op{Kind: "reopen", CrashK: -1, Blind: rapid.Bool().Draw(t, "blind")})
				continue
			}
			op := genWrite(t, sc.Base, allowTrick)
			if op.Kind == "state" {
				// half of the state writes differ from the previous one in a single field only (a node
				// re-records its state with a new DA height, time or result hash at an unchanged height)
				var prev *StateSpec
				for j := len(sc.Ops) - 1; j >= 0 && prev == nil; j-- {
					if sc.Ops[j].Kind == "state" {
						prev = sc.Ops[j].St
					}
				}
				if prev != nil && rapid.Bool().Draw(t, "state-variation") {
					v := *prev
					fresh := op.St
					switch rapid.IntRange(0, 6).Draw(t, "state-field") {
					case 0:
						v.DA = fresh.DA
					case 1:
						v.ZeroTime, v.Sec, v.Nsec = fresh.ZeroTime, fresh.Sec, fresh.Nsec
					case 2:
						v.Results = fresh.Results
					case 3:
						v.Chain = fresh.Chain
					case 4:
						v.VBlock, v.VApp = fresh.VBlock, fresh.VApp
					case 5:
						v.Initial = fresh.Initial
					default:
						v.AppHash = fresh.AppHash
					}
					op.St = &v
				}
			}
			if withCrash && rapid.IntRange(0, 5).Draw(t, "crash") == 0 {
				op.CrashK = rapid.IntRange(0, 4).Draw(t, "crashk")
			} else if withCrash && (op.Kind == "setheight" || op.Kind == "save" || op.Kind == "resave") && rapid.IntRange(0, 3).Draw(t, "readfault") == 0 {
				op.ReadFaults = rapid.IntRange(1, 2).Draw(t, "readfaults")
			}
			sc.Ops = append(sc.Ops, op)
		}
		genProbes(t, &sc)
		return sc
	}
}

// ---------------------------------------------------------------------------------------------
// running a history

// backend abstracts "the database under the store" so that the same history runs on the
// crash double and on a real on-disk badger.
type backend interface {
	open() (ds.Batching, error) // (re)open the database
	closeDB() error
}

type crashBackend struct {
	cur *world.CrashDS
}

func (b *crashBackend) open() (ds.Batching, error) {
	if b.cur == nil {
		b.cur = world.NewCrashDS()
	} else {
		b.cur = world.FromImage(b.cur.Image()) // what is on "disk" is all that survives
	}
	return b.cur, nil
}
func (b *crashBackend) closeDB() error { return nil }

type badgerBackend struct {
	dir string
	cur ds.Batching
}

func (b *badgerBackend) open() (ds.Batching, error) {
	kv, err := store.NewDefaultKVStore(b.dir, "db", "c14")
	if err != nil {
		return nil, err
	}
	b.cur = kv
	return kv, nil
}
func (b *badgerBackend) closeDB() error { return nil } // closing goes through Store.Close

type stats struct {
	writes        int
	kinds         map[string]bool
	overwriteDiff int
	overwriteSame int
	reopens       int
	crashesHit    int
	ntEvent       bool // an overwrite, or a reopen/crash after >= 3 writes of different kinds
	labels        map[string]bool
	obs           []string
}

func newStats() *stats { return &stats{kinds: map[string]bool{}, labels: map[string]bool{}} }

func (s *stats) labelList() []string {
	out := []string{}
	for l := range s.labels {
		out = append(out, l)
	}
	sort.Strings(out)
	return out
}

func fail(p *problem, when string) world.Verdict {
	return world.Fail("C14/"+p.sig, "%s: %s", when, p.msg)
}

// runHistory executes the scenario on the backend. Crash steps are only honoured on the crash
// double.
func runHistory(sc Scenario, be backend) (v world.Verdict) {
	ctx := context.Background()
	defer func() {
		if r := recover(); r != nil {
			if _, ok := r.(world.CrashPanic); ok {
				panic(r) // harness bug: crash escaped
			}
			v = world.Fail("C14/panic", "store operation panicked: %v", r)
		}
	}()
	db, err := be.open()
	if err != nil {
		return world.Verdict{Excluded: true, Labels: []string{"backend-open-failed:" + err.Error()}}
	}
	st := store.New(db)
	defer func() { _ = st.Close() }()
	m := newModel()
	u := sc.universe()
	s := newStats()
	if sc.Base > 1<<31 {
		s.labels["big-heights"] = true
	}
	if len(sc.ProbeHashes)+len(sc.ProbeHeights)+len(sc.ProbeKeys) > 0 {
		s.labels["unknown-probes"] = true
	}
	if p := sweep(ctx, st, m, u); p != nil {
		return fail(p, "on the empty store")
	}
	cdb, isCrash := be.(*crashBackend)
	for i, op := range sc.Ops {
		when := fmt.Sprintf("after op %d (%s)", i, op.Kind)
		if op.Kind == "reopen" {
			if err := st.Close(); err != nil {
				return world.Fail("C14/close-error", "%s: Close failed: %v", when, err)
			}
			db, err = be.open()
			if err != nil {
				return world.Fail("C14/reopen-error", "%s: database cannot be reopened: %v", when, err)
			}
			st = store.New(db)
			s.reopens++
			s.labels["reopen"] = true
			if len(s.kinds) >= 3 {
				s.ntEvent = true
			}
			if op.Blind {
				s.labels["reopen-blind"] = true
				continue
			}
			if p := sweep(ctx, st, m, u); p != nil {
				p.sig = "reopen/" + p.sig
				return fail(p, when)
			}
			continue
		}
		r := sc.resolve(op, m)
		if op.Kind == "meta" && op.KeyKind == "trick" {
			if isCrash {
				cdb.cur.Disarm()
			}
			return runTrick(ctx, st, m, u, r, s)
		}
		before := m.clone()
		if err := m.apply(r); err != nil {
			return world.Verdict{Excluded: true, Labels: []string{"unmarshalable-input"}}
		}
		crashed := false
		if isCrash && op.CrashK >= 0 {
			// stays armed over the following writes until it is reached (or the store is reopened)
			cdb.cur.ArmCrashAfter(op.CrashK)
			s.labels["crash-armed"] = true
		}
		var werr error
		if isCrash {
			if op.ReadFaults > 0 {
				cdb.cur.FailGets(op.ReadFaults)
			}
			crashed = world.CatchCrash(func() { werr = exec(ctx, st, r) })
			cdb.cur.FailGets(0)
		} else {
			werr = exec(ctx, st, r)
		}
		if !crashed && werr != nil && isCrash && op.ReadFaults > 0 {
			// the write gave up on a read it could not perform: nothing may have changed
			s.labels["write-refused-on-read-fault:"+r.kind] = true
			if p := sweep(ctx, st, before, u); p != nil {
				return world.Fail("C14/failed-write-changed-the-store/"+p.sig, "%s: the %s failed with %v (a read of the database failed), yet the store is no longer what it was before: %s", when, r.kind, werr, p.msg)
			}
			m = before
			continue
		}
		if !crashed && werr != nil {
			return world.Fail("C14/write-error", "%s: write failed on a healthy database: %v", when, werr)
		}
		if crashed {
			// the process died inside the write: what is on disk must be the database before
			// the write or after the whole write
			s.crashesHit++
			s.labels["crash-hit:"+r.kind] = true
			if len(s.kinds) >= 3 {
				s.ntEvent = true
			}
			db, _ = be.open()
			st = store.New(db)
			pb := sweep(ctx, st, before, u)
			if pb != nil {
				pa := sweep(ctx, st, m, u)
				if pa != nil {
					return world.Fail("C14/crash-partial-"+r.kind, "%s: process died inside the %s (armed %d durable ops ahead); the reopened store is neither the store before the write (%s) nor after it (%s)", when, r.kind, op.CrashK, pb.msg, pa.msg)
				}
				s.labels["crash-left-write-applied"] = true
			} else {
				m = before
				s.labels["crash-left-write-unapplied"] = true
			}
			continue
		}
		s.writes++
		s.kinds[r.kind] = true
		s.labels["w:"+r.kind] = true
		if r.overwriteDifferent {
			s.overwriteDiff++
			s.ntEvent = true
			s.labels["overwrite-different-block"] = true
		}
		if r.overwriteSame {
			s.overwriteSame++
			s.ntEvent = true
			s.labels["overwrite-same-header"] = true
		}
		if op.Kind == "meta" {
			s.labels["metakey:"+op.KeyKind] = true
		}
		if op.Low {
			s.labels["height-truncated-alias"] = true
		}
		if p := sweep(ctx, st, m, u); p != nil {
			return fail(p, when)
		}
	}
	return world.OK(s.ntEvent, s.labelList()...)
}

// runTrick performs a SetMetadata with a key that is not a well-formed path. Such keys are
// outside the property's domain ("the metadata keys the node uses"): whatever happens is
// recorded as an observation, never as a violation, and the history ends here because the
// model cannot say what such a key aliases.
func runTrick(ctx context.Context, st store.Store, m *model, u *universe, r resolved, s *stats) world.Verdict {
	v := world.OK(s.ntEvent, append(s.labelList(), "ended-by-trick-key")...)
	if err := st.SetMetadata(ctx, r.key, r.val); err != nil {
		v.Observations = append(v.Observations, "trick-key-rejected")
		return v
	}
	if p := sweep(ctx, st, m, u); p != nil {
		v.Observations = append(v.Observations, "malformed-metadata-key-clobbers-other-record:"+p.sig)
	} else {
		v.Observations = append(v.Observations, "malformed-metadata-key-harmless")
	}
	return v
}

// ---------------------------------------------------------------------------------------------
// crash enumeration: every durable-write boundary of a write-only history

func genWrites(maxOps int) func(t *rapid.T) Scenario {
	return func(t *rapid.T) Scenario {
		sc := Scenario{Base: genBase(t)}
		n := rapid.IntRange(1, maxOps).Draw(t, "nops")
		for i := 0; i < n; i++ {
			sc.Ops = append(sc.Ops, genWrite(t, sc.Base, false))
		}
		genProbes(t, &sc)
		return sc
	}
}

func runCrashEnum(sc Scenario) (v world.Verdict) {
	ctx := context.Background()
	defer func() {
		if r := recover(); r != nil {
			if _, ok := r.(world.CrashPanic); ok {
				panic(r)
			}
			v = world.Fail("C14/panic", "store operation panicked: %v", r)
		}
	}()
	u := sc.universe()
	// reference run: models after every prefix, and the number of durable ops
	refDB := world.NewCrashDS()
	refSt := store.New(refDB)
	models := []*model{newModel()}
	res := []resolved{}
	kinds := map[string]bool{}
	overwrite := false
	for i, op := range sc.Ops {
		m := models[len(models)-1].clone()
		r := sc.resolve(op, m)
		if err := m.apply(r); err != nil {
			return world.Verdict{Excluded: true, Labels: []string{"unmarshalable-input"}}
		}
		if err := exec(ctx, refSt, r); err != nil {
			return world.Fail("C14/write-error", "op %d (%s): write failed on a healthy database: %v", i, op.Kind, err)
		}
		kinds[r.kind] = true
		overwrite = overwrite || r.overwriteDifferent || r.overwriteSame
		models = append(models, m)
		res = append(res, r)
	}
	if p := sweep(ctx, refSt, models[len(models)-1], u); p != nil {
		return fail(p, "at the end of the uncrashed run")
	}
	total := refDB.Ops()
	labels := map[string]bool{}
	for k := 0; k < total; k++ {
		db := world.NewCrashDS()
		st := store.New(db)
		db.ArmCrashAfter(k)
		j := -1
		for i := range res {
			i := i
			if world.CatchCrash(func() { _ = exec(ctx, st, res[i]) }) {
				j = i
				break
			}
		}
		if j < 0 {
			return world.Fail("C14/nondeterministic-writes", "replaying the same %d writes issued fewer than %d durable operations", len(res), k+1)
		}
		labels["crash-in:"+res[j].kind] = true
		disk := world.FromImage(db.Image())
		st2 := store.New(disk)
		pb := sweep(ctx, st2, models[j], u)
		if pb != nil {
			pa := sweep(ctx, st2, models[j+1], u)
			if pa != nil {
				return world.Fail("C14/crash-partial-"+res[j].kind, "process died at durable op %d, inside write %d (%s); the reopened store is neither the store before that write (%s) nor after it (%s)", k, j, res[j].kind, pb.msg, pa.msg)
			}
			labels["crash-left-write-applied"] = true
		} else {
			labels["crash-left-write-unapplied"] = true
		}
		// the survivor accepts the interrupted write again and ends up in the state after it
		if err := exec(ctx, st2, res[j]); err != nil {
			return world.Fail("C14/write-error-after-crash", "re-issuing write %d (%s) after the crash failed: %v", j, res[j].kind, err)
		}
		if p := sweep(ctx, st2, models[j+1], u); p != nil {
			p.sig = "after-crash-retry/" + p.sig
			return fail(p, fmt.Sprintf("after re-issuing write %d (%s) interrupted at durable op %d", j, res[j].kind, k))
		}
	}
	ls := []string{}
	for l := range labels {
		ls = append(ls, l)
	}
	sort.Strings(ls)
	ls = append(ls, fmt.Sprintf("boundaries:%d", bucket(total)))
	return world.OK(total >= 1 && (overwrite || len(kinds) >= 3), ls...)
}

func bucket(n int) int {
	switch {
	case n < 5:
		return 0
	case n < 10:
		return 5
	case n < 20:
		return 10
	default:
		return 20
	}
}

// ---------------------------------------------------------------------------------------------
// tests

// TestC14Model: histories with reopen and sampled crashes on the crash double.
func TestC14Model(t *testing.T) {
	world.Run(t, "C14", "store-model", world.Scale(500, 5000), genHistory(world.Scale(30, 60), true, true), func(sc Scenario) world.Verdict {
		return runHistory(sc, &crashBackend{})
	})
}

// TestC14CrashEnum: every durable-write boundary of generated write histories.
func TestC14CrashEnum(t *testing.T) {
	world.Run(t, "C14", "crash-enum", world.Scale(150, 1200), genWrites(world.Scale(16, 30)), runCrashEnum)
}

// genBadger draws a history for the on-disk check; a reopen happens in every case (durability
// is what that check is for).
func genBadger(t *rapid.T) Scenario {
	sc := genHistory(world.Scale(14, 25), false, false)(t)
	for _, op := range sc.Ops {
		if op.Kind == "reopen" {
			return sc
		}
	}
	sc.Ops = append(sc.Ops, Op{Kind: "reopen", CrashK: -1})
	return sc
}

// TestC14Badger: the same histories on a real on-disk badger that is closed and reopened.
func TestC14Badger(t *testing.T) {
	world.Run(t, "C14", "badger-reopen", world.Scale(20, 150), genBadger, func(sc Scenario) world.Verdict {
		dir, err := os.MkdirTemp("", "c14-badger-")
		if err != nil {
			return world.Verdict{Excluded: true, Labels: []string{"no-tempdir"}}
		}
		defer os.RemoveAll(dir)
		return runHistory(sc, &badgerBackend{dir: dir})
	})
}
