package c14

import (
	"bytes"
	"context"
	"fmt"
	"strings"
	"testing"
	"time"

	"pgregory.net/rapid"

	"github.com/evstack/ev-node/pkg/store"

	"verif/harness/world"
)

// InterleaveScenario: a read of a record overlaps a write of the same record by another goroutine (the
// RPC server reads what the node's loops write). The write is slipped in at the datastore boundary of
// the read - after the database answered the reader, before the reader goes on. Either value is a legal
// answer of the overlapping read; once both calls have returned, every read must see the newer value
// ("reads return the last value written").
type InterleaveScenario struct {
	Kind string `json:"kind"` // metadata | state | height
	Key  string `json:"key,omitempty"`
	Old  []byte `json:"old"`
	New  []byte `json:"new"`
	// Warm: the store object has already read the record once before the overlapping read (false: it was
	// just opened on an existing database)
	Warm bool `json:"warm,omitempty"`
}

func genInterleave(t *rapid.T) InterleaveScenario {
	sc := InterleaveScenario{Kind: rapid.SampledFrom([]string{"metadata", "metadata", "state", "height"}).Draw(t, "kind"), Warm: rapid.IntRange(0, 3).Draw(t, "warm") == 0}
	sc.Key = rapid.SampledFrom([]string{"d", "l", "last-submitted-header-height", "rhb/5/h", "custom"}).Draw(t, "key")
	sc.Old = rapid.SliceOfN(rapid.Byte(), 1, 12).Draw(t, "old")
	sc.New = rapid.SliceOfN(rapid.Byte(), 1, 12).Draw(t, "new")
	if bytes.Equal(sc.Old, sc.New) {
		sc.New = append(sc.New, 1)
	}
	return sc
}

func runInterleave(sc InterleaveScenario) world.Verdict {
	ctx := context.Background()
	db := world.NewCrashDS()
	st0 := store.New(db)
	hOld, hNew := uint64(len(sc.Old)), uint64(len(sc.Old)+len(sc.New)) // heights: old < new
	sOld := (&StateSpec{Chain: "c14", Initial: 1, Last: hOld, AppHash: sc.Old, Sec: 1}).state()
	sNew := (&StateSpec{Chain: "c14", Initial: 1, Last: hNew, AppHash: sc.New, Sec: 2}).state()
	var err error
	switch sc.Kind {
	case "metadata":
		err = st0.SetMetadata(ctx, sc.Key, sc.Old)
	case "state":
		err = st0.UpdateState(ctx, sOld)
	case "height":
		err = st0.SetHeight(ctx, hOld)
	}
	if err != nil {
		return world.Verdict{Excluded: true}
	}
	// a new process (or just a new store object) on the same database
	st := store.New(db)
	read := func() (string, error) {
		switch sc.Kind {
		case "metadata":
			v, err := st.GetMetadata(ctx, sc.Key)
			return fmt.Sprintf("%x", v), err
		case "state":
			s, err := st.GetState(ctx)
			return fmt.Sprintf("%d/%x", s.LastBlockHeight, s.AppHash), err
		default:
			h, err := st.Height(ctx)
			return fmt.Sprint(h), err
		}
	}
	write := func() error {
		switch sc.Kind {
		case "metadata":
			return st.SetMetadata(ctx, sc.Key, sc.New)
		case "state":
			return st.UpdateState(ctx, sNew)
		default:
			return st.SetHeight(ctx, hNew)
		}
	}
	wantOld, wantNew := "", ""
	switch sc.Kind {
	case "metadata":
		wantOld, wantNew = fmt.Sprintf("%x", sc.Old), fmt.Sprintf("%x", sc.New)
	case "state":
		wantOld, wantNew = fmt.Sprintf("%d/%x", hOld, sc.Old), fmt.Sprintf("%d/%x", hNew, sc.New)
	default:
		wantOld, wantNew = fmt.Sprint(hOld), fmt.Sprint(hNew)
	}
	if sc.Warm {
		if got, err := read(); err != nil || got != wantOld {
			return world.Fail("C14/interleave/read", "read before any overlap returned %q, %v (written %q)", got, err, wantOld)
		}
	}
	// the overlapping write: slipped in when the reader's first database read of this call has been answered
	fired := false
	wdone := make(chan error, 1)
	db.GetHook = func(key string) {
		if fired {
			return
		}
		fired = true
		go func() { wdone <- write() }()
		select {
		case err := <-wdone:
			wdone <- err
		case <-time.After(300 * time.Millisecond):
			// the writer waits for the reader (a lock is held across the read): the read simply comes first
		}
	}
	got, rerr := read()
	db.GetHook = nil
	labels := []string{"kind:" + sc.Kind}
	if !fired {
		// the read was answered without asking the database (warm cache): no overlap at the datastore boundary
		if err := write(); err != nil {
			return world.Fail("C14/interleave/write", "write failed: %v", err)
		}
		labels = append(labels, "read-did-not-reach-the-database")
	} else {
		select {
		case err := <-wdone:
			if err != nil {
				return world.Fail("C14/interleave/write", "overlapping write failed: %v", err)
			}
		case <-time.After(5 * time.Second):
			return world.Verdict{Excluded: true, Labels: []string{"overlapping-write-did-not-return"}}
		}
		labels = append(labels, "write-overlapped-read")
		if rerr != nil || (got != wantOld && got != wantNew) {
			return world.Fail("C14/interleave/overlapping-read", "%s read overlapping a write returned %q, %v: neither the old value %q nor the new one %q", sc.Kind, got, rerr, wantOld, wantNew)
		}
	}
	// both calls have returned: the newer value is the last value written
	for i := 0; i < 2; i++ {
		got, err := read()
		if err != nil || got != wantNew {
			key := sc.Key
			if sc.Kind != "metadata" {
				key = sc.Kind
			}
			return world.Fail("C14/interleave/stale-read-after-write", "%s %q: a read made after the write of %q had returned gives %q (err=%v); the write overlapped an earlier read of the same record at the datastore boundary%s", sc.Kind, key, wantNew, got, err,
				map[bool]string{true: "", false: " on a freshly opened store"}[sc.Warm])
		}
	}
	_ = strings.TrimSpace
	return world.OK(fired, labels...)
}

// TestC14Interleave: a write slipped in at the datastore boundary of an overlapping read.
func TestC14Interleave(t *testing.T) {
	world.Run(t, "C14", "read-write-overlap", world.Scale(60, 600), genInterleave, runInterleave)
}
