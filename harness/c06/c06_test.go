// Package c06 decides C06: every committed block reaches the DA layer in order, the
// last-submitted watermark is sound, and submission resumes correctly after a restart.
package c06

import (
	"fmt"
	"os"
	"strings"
	"testing"
	"time"

	"pgregory.net/rapid"

	"verif/harness/pw"
	"verif/harness/sw"
	"verif/harness/world"
)

func gen(t *rapid.T) sw.Scenario {
	sc := sw.Scenario{MempoolTTL: uint64(rapid.IntRange(1, 3).Draw(t, "ttl"))}
	switch rapid.IntRange(0, 4).Draw(t, "ih") {
	case 0, 1, 2:
		sc.InitialHeight = 1
	case 3:
		sc.InitialHeight = uint64(rapid.IntRange(2, 5).Draw(t, "ihs"))
	default:
		sc.InitialHeight = 1<<20 + uint64(rapid.IntRange(0, 3).Draw(t, "ihb")) // large, but a pending range wrongly starting at 0 stays allocatable (2^32 would be a 32 GiB slice: a hang, not a verdict)
	}
	sc.MaxBlob = rapid.SampledFrom([]uint64{0, 0, 1000, 1600}).Draw(t, "maxblob")
	n := rapid.IntRange(3, world.Scale(25, 45)).Draw(t, "nops")
	burstAt := -1
	if rapid.IntRange(0, world.Scale(29, 9)).Draw(t, "burst") == 0 {
		burstAt = rapid.IntRange(0, n-1).Draw(t, "burstat")
	}
	for i := 0; i < n; i++ {
		if i == burstAt {
			// a long backlog (more pending blocks than any batch or page size one might think of)
			st := pw.GoodStep(sw.GenTxs(t)...)
			sc.Ops = append(sc.Ops, sw.Op{Kind: "produce-burst", N: rapid.SampledFrom([]int{70, 130, world.Scale(130, 300), world.Scale(130, 300)}).Draw(t, "burstn"), Step: &st})
			continue
		}
		switch k := rapid.IntRange(0, 19).Draw(t, "op"); {
		case k < 8:
			op := sw.GenProduce(t, 35)
			if rapid.IntRange(0, 7).Draw(t, "diesinproduction") == 0 {
				// the process dies between two durable writes of this production step
				op.Kind = "produce-crash"
				op.N = rapid.IntRange(0, 5).Draw(t, "dieat")
			}
			sc.Ops = append(sc.Ops, op)
		case k < 13:
			sc.Ops = append(sc.Ops, sw.Op{Kind: "tick", N: rapid.IntRange(1, 3).Draw(t, "nt")})
		case k < 16:
			sc.Ops = append(sc.Ops, sw.GenScript(t, 4), sw.Op{Kind: "tick", N: rapid.IntRange(1, 2).Draw(t, "nts")})
		case k < 17:
			sc.Ops = append(sc.Ops, sw.Op{Kind: "restart"})
		case k < 18:
			sc.Ops = append(sc.Ops, sw.Op{Kind: "crash"})
		default:
			// a submission parked inside the DA call, then a restart: the restart falls between two attempts
			tg := rapid.SampledFrom([]string{"header", "data"}).Draw(t, "hangtarget")
			sc.Ops = append(sc.Ops, sw.Op{Kind: "script", Target: tg, Script: []world.SubmitResp{{Kind: "hang"}}},
				sw.Op{Kind: "tick", N: 1})
			// mostly followed by a restart; otherwise the swallowed request has to end by its own deadline
			if rk := rapid.SampledFrom([]string{"restart", "crash", "restart", "none"}).Draw(t, "hangrestart"); rk != "none" {
				sc.Ops = append(sc.Ops, sw.Op{Kind: rk})
			}
		}
	}
	sc.GenVia(t)
	return sc
}

func run(sc sw.Scenario, dir string) world.Verdict {
	return sw.InBubble(func() world.Verdict {
		root, _ := os.MkdirTemp(dir, "c06")
		defer os.RemoveAll(root)
		w, err := sw.New(world.NodeOpts{ChainID: "c06-chain", InitialHeight: sc.InitialHeight, RootDir: root, MempoolTTL: sc.MempoolTTL, ViaDAClient: sc.ViaClient, DAClientLimit: sc.ClientLimit, Prometheus: sc.Prometheus, DBPath: sc.DBPath})
		if err != nil {
			return world.Fail("C06/start", "NewManager failed: %v", err)
		}
		defer w.Stop()
		w.P.DA.MaxBlob = sc.MaxBlob
		kinds := map[string]bool{}
		labels := map[string]bool{}
		for i, o := range sc.Ops {
			r, err := w.Apply(o)
			if err != nil {
				return world.Fail("C06/restart-fails", "op %d (%s): %v", i, o.Kind, err)
			}
			if r != nil && r.After == r.Before+1 {
				if o.Step.Seq.Kind == "empty" {
					kinds["empty"] = true
				} else {
					kinds["txs"] = true
				}
			}
			labels["op:"+o.Kind] = true
			if sc.ViaClient {
				labels["through-the-real-da-client"] = true
			}
			if p := w.CheckC06(fmt.Sprintf("after op %d (%s)", i, o.Kind)); p != nil {
				return world.Fail("C06/"+p.Sig, "%s", p.Msg)
			}
		}
		// bounded-eventually: the DA layer accepts everything from now on
		w.P.DA.ClearScripts()
		w.Settle(61 * time.Second) // a submission parked inside the DA call gives up after its 60 s timeout
		w.Tick(int(2*(sc.MempoolTTL+2)) + 4)
		if p := w.CheckC06("after the all-accept epilogue"); p != nil {
			return world.Fail("C06/"+p.Sig, "%s", p.Msg)
		}
		if p := w.CheckAllOnDA("after the all-accept epilogue"); p != nil {
			return world.Fail("C06/"+p.Sig, "%s", p.Msg)
		}
		failures, acceptAfterFailure := 0, false
		for _, c := range w.P.DA.Calls(0) {
			if c.Op != "submit" {
				continue
			}
			if strings.HasPrefix(c.Result, "accept") {
				if failures > 0 && c.Stored > 0 {
					acceptAfterFailure = true
				}
			} else {
				failures++
				labels["da:"+strings.SplitN(c.Result, "(", 2)[0]] = true
			}
		}
		ls := []string{}
		for l := range labels {
			ls = append(ls, l)
		}
		if sc.InitialHeight > 1 {
			ls = append(ls, "initial>1")
		}
		if w.Restarts > 0 {
			ls = append(ls, "restarted")
		}
		return world.OK(len(kinds) == 2 && failures > 0 && acceptAfterFailure, ls...)
	})
}

func TestC06(t *testing.T) {
	dir := t.TempDir()
	world.Run(t, "C06", "da-submission", world.Scale(300, 2000), gen, func(sc sw.Scenario) world.Verdict { return run(sc, dir) })
}
