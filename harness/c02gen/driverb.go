package c02gen

import (
	"context"
	"fmt"
	"os"
	"time"

	"pgregory.net/rapid"

	"github.com/evstack/ev-node/types"

	"verif/harness/fw"
	"verif/harness/pw"
	"verif/harness/sw"
	"verif/harness/world"
)

// Placement puts one blob of a block on the DA layer.
type Placement struct {
	Off      int    `json:"off"`
	Kind     string `json:"kind"` // header | data
	DAHeight uint64 `json:"da_height"`
}

// Backlog describes a run of duplicate header blobs on the DA layer.
type Backlog struct {
	Off       int    `json:"off"`
	Copies    int    `json:"copies"`
	PerHeight int    `json:"per_height"`
	At        uint64 `json:"at"`
}

// OpB is one step of the real-ingress driver.
type OpB struct {
	// Kind: da-advance | p2p-headers | p2p-data | tick | restart | crash
	Kind string `json:"kind"`
	N    int    `json:"n,omitempty"`
}

// ScenarioB drives the unmodified ingress loops.
type ScenarioB struct {
	InitialHeight uint64      `json:"initial_height"`
	Chain         []pw.Step   `json:"chain"`
	Placements    []Placement `json:"placements"`
	// P2PHeaders / P2PData: how many blocks (from the bottom) the P2P stores will finally hold.
	P2PHeaders int   `json:"p2p_headers"`
	P2PData    int   `json:"p2p_data"`
	Ops        []OpB `json:"ops"`
	// ExecMs: how long the full node's execution layer takes per block (virtual time). With a slow
	// execution layer a restart finds the sync loop busy and events still queued in its channels.
	ExecMs int `json:"exec_ms,omitempty"`
	// Backlog: Copies duplicates of the header blob of block Off sit on the DA layer, PerHeight per DA
	// height starting at DA height At; every placement at or above At moves up behind them. With a slow
	// execution layer the duplicates fill the sync event channel while later, needed blobs are scanned.
	Backlog *Backlog `json:"backlog,omitempty"`
	// Repeat runs the scenario several times: the order in which the sync loop picks queued header
	// and data events is chosen by the Go runtime (select), not by the scenario.
	Repeat int `json:"repeat,omitempty"`
	// ChainTimes > 1: the chain is Chain repeated that many times (a long chain from a short description):
	// a node that was cut off or joins late finds a P2P store head far above its own height in one jump.
	ChainTimes int `json:"chain_times,omitempty"`
	// FetchFaults: scripted outcomes of the first examinations of a DA height (transient read faults of
	// the DA layer: list/get errors in several flavours incl. expired deadlines); the height reads normally
	// once its script is used up.
	FetchFaults []FetchFault `json:"fetch_faults,omitempty"`
	// DAStart > 0: the node is configured to start its DA scan at this height (DA.StartHeight); every DA
	// height of the scenario (1 = lowest) is then DAStart-1 higher, so that a blob placed at "1" sits in the
	// configured start height itself.
	DAStart uint64 `json:"da_start,omitempty"`
	// DAms > 0: the node's DA block time in milliseconds (default 2000).
	DAms int `json:"da_ms,omitempty"`
	// CustomPayload: the chain signs a non-default payload (ManagerOptions.SignaturePayloadProvider on both nodes).
	CustomPayload bool `json:"custom_payload,omitempty"`
	// Prometheus: both nodes run with instrumentation.prometheus = true.
	Prometheus bool `json:"prometheus,omitempty"`
}

func (sc ScenarioB) daBase() uint64 {
	if sc.DAStart > 0 {
		return sc.DAStart - 1
	}
	return 0
}

// FetchFault scripts the first examinations of one DA height.
type FetchFault struct {
	DAHeight uint64               `json:"da_height"`
	Outcomes []world.FetchOutcome `json:"outcomes"`
}

// GenFetchFaults draws transient DA read faults for heights 1..maxDA.
func GenFetchFaults(t *rapid.T, maxDA uint64) []FetchFault {
	out := []FetchFault{}
	for n := rapid.IntRange(1, 3).Draw(t, "nff"); n > 0; n-- {
		ff := FetchFault{DAHeight: uint64(rapid.IntRange(1, int(maxDA)).Draw(t, "ffh"))}
		for k := rapid.IntRange(1, 3).Draw(t, "ffn"); k > 0; k-- {
			o := world.FetchOutcome{
				Kind: rapid.SampledFrom([]string{"listerr", "chunkerr"}).Draw(t, "ffkind"),
				Err:  rapid.SampledFrom([]string{"", "deadline", "da-deadline", "timeout", "notfound"}).Draw(t, "fferr"),
			}
			if o.Kind == "listerr" && o.Err == "notfound" {
				// "no blobs at this height" as the answer to the LISTING is the DA layer's way of saying the height
				// is empty: a node cannot tell that from the truth, so it is not a fault a node can be asked to
				// survive; only a Get of listed ids may fail that way
				o.Err = ""
			}
			ff.Outcomes = append(ff.Outcomes, o)
		}
		out = append(out, ff)
	}
	return out
}

// FullChain is the chain the scenario describes.
func (sc ScenarioB) FullChain() []pw.Step {
	chain := sc.Chain
	for i := 1; i < sc.ChainTimes; i++ {
		chain = append(chain[:len(chain):len(chain)], sc.Chain...)
	}
	return chain
}

// GenB draws a real-ingress scenario. withCrash adds crash restarts (C07), otherwise clean restarts only.
func GenB(t *rapid.T, maxChain int, withCrash bool) ScenarioB {
	sc := ScenarioB{InitialHeight: GenInitial(t)}
	sc.Chain = GenChain(t, maxChain)
	maxDA := uint64(rapid.IntRange(1, 6).Draw(t, "maxda"))
	lateFirst := false
	split := rapid.SampledFrom([]string{"da", "da", "p2p", "mixed", "mixed"}).Draw(t, "split")
	if rapid.IntRange(0, 9).Draw(t, "long") == 0 {
		// a long chain that reaches the node in few large jumps (mostly through the P2P stores)
		sc.ChainTimes = (rapid.IntRange(66, 140).Draw(t, "longlen") + len(sc.Chain) - 1) / len(sc.Chain)
		split = rapid.SampledFrom([]string{"p2p", "p2p", "mixed", "da"}).Draw(t, "longsplit")
		if split == "da" {
			// the proposer published a long backlog in one go (block time far below the DA block time, or after
			// a DA outage): hundreds of blobs of the chain sit in one or two DA heights
			maxDA = uint64(rapid.IntRange(1, 2).Draw(t, "longmaxda"))
			if lateFirst = rapid.Bool().Draw(t, "latefirst"); lateFirst {
				sc.ChainTimes = (rapid.IntRange(101, 260).Draw(t, "latefirstlen") + len(sc.Chain) - 1) / len(sc.Chain)
			}
		}
	}
	chain := sc.FullChain()
	n := len(chain)
	// lateFirst: the header of the lowest block is the very last thing the node gets to see (alone in a DA
	// height above everything else), so that ONE event makes the whole chain applicable
	for i, st := range chain {
		onDA := split == "da" || (split == "mixed" && rapid.IntRange(0, 9).Draw(t, "onda") < 7)
		if onDA && lateFirst && i == 0 {
			sc.Placements = append(sc.Placements, Placement{Off: 0, Kind: "header", DAHeight: maxDA + 1})
		} else if onDA {
			k := rapid.SampledFrom([]int{1, 1, 1, 2}).Draw(t, "hcopies")
			for j := 0; j < k; j++ {
				sc.Placements = append(sc.Placements, Placement{Off: i, Kind: "header", DAHeight: 1 + uint64(rapid.IntRange(0, int(maxDA)-1).Draw(t, "hda"))})
			}
		}
		if i > 0 && st.Seq.Kind == "txs" {
			onDA := split == "da" || (split == "mixed" && rapid.IntRange(0, 9).Draw(t, "dondA") < 7)
			if onDA {
				k := rapid.SampledFrom([]int{1, 1, 1, 2}).Draw(t, "dcopies")
				for j := 0; j < k; j++ {
					sc.Placements = append(sc.Placements, Placement{Off: i, Kind: "data", DAHeight: 1 + uint64(rapid.IntRange(0, int(maxDA)-1).Draw(t, "dda"))})
				}
			}
		}
	}
	switch split {
	case "da":
		sc.P2PHeaders, sc.P2PData = 0, 0
	case "p2p":
		sc.P2PHeaders, sc.P2PData = n, n
	default:
		sc.P2PHeaders = rapid.IntRange(0, n).Draw(t, "p2ph")
		sc.P2PData = rapid.IntRange(0, n).Draw(t, "p2pd")
	}
	if rapid.IntRange(0, 3).Draw(t, "dastart") == 0 {
		sc.DAStart = rapid.SampledFrom([]uint64{1, 2, 5, 1000, 1 << 33}).Draw(t, "dastartat")
	}
	if rapid.IntRange(0, 3).Draw(t, "dams") == 0 {
		sc.DAms = rapid.SampledFrom([]int{20, 50, 99, 100, 500}).Draw(t, "damsv")
	}
	sc.CustomPayload = rapid.IntRange(0, 4).Draw(t, "custompayload") == 0
	sc.Prometheus = rapid.IntRange(0, 4).Draw(t, "prometheus") == 0
	if rapid.IntRange(0, 2).Draw(t, "slowexec") == 0 {
		sc.ExecMs = rapid.SampledFrom([]int{500, 3000, 7000}).Draw(t, "execms")
	}
	if sc.ExecMs > 0 {
		sc.Repeat = 3
	}
	nops := rapid.IntRange(2, 14).Draw(t, "nops")
	for i := 0; i < nops; i++ {
		switch k := rapid.IntRange(0, 11).Draw(t, "op"); {
		case k < 3:
			sc.Ops = append(sc.Ops, OpB{Kind: "da-advance", N: rapid.IntRange(1, 3).Draw(t, "adv")})
		case k < 5:
			sc.Ops = append(sc.Ops, OpB{Kind: "p2p-headers", N: rapid.SampledFrom([]int{1, 2, 3, 4, 4, 80, 1000}).Draw(t, "gh")})
		case k < 7:
			sc.Ops = append(sc.Ops, OpB{Kind: "p2p-data", N: rapid.SampledFrom([]int{1, 2, 3, 4, 4, 80, 1000}).Draw(t, "gd")})
		case k < 10:
			sc.Ops = append(sc.Ops, OpB{Kind: "tick", N: rapid.IntRange(1, 2).Draw(t, "nt")})
		case k < 11 || !withCrash:
			sc.Ops = append(sc.Ops, OpB{Kind: "restart"})
		default:
			sc.Ops = append(sc.Ops, OpB{Kind: "crash"})
		}
	}
	return sc
}

// BRun is the state of a real-ingress run, handed to the oracle callbacks (inside the bubble).
type BRun struct {
	Sc      ScenarioB
	C       *fw.Chain
	F       *fw.Full
	MaxDA   uint64
	HStar   uint64 // deliverable prefix once everything is visible
	DAStar  uint64 // largest h such that every block <= h has its header (and non-empty data) on the DA layer
	Labels  []string
	Trivial bool
	// placements as effective on the DA double (after a backlog shifted them)
	placements []Placement
}

// Placements returns the effective DA placements of the genuine blobs.
func (r *BRun) Placements() []Placement { return r.placements }

func copyData(d *types.Data) *types.Data {
	b, _ := d.MarshalBinary()
	out := new(types.Data)
	_ = out.UnmarshalBinary(b)
	return out
}

// RunB runs the scenario; step is called after every op, final after everything was made visible
// and the node had time to settle.
func RunB(sc ScenarioB, dir, id string, step func(r *BRun, when string) *world.Problem, final func(r *BRun) *world.Problem) world.Verdict {
	var v world.Verdict
	for i := 0; i < sc.Repeat || i == 0; i++ {
		v = runB(sc, dir, id, step, final)
		if v.Violation != "" {
			return v
		}
	}
	return v
}

func runB(sc ScenarioB, dir, id string, step func(r *BRun, when string) *world.Problem, final func(r *BRun) *world.Problem) world.Verdict {
	return sw.InBubble(func() world.Verdict {
		root, _ := os.MkdirTemp(dir, "drvb")
		defer os.RemoveAll(root)
		base := sc.daBase()
		c, err := fw.BuildChain(world.NodeOpts{ChainID: "drvb-chain", InitialHeight: sc.InitialHeight, RootDir: root + "/p", DAStartHeight: sc.DAStart,
			DABlockTime: time.Duration(sc.DAms) * time.Millisecond, CustomPayload: sc.CustomPayload, Prometheus: sc.Prometheus}, sc.FullChain())
		if err != nil {
			return world.Fail(id+"/chain", "cannot build the proposer chain: %v", err)
		}
		da := world.NewDADbl(0)
		r := &BRun{Sc: sc, C: c}
		hdrOnDA := map[int]bool{}
		dataOnDA := map[int]bool{}
		placements := make([]Placement, len(sc.Placements))
		for i, pl := range sc.Placements {
			pl.DAHeight += base
			placements[i] = pl
		}
		if bl := sc.Backlog; bl != nil && bl.Copies > 0 && bl.PerHeight > 0 && bl.Off < len(c.Blocks) {
			k := uint64((bl.Copies + bl.PerHeight - 1) / bl.PerHeight)
			for i, pl := range placements {
				if pl.DAHeight >= bl.At+base {
					pl.DAHeight += k
				}
				placements[i] = pl
			}
			for i := 0; i < bl.Copies; i++ {
				h := base + bl.At + uint64(i/bl.PerHeight)
				da.Inject(h, c.Blocks[bl.Off].HeaderBlob)
				if h > r.MaxDA {
					r.MaxDA = h
				}
			}
			r.Labels = append(r.Labels, "backlog-of-duplicates")
		}
		r.placements = placements
		for _, pl := range placements {
			b := c.Blocks[pl.Off]
			if pl.Kind == "header" {
				da.Place(pl.DAHeight, b.HeaderBlob)
				hdrOnDA[pl.Off] = true
			} else if b.DataBlob != nil {
				da.Place(pl.DAHeight, b.DataBlob)
				dataOnDA[pl.Off] = true
			}
			if pl.DAHeight > r.MaxDA {
				r.MaxDA = pl.DAHeight
			}
		}
		perHeight := map[uint64]int{}
		for _, pl := range placements {
			perHeight[pl.DAHeight]++
		}
		for _, n := range perHeight {
			if n > 100 {
				r.Labels = append(r.Labels, "da-height-with>100-blobs")
				break
			}
		}
		for _, ff := range sc.FetchFaults {
			da.SetFetchScript(ff.DAHeight+base, ff.Outcomes)
		}
		if sc.DAStart > 0 {
			r.Labels = append(r.Labels, "configured-da-start")
		}
		if sc.CustomPayload {
			r.Labels = append(r.Labels, "custom-signature-payload")
		}
		if sc.Prometheus {
			r.Labels = append(r.Labels, "prometheus-metrics")
		}
		if sc.DAms > 0 && sc.DAms < 100 {
			r.Labels = append(r.Labels, "da-block-time<100ms")
		}
		if len(sc.FetchFaults) > 0 {
			r.Labels = append(r.Labels, "da-read-faults")
		}
		f, err := fw.NewFull(c, root+"/f", da)
		if err != nil {
			return world.Fail(id+"/start", "full node does not start: %v", err)
		}
		r.F = f
		f.Raw.SetNoPanic(true)
		f.Exec.Latency = time.Duration(sc.ExecMs) * time.Millisecond
		// deliverable prefixes
		r.HStar = c.Opts.InitialHeight - 1
		for i, b := range c.Blocks {
			hOK := hdrOnDA[i] || i < sc.P2PHeaders
			dOK := b.Empty || dataOnDA[i] || i < sc.P2PData
			if !hOK || !dOK {
				break
			}
			r.HStar = b.Height
		}
		r.DAStar = c.Opts.InitialHeight - 1
		for i, b := range c.Blocks {
			if !b.Empty && !dataOnDA[i] {
				// data is identified by its commitment (transaction list only)
				for j, o := range c.Blocks {
					if dataOnDA[j] && world.EqTxs(o.Txs, b.Txs) {
						dataOnDA[i] = true
					}
				}
			}
			if !hdrOnDA[i] || (!b.Empty && !dataOnDA[i]) {
				break
			}
			r.DAStar = b.Height
		}
		// the DA double reports heights above its head as "from the future": start with head 0
		da.ForceHead(base)
		if r.MaxDA < base {
			r.MaxDA = base
		}
		f.Start("sync", "retrieve", "hstore", "dstore", "includer")
		defer func() { f.Stop() }()
		p2pH, p2pD := 0, 0
		bps := c.P.N.DB.Payloads()
		growH := func(n int) {
			for ; n > 0 && p2pH < sc.P2PHeaders; n-- {
				h, _ := fw.DecodeHeader(c.Blocks[p2pH].HeaderBlob)
				_ = f.N.HStore.Append(context.Background(), h)
				p2pH++
			}
		}
		growD := func(n int) {
			for ; n > 0 && p2pD < sc.P2PData && p2pD < len(bps); n-- {
				_ = f.N.DStore.Append(context.Background(), copyData(bps[p2pD]))
				p2pD++
			}
		}
		restarts, crashes := 0, 0
		for i, o := range sc.Ops {
			switch o.Kind {
			case "da-advance":
				da.ForceHead(minU(da.Head()+uint64(o.N), r.MaxDA))
			case "p2p-headers":
				growH(o.N)
			case "p2p-data":
				growD(o.N)
			case "tick":
				f.Tick(o.N)
			case "restart", "crash":
				// the P2P stores survive (they are the sync services' own datastore); the node object is new
				hs, ds := f.N.HStore, f.N.DStore
				if err := f.Restart(o.Kind == "restart"); err != nil {
					return world.Fail(id+"/restart-fails", "%s at op %d: %v", o.Kind, i, err)
				}
				f.Raw.SetNoPanic(true)
				_, _ = hs, ds
				if o.Kind == "restart" {
					restarts++
				} else {
					crashes++
				}
			}
			f.Quiesce()
			if p := f.Observe(); p != nil {
				return world.Fail(id+"/"+p.Sig, "after op %d (%s): %s", i, o.Kind, p.Msg)
			}
			if step != nil {
				if p := step(r, fmt.Sprintf("after op %d (%s)", i, o.Kind)); p != nil {
					return world.Fail(id+"/"+p.Sig, "%s", p.Msg)
				}
			}
		}
		// make everything visible and let the node settle
		da.ForceHead(r.MaxDA + 1)
		growH(len(c.Blocks))
		growD(len(c.Blocks))
		// the settle phase is sized in units of the default DA block time (2 s): with a faster DA layer the
		// same amount of virtual time takes more ticks
		tk := func(n int) {
			if sc.DAms > 0 && sc.DAms < 2000 {
				n = n*2000/sc.DAms + 1
			}
			f.Tick(n)
		}
		tk(len(c.Blocks) + int(r.MaxDA-base) + 6 + len(c.Blocks)*(sc.ExecMs/2000+1))
		if sc.Backlog != nil {
			tk(10 + sc.ExecMs/1000)
		}
		select {
		case f.N.M.VerifDAIncluderCh() <- struct{}{}:
		default:
		}
		tk(2)
		if p := f.Observe(); p != nil {
			return world.Fail(id+"/"+p.Sig, "at the end: %s", p.Msg)
		}
		if restarts > 0 {
			r.Labels = append(r.Labels, "restart")
		}
		if crashes > 0 {
			r.Labels = append(r.Labels, "crash")
		}
		if sc.ExecMs > 0 {
			r.Labels = append(r.Labels, "slow-execution")
		}
		if len(c.Blocks) > 64 {
			r.Labels = append(r.Labels, "long-chain")
		}
		kinds := map[bool]bool{}
		for _, b := range c.Blocks {
			kinds[b.Empty] = true
		}
		twoIngress := len(sc.Placements) > 0 && (sc.P2PHeaders > 0 || sc.P2PData > 0)
		outOfOrder := false
		last := map[string]uint64{}
		for _, pl := range sc.Placements {
			if pl.DAHeight < last[pl.Kind] {
				outOfOrder = true
			}
			last[pl.Kind] = pl.DAHeight
		}
		if len(c.Blocks) > 100 && !twoIngress && len(sc.Placements) > 0 {
			// is the lowest header alone above everything else?
			var h0, rest uint64
			for _, pl := range sc.Placements {
				if pl.Off == 0 && pl.Kind == "header" {
					h0 = pl.DAHeight
				} else if pl.DAHeight > rest {
					rest = pl.DAHeight
				}
			}
			if h0 > rest {
				r.Labels = append(r.Labels, ">100-blocks-unblocked-by-one-late-header")
			}
		}
		if twoIngress {
			r.Labels = append(r.Labels, "two-ingress-kinds")
		}
		if outOfOrder {
			r.Labels = append(r.Labels, "da-out-of-height-order")
		}
		r.Trivial = !(len(c.Blocks) >= 3 && len(kinds) == 2 && (outOfOrder || twoIngress) && (twoIngress || restarts+crashes > 0 || outOfOrder))
		if final != nil {
			if p := final(r); p != nil {
				return world.Fail(id+"/"+p.Sig, "%s", p.Msg)
			}
		}
		return world.OK(!r.Trivial, r.Labels...)
	})
}

func minU(a, b uint64) uint64 {
	if a < b {
		return a
	}
	return b
}
