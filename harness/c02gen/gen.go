// Package c02gen holds the chain/event generators shared by the sync-world checks.
package c02gen

import (
	"pgregory.net/rapid"

	"verif/harness/fw"
	"verif/harness/pw"
	"verif/harness/sw"
	"verif/harness/world"
)

// Event is one delivery to the sync loop — Off is the block's offset from the initial height.
type Event struct {
	Off      int    `json:"off"`
	Kind     string `json:"kind"` // header | data | restart
	DAHeight uint64 `json:"da_height,omitempty"`
}

// GenChain draws a producer chain: runs of empty blocks, non-empty blocks, and repeated tx lists.
func GenChain(t *rapid.T, maxLen int) []pw.Step {
	n := rapid.IntRange(1, maxLen).Draw(t, "nblocks")
	steps := []pw.Step{}
	var lists [][][]byte
	for len(steps) < n {
		switch k := rapid.IntRange(0, 9).Draw(t, "bk"); {
		case k < 3:
			run := rapid.IntRange(1, 3).Draw(t, "emptyrun")
			for i := 0; i < run && len(steps) < n; i++ {
				steps = append(steps, pw.GoodStep())
			}
		case k < 4 && len(lists) > 0:
			// the same transaction list as an earlier block
			steps = append(steps, pw.GoodStep(lists[rapid.IntRange(0, len(lists)-1).Draw(t, "same")]...))
		default:
			txs := sw.GenTxs(t)
			lists = append(lists, txs)
			steps = append(steps, pw.GoodStep(txs...))
		}
	}
	return steps
}

// KVify rewrites every transaction of the chain into a well-formed transaction of the reference
// application (world.KVTx), for worlds that run the real KVExecutor.
func KVify(steps []pw.Step) []pw.Step {
	out := make([]pw.Step, len(steps))
	for i, st := range steps {
		out[i] = st
		if len(st.Seq.Txs) > 0 {
			txs := make([][]byte, len(st.Seq.Txs))
			for j, tx := range st.Seq.Txs {
				txs[j] = world.KVTx(tx)
			}
			out[i].Seq.Txs = txs
		}
	}
	return out
}

// GenInitial draws an initial height.
func GenInitial(t *rapid.T) uint64 {
	switch rapid.IntRange(0, 5).Draw(t, "ih") {
	case 0:
		return uint64(rapid.IntRange(2, 5).Draw(t, "ihs"))
	case 1:
		return 1<<32 + uint64(rapid.IntRange(0, 3).Draw(t, "ihb"))
	}
	return 1
}

// HStar is the largest height such that both parts of every block up to it were delivered.
func HStar(events []Event, c *fw.Chain) uint64 {
	gotH := map[int]bool{}
	gotD := map[int]bool{}
	for _, e := range events {
		if e.Kind == "header" {
			gotH[e.Off] = true
		}
		if e.Kind == "data" {
			gotD[e.Off] = true
		}
	}
	h := c.Opts.InitialHeight - 1
	for i, b := range c.Blocks {
		if !gotH[i] || (!b.Empty && !gotD[i]) {
			break
		}
		h = b.Height
	}
	return h
}
