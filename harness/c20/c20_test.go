// Package c20 decides C20: the based sequencer releases the transactions found on the DA layer
// in DA order (height, then position), each exactly once, never above the requested batch size,
// a transaction that did not fit comes first in the next batch, and scan position and carry-over
// queue survive a restart.
//
// Subject: the real sequencers/based.Sequencer (GetNextBatch, PersistentPendingTxs) on a world.CrashDS
// datastore and a world.DADbl DA. Oracle: an independent reference model — the flat list of the DA
// transactions ordered by (height, position); the concatenation of everything released must at every
// moment be a prefix of that list, every batch must respect the limit it was requested with, and
// with an error-free DA and a sufficient limit the whole list must come out within a bounded number
// of calls.
package c20

import (
	"context"
	"encoding/json"
	"fmt"
	"sort"
	"strings"
	"testing"
	"time"

	ds "github.com/ipfs/go-datastore"
	logging "github.com/ipfs/go-log/v2"
	"pgregory.net/rapid"

	coreda "github.com/evstack/ev-node/core/da"
	coresequencer "github.com/evstack/ev-node/core/sequencer"
	"github.com/evstack/ev-node/sequencers/based"

	"verif/harness/world"
)

// Tx is one DA transaction of the scenario; its bytes are derived from its index in DA order
// (unique contents) unless Dup asks for a byte-identical copy of the previous transaction.
type Tx struct {
	Size int  `json:"size"`
	Dup  bool `json:"dup,omitempty"`
}

// Height is the content of one DA height (start+i) and the outcomes of its first examinations.
type Height struct {
	Txs   []Tx                 `json:"txs"`
	Fetch []world.FetchOutcome `json:"fetch,omitempty"`
}

// Op is one step of the history.
type Op struct {
	// Kind: get | restart | advance
	Kind string `json:"kind"`
	// get: Mode "abs" → MaxBytes = Limit (0 = the sequencer's default);
	// Mode "next" → MaxBytes = total size of the next K unreleased DA transactions + Delta (min 1).
	Mode  string `json:"mode,omitempty"`
	Limit uint64 `json:"limit,omitempty"`
	K     int    `json:"k,omitempty"`
	Delta int    `json:"delta,omitempty"`
	// advance: the DA head moves forward by By heights.
	By int `json:"by,omitempty"`
	// CtxDone (get): the call is made with a context that is already done (a stop request or a
	// timeout around the call): every DA retrieval of that call fails
	CtxDone bool `json:"ctx_done,omitempty"`
}

type Scenario struct {
	Start   uint64   `json:"start"`   // daStartHeight; Heights[i] is DA height Start+i
	Drift   uint64   `json:"drift"`   // maxHeightDrift
	Visible int      `json:"visible"` // number of heights at or below the DA head at the beginning
	Heights []Height `json:"heights"`
	Ops     []Op     `json:"ops"`
	// EpiExtra: the epilogue asks with limit = largest transaction + EpiExtra (a sufficient limit).
	EpiExtra int `json:"epi_extra"`
	// ContentIDs: the DA layer derives a blob's id from (height, content): identical blobs at one height share an id.
	ContentIDs bool `json:"content_ids,omitempty"`
}

// ---------------------------------------------------------------------------------------------
// generators

func genHeight(t *rapid.T, withFaults bool) Height {
	var h Height
	n := 0
	switch rapid.IntRange(0, 9).Draw(t, "ntxshape") {
	case 0, 1, 2:
		n = 0
	case 3, 4:
		n = 1
	default:
		n = rapid.IntRange(2, 5).Draw(t, "ntx")
		if rapid.IntRange(0, 24).Draw(t, "crowded") == 0 {
			// a crowded DA height: more blobs than one chunk of ids (the DA client fetches 100 ids at a time)
			n = rapid.IntRange(101, 260).Draw(t, "ncrowd")
		}
	}
	for i := 0; i < n; i++ {
		var x Tx
		switch rapid.IntRange(0, 5).Draw(t, "szshape") {
		case 0:
			x.Size = rapid.IntRange(0, 3).Draw(t, "tiny") // zero-length blobs are blobs too (every DA implementation here stores and returns them)
		case 1:
			x.Size = rapid.IntRange(40, 60).Draw(t, "large")
		default:
			x.Size = rapid.IntRange(1, 60).Draw(t, "size")
		}
		x.Dup = rapid.IntRange(0, 9).Draw(t, "dup") == 0
		h.Txs = append(h.Txs, x)
	}
	if withFaults && rapid.IntRange(0, 3).Draw(t, "faulty") == 0 {
		k := rapid.IntRange(1, 2).Draw(t, "nfault")
		for i := 0; i < k; i++ {
			kind := rapid.SampledFrom([]string{"future", "future", "listerr", "chunkerr", "notfound"}).Draw(t, "fkind")
			o := world.FetchOutcome{Kind: kind}
			if kind == "listerr" || kind == "chunkerr" {
				o.Err = rapid.SampledFrom([]string{"", "", "deadline", "da-deadline", "timeout", "notfound"}).Draw(t, "fflavour")
				if kind == "listerr" && o.Err == "notfound" {
					o.Err = "" // a listing answered "not found" IS an empty height for the caller, not a fault
				}
			}
			h.Fetch = append(h.Fetch, o)
		}
	}
	return h
}

func genGet(t *rapid.T) Op {
	o := Op{Kind: "get"}
	switch rapid.IntRange(0, 9).Draw(t, "limshape") {
	case 0:
		o.Mode, o.Limit = "abs", 0 // sequencer default (what block/manager.go sends)
	case 1:
		o.Mode, o.Limit = "abs", uint64(rapid.IntRange(1, 3).Draw(t, "limtiny"))
	case 2, 3:
		o.Mode, o.Limit = "abs", uint64(rapid.IntRange(4, 70).Draw(t, "limsmall"))
	case 4:
		o.Mode, o.Limit = "abs", uint64(rapid.IntRange(60, 400).Draw(t, "limmid"))
	case 5:
		o.Mode, o.Limit = "abs", uint64(rapid.IntRange(100_000, 2_000_000).Draw(t, "limhuge"))
	default:
		o.Mode = "next"
		o.K = rapid.IntRange(1, 4).Draw(t, "k")
		o.Delta = rapid.IntRange(-1, 1).Draw(t, "delta")
	}
	o.CtxDone = rapid.IntRange(0, 7).Draw(t, "ctxdone") == 0
	return o
}

func genOps(t *rapid.T, n int, restarts, advances bool) []Op {
	ops := []Op{}
	for i := 0; i < n; i++ {
		k := rapid.IntRange(0, 9).Draw(t, "opkind")
		switch {
		case k <= 1 && restarts:
			ops = append(ops, Op{Kind: "restart"})
		case k == 2 && advances:
			ops = append(ops, Op{Kind: "advance", By: rapid.IntRange(1, 3).Draw(t, "by")})
		default:
			ops = append(ops, genGet(t))
		}
	}
	return ops
}

func genStart(t *rapid.T) uint64 {
	switch rapid.IntRange(0, 7).Draw(t, "startshape") {
	case 0:
		return 0
	case 1, 2, 3:
		return 1
	case 4, 5:
		return uint64(rapid.IntRange(2, 300).Draw(t, "startsmall"))
	default:
		return 1<<40 + uint64(rapid.IntRange(0, 9).Draw(t, "startbig"))
	}
}

// genHistory draws from the whole quantified domain: any contents, empty heights, a head that
// may lie behind the scan, retrieval error scripts, any limits, restarts anywhere.
// addHuge replaces, in one scenario out of 150, one transaction of a small height by a blob above the
// sequencer's default batch limit (1.5 MB): it fits only a request that asks for more.
func addHuge(t *rapid.T, sc *Scenario) {
	if rapid.IntRange(0, 149).Draw(t, "hashuge") != 0 {
		return
	}
	for i := range sc.Heights {
		if n := len(sc.Heights[i].Txs); n > 0 && n <= 5 {
			sc.Heights[i].Txs[n/2] = Tx{Size: int(based.DefaultMaxBlobSize) + 1 + rapid.IntRange(0, 200_000).Draw(t, "hugeextra")}
			return
		}
	}
}

func genHistory(t *rapid.T) Scenario {
	var sc Scenario
	sc.Start = genStart(t)
	sc.Drift = uint64(rapid.SampledFrom([]int{0, 1, 1, 2, 2, 3, 5, 20}).Draw(t, "drift"))
	n := rapid.IntRange(1, world.Scale(8, 20)).Draw(t, "nheights")
	for i := 0; i < n; i++ {
		sc.Heights = append(sc.Heights, genHeight(t, true))
	}
	if rapid.Bool().Draw(t, "allvisible") {
		sc.Visible = n
	} else {
		sc.Visible = rapid.IntRange(0, n).Draw(t, "visible")
	}
	sc.Ops = genOps(t, rapid.IntRange(1, world.Scale(14, 40)).Draw(t, "nops"), true, true)
	sc.EpiExtra = rapid.SampledFrom([]int{0, 0, 1, 7, 100, 100000}).Draw(t, "epiextra")
	addHuge(t, &sc)
	sc.ContentIDs = rapid.IntRange(0, 2).Draw(t, "contentids") == 0
	return sc
}

// genStable restricts the domain to a DA whose head is far ahead of the scan and that never
// fails (only contents, limits and restarts vary), so that defects of the split / carry-over
// logic are found and reported independently of defects in the handling of DA answers.
func genStable(t *rapid.T) Scenario {
	var sc Scenario
	sc.Start = genStart(t)
	sc.Drift = uint64(rapid.SampledFrom([]int{0, 1, 2, 3, 20}).Draw(t, "drift"))
	n := rapid.IntRange(1, world.Scale(6, 14)).Draw(t, "nheights")
	for i := 0; i < n; i++ {
		sc.Heights = append(sc.Heights, genHeight(t, false))
	}
	sc.Visible = n
	sc.Ops = genOps(t, rapid.IntRange(1, world.Scale(12, 30)).Draw(t, "nops"), true, false)
	sc.EpiExtra = rapid.SampledFrom([]int{0, 1, 100}).Draw(t, "epiextra")
	addHuge(t, &sc)
	sc.ContentIDs = rapid.IntRange(0, 2).Draw(t, "contentids") == 0
	return sc
}

// ---------------------------------------------------------------------------------------------
// world and reference model

type mtx struct {
	h    uint64 // DA height
	hi   int    // index of the height in the scenario
	pos  int
	data []byte
	id   string // DA id once placed
}

func (m mtx) name() string { return fmt.Sprintf("h%d.%d(%dB)", m.hi, m.pos, len(m.data)) }

func content(i, size int) []byte {
	if size < 1 {
		return []byte{} // a zero-length blob
	}
	switch size {
	case 1:
		return []byte{byte(i)}
	case 2:
		return []byte{byte(i >> 8), byte(i)}
	}
	b := []byte(fmt.Sprintf("%03d", i%1000))
	for len(b) < size {
		b = append(b, byte('a'+i%26))
	}
	return b[:size]
}

// daView is the DA double as the sequencer sees it. The double stamps a height with
// time.Unix(height, 0); for the very large start heights of this check that is a year beyond
// 9999, which no DA reports (and which encoding/json cannot marshal), so the timestamp is
// replaced by a realistic one that still grows with the height.
type daView struct{ *world.DADbl }

func (d daView) GetIDs(ctx context.Context, height uint64, ns []byte) (*coreda.GetIDsResult, error) {
	r, err := d.DADbl.GetIDs(ctx, height, ns)
	if r != nil {
		r.Timestamp = time.Unix(1_700_000_000+int64(height%1_000_000)*6, 0).UTC()
	}
	return r, err
}

type wrld struct {
	sc      Scenario
	ctx     context.Context
	da      *world.DADbl
	store   *world.CrashDS
	seq     *based.Sequencer
	logger  logging.EventLogger
	model   []mtx
	byID    map[string]int
	visible int // number of scenario heights at or below the DA head
	// history
	released    int      // number of model transactions released so far (the checked prefix)
	last        [][]byte // BatchData of the previous response (fed back like block/manager.go)
	splitHeight map[int]bool
	restarts    int
	calls       int
	lastRestart int // value of `calls` at the last restart
	fetchedAt   map[int]int
	labels      map[string]bool
	obs         map[string]bool
	cutInside   int
	maxTx       int
}

var chainID = []byte("c20-chain")

func newWorld(sc Scenario) (*wrld, error) {
	w := &wrld{sc: sc, ctx: context.Background(), byID: map[string]int{}, splitHeight: map[int]bool{},
		fetchedAt: map[int]int{}, labels: map[string]bool{}, obs: map[string]bool{}}
	w.logger = logging.Logger("c20")
	_ = logging.SetLogLevel("c20", "FATAL")
	head := uint64(0)
	if sc.Start > 0 {
		head = sc.Start - 1
	}
	w.da = world.NewDADbl(head)
	w.da.ContentIDs = sc.ContentIDs
	if sc.ContentIDs {
		w.labels["content-derived-ids"] = true
	}
	idx := 0
	for hi, h := range sc.Heights {
		for pos, x := range h.Txs {
			size := x.Size
			var data []byte
			if x.Dup && idx > 0 {
				data = append([]byte(nil), w.model[idx-1].data...)
				w.labels["dup-content"] = true
			} else {
				data = content(idx, size)
			}
			if sc.Start == 0 && hi == 0 {
				// DA height 0 never holds blobs; the generator's draw for it is ignored
				continue
			}
			if len(data) > w.maxTx {
				w.maxTx = len(data)
			}
			if uint64(len(data)) > based.DefaultMaxBlobSize {
				w.labels["tx-above-the-default-batch-limit"] = true
			}
			w.model = append(w.model, mtx{h: sc.Start + uint64(hi), hi: hi, pos: pos, data: data})
			idx++
		}
		if len(h.Fetch) > 0 {
			w.da.SetFetchScript(sc.Start+uint64(hi), h.Fetch)
		}
	}
	// positions are renumbered per height (height 0 of a start-0 scenario was dropped)
	w.reveal(sc.Visible)
	w.store = world.NewCrashDS()
	seq, err := based.NewSequencer(w.logger, daView{w.da}, chainID, sc.Start, sc.Drift, w.store)
	if err != nil {
		return nil, err
	}
	w.seq = seq
	return w, nil
}

// reveal moves the DA head so that the first n scenario heights exist; their blobs are stored
// at that moment (a DA height has its final content when it appears).
func (w *wrld) reveal(n int) {
	if n > len(w.sc.Heights) {
		n = len(w.sc.Heights)
	}
	if w.sc.Start == 0 && n < 1 {
		n = 1 // DA height 0 always exists
	}
	for hi := w.visible; hi < n; hi++ {
		h := w.sc.Start + uint64(hi)
		for i := range w.model {
			if w.model[i].hi == hi {
				w.da.Place(h, w.model[i].data)
			}
		}
		sbs := w.da.At(h)
		k := 0
		for i := range w.model {
			if w.model[i].hi == hi && k < len(sbs) {
				w.model[i].id = string(sbs[k].ID)
				w.byID[w.model[i].id] = i
				k++
			}
		}
		w.da.SetHead(h)
	}
	if n > w.visible {
		w.visible = n
	}
}

// visibleTxs is the number of model transactions that exist on the DA layer now.
func (w *wrld) visibleTxs() int {
	n := 0
	for _, m := range w.model {
		if m.hi < w.visible {
			n++
		}
	}
	return n
}

func (w *wrld) restart() error {
	w.store = world.FromImage(w.store.Image()) // nothing but the datastore image survives
	seq, err := based.NewSequencer(w.logger, daView{w.da}, chainID, w.sc.Start, w.sc.Drift, w.store)
	if err != nil {
		return err
	}
	w.seq = seq
	w.restarts++
	w.lastRestart = w.calls
	w.labels["restart"] = true
	if raw, err := w.store.Get(w.ctx, ds.NewKey("/sequencer/pendingTxs")); err == nil && len(raw) > 2 && string(raw) != "null" {
		w.labels["restart-with-carry-over"] = true
	}
	return nil
}

func (w *wrld) resolveLimit(o Op) uint64 {
	if o.Mode != "next" {
		return o.Limit
	}
	sum := 0
	for i := w.released; i < len(w.model) && i < w.released+o.K; i++ {
		sum += len(w.model[i].data)
	}
	sum += o.Delta
	if sum < 1 {
		sum = 1
	}
	return uint64(sum)
}

// pendingIDs reads the persisted carry-over queue straight from the datastore (for the
// classification of a violation only).
func (w *wrld) pendingIDs() map[string]bool {
	out := map[string]bool{}
	raw, err := w.store.Get(w.ctx, ds.NewKey("/sequencer/pendingTxs"))
	if err != nil {
		return out
	}
	var list []struct {
		Txs [][]byte
		IDs [][]byte
	}
	if json.Unmarshal(raw, &list) != nil {
		return out
	}
	for _, e := range list {
		for _, id := range e.IDs {
			out[string(id)] = true
		}
	}
	return out
}

// outcomesOf lists the results of the examinations of height h so far (from the DA double's call
// log): ok (listed and fetched), empty, notfound, future, listerr, chunkerr.
func (w *wrld) outcomesOf(h uint64) []string {
	out := []string{}
	for _, c := range w.da.Calls(0) {
		if c.Height != h {
			continue
		}
		switch {
		case c.Op == "getids" && c.Outcome != "ok":
			out = append(out, c.Outcome)
		case c.Op == "get":
			out = append(out, c.Outcome)
		}
	}
	return out
}

func has(list []string, s string) bool {
	for _, x := range list {
		if x == s {
			return true
		}
	}
	return false
}

// classifyMissing names the root-cause class of "model transaction i was passed over / is never
// released".
func (w *wrld) classifyMissing(i int) (sig, why string) {
	m := w.model[i]
	outs := w.outcomesOf(m.h)
	switch {
	case w.pendingIDs()[m.id]:
		return "C20/carryover-overtaken-by-scan", fmt.Sprintf("%s is still in the persisted carry-over queue while later DA transactions were released ahead of it", m.name())
	case has(outs, "ok"):
		if w.restarts > 0 {
			return "C20/fetched-tx-lost-across-restart", fmt.Sprintf("%s was fetched from DA (outcomes of its height: %v), is not in the carry-over queue and was never released; %d restart(s) happened", m.name(), outs, w.restarts)
		}
		return "C20/fetched-tx-dropped", fmt.Sprintf("%s was fetched from DA (outcomes of its height: %v), is not in the carry-over queue and was never released", m.name(), outs)
	case has(outs, "future"):
		return "C20/future-height-stepped-over", fmt.Sprintf("DA height of %s was answered 'height from future' when it was scanned (outcomes %v) and the scan moved on; the height was never examined again", m.name(), outs)
	case has(outs, "listerr") || has(outs, "chunkerr"):
		return "C20/failed-height-stepped-over", fmt.Sprintf("DA height of %s failed when it was scanned (outcomes %v) and the scan moved on", m.name(), outs)
	case len(outs) == 0:
		return "C20/height-never-scanned", fmt.Sprintf("DA height of %s was never examined", m.name())
	}
	return "C20/tx-passed-over", fmt.Sprintf("%s was passed over (outcomes of its height: %v)", m.name(), outs)
}

func (w *wrld) names(from, to int) string {
	s := []string{}
	for i := from; i < to && i < len(w.model); i++ {
		s = append(s, w.model[i].name())
	}
	return "[" + strings.Join(s, " ") + "]"
}

// get performs one GetNextBatch call and judges the response. A non-nil verdict is a violation.
func (w *wrld) get(limit uint64, when string) *world.Verdict {
	return w.getCtx(limit, when, false)
}

func (w *wrld) getCtx(limit uint64, when string, ctxDone bool) *world.Verdict {
	w.calls++
	callCtx := w.ctx
	if ctxDone {
		c, cancel := context.WithCancel(w.ctx)
		cancel()
		callCtx = c
		w.labels["call-with-done-context"] = true
	}
	req := coresequencer.GetNextBatchRequest{Id: chainID, MaxBytes: limit, LastBatchData: w.last}
	var resp *coresequencer.GetNextBatchResponse
	var err error
	var pan any
	func() {
		defer func() {
			if r := recover(); r != nil {
				pan = r
			}
		}()
		resp, err = w.seq.GetNextBatch(callCtx, req)
	}()
	if pan != nil {
		// the statement does not promise "never panics": observed, not judged
		w.obs[fmt.Sprintf("panic in GetNextBatch: %.80v", pan)] = true
		return nil
	}
	if err != nil {
		w.obs["GetNextBatch returned an error"] = true
		return nil
	}
	if resp == nil || resp.Batch == nil {
		if limit != 0 && w.released < w.visibleTxs() && uint64(len(w.model[w.released].data)) > limit {
			w.labels["limit-below-next-tx"] = true
		}
		return nil
	}
	w.last = resp.BatchData
	txs := resp.Batch.Transactions
	eff := limit
	if eff == 0 {
		eff = based.DefaultMaxBlobSize
		w.labels["default-limit"] = true
	}
	var total uint64
	for _, tx := range txs {
		total += uint64(len(tx))
	}
	if total > eff {
		v := world.Fail("C20/batch-exceeds-limit", "%s: GetNextBatch(MaxBytes=%d) released %d transactions of %d bytes in total", when, limit, len(txs), total)
		return &v
	}
	if len(resp.BatchData) != len(txs) {
		w.obs["len(BatchData) != len(Transactions)"] = true
	}
	start := w.released
	for j, tx := range txs {
		want := w.released
		idx := -1
		if len(resp.BatchData) == len(txs) {
			if k, ok := w.byID[string(resp.BatchData[j])]; ok && string(w.model[k].data) == string(tx) {
				idx = k
			}
		}
		// the judge is the statement's observable: the released transactions themselves, compared with
		// the DA order; the DA ids in BatchData are used only to name what was released instead
		okNext := want < len(w.model) && w.model[want].hi < w.visible && string(w.model[want].data) == string(tx)
		if okNext {
			w.released++
			continue
		}
		got := fmt.Sprintf("%d bytes %q", len(tx), trunc(tx))
		if idx >= 0 {
			got = w.model[idx].name()
		}
		ctxt := fmt.Sprintf("%s: GetNextBatch(MaxBytes=%d) released %d txs; released so far = DA order prefix %s, this batch so far %s, then %s", when, limit, len(txs), w.names(0, start), w.names(start, want), got)
		switch {
		case idx >= 0 && idx < want:
			sig := "C20/duplicate-release"
			why := "it was already released"
			nok := 0
			for _, o := range w.outcomesOf(w.model[idx].h) {
				if o == "ok" {
					nok++
				}
			}
			if nok >= 2 {
				sig = "C20/rescan-after-pushback-duplicates"
				why = fmt.Sprintf("it was already released: its DA height did not fit into one batch (the rest was pushed to the carry-over queue) and was then fetched again from DA (%d successful fetches of that height)", nok)
			}
			v := world.Fail(sig, "%s — %s (expected next: %s)", ctxt, why, w.names(want, want+1))
			return &v
		case idx > want:
			sig, why := w.classifyMissing(want)
			v := world.Fail(sig, "%s — DA order violated, expected next %s: %s", ctxt, w.names(want, want+1), why)
			return &v
		case want >= len(w.model) || w.model[want].hi >= w.visible:
			v := world.Fail("C20/unknown-tx-released", "%s — but every transaction on the DA layer was already released", ctxt)
			return &v
		default:
			v := world.Fail("C20/unknown-tx-released", "%s — which is not the next DA transaction %s", ctxt, w.names(want, want+1))
			return &v
		}
	}
	if len(txs) > 0 && w.released < len(w.model) && w.model[w.released].hi < w.visible &&
		w.model[w.released-1].hi == w.model[w.released].hi {
		// the batch ends inside a DA height: it was cut by the size limit
		w.splitHeight[w.model[w.released].hi] = true
		w.cutInside++
		w.labels["batch-cut-inside-height"] = true
	}
	return nil
}

func trunc(b []byte) string {
	if len(b) > 12 {
		return string(b[:12]) + "…"
	}
	return string(b)
}

func (w *wrld) retrievalFaultsSeen() (n int) {
	for _, c := range w.da.Calls(0) {
		switch c.Outcome {
		case "future":
			w.labels["da-future"] = true
			n++
		case "listerr":
			w.labels["da-listerr"] = true
			n++
		case "chunkerr":
			w.labels["da-chunkerr"] = true
			n++
		case "notfound":
			w.labels["da-notfound"] = true
		}
	}
	return n
}

func run(sc Scenario) world.Verdict {
	if len(sc.Heights) == 0 {
		return world.Verdict{Excluded: true}
	}
	w, err := newWorld(sc)
	if err != nil {
		return world.Fail("C20/start", "NewSequencer failed on an empty datastore: %v", err)
	}
	for i, o := range sc.Ops {
		switch o.Kind {
		case "restart":
			if err := w.restart(); err != nil {
				return world.Fail("C20/restart-fails", "op %d: NewSequencer on the datastore written by the previous instance failed: %v", i, err)
			}
		case "advance":
			by := o.By
			if by < 1 {
				by = 1
			}
			if w.visible < len(sc.Heights) {
				w.reveal(w.visible + by)
				w.labels["advance-da"] = true
			}
		case "get":
			if v := w.getCtx(w.resolveLimit(o), fmt.Sprintf("op %d", i), o.CtxDone); v != nil {
				return *v
			}
		}
	}
	// epilogue: the DA is complete and error-free, the limit is sufficient for every transaction:
	// the whole list must be released within a bounded number of calls, and nothing after it.
	faults := w.retrievalFaultsSeen()
	w.reveal(len(sc.Heights))
	for hi := range sc.Heights {
		w.da.SetFetchScript(sc.Start+uint64(hi), nil)
	}
	extra := sc.EpiExtra
	if extra < 0 {
		extra = 0
	}
	limit := uint64(w.maxTx + extra)
	if limit == 0 {
		limit = 1
	}
	bound := 2*len(w.model) + len(sc.Heights) + 4
	n := 0
	for ; n < bound && w.released < len(w.model); n++ {
		if v := w.get(limit, fmt.Sprintf("epilogue call %d", n)); v != nil {
			return *v
		}
	}
	if w.released < len(w.model) {
		sig, why := w.classifyMissing(w.released)
		if sig == "C20/carryover-overtaken-by-scan" || sig == "C20/tx-passed-over" {
			sig, why = "C20/stuck", fmt.Sprintf("%s is not released", w.model[w.released].name())
		}
		return world.Fail(sig, "epilogue: DA complete and error-free, MaxBytes=%d ≥ largest transaction (%d), yet after %d calls only %d of %d DA transactions were released %s: %s",
			limit, w.maxTx, n, w.released, len(w.model), w.names(0, w.released), why)
	}
	for k := 0; k < 2; k++ {
		if v := w.get(limit, fmt.Sprintf("call %d after everything was released", k)); v != nil {
			return *v
		}
	}
	if len(w.model) == 0 {
		w.labels["no-txs"] = true
	}
	ls := make([]string, 0, len(w.labels))
	for l := range w.labels {
		ls = append(ls, l)
	}
	sort.Strings(ls)
	v := world.OK(w.cutInside >= 1 && (w.restarts >= 1 || faults >= 1), ls...)
	for o := range w.obs {
		v.Observations = append(v.Observations, o)
	}
	sort.Strings(v.Observations)
	return v
}

// ---------------------------------------------------------------------------------------------
// small-scope exhaustive sweep

func sizeLists(maxLen int, sizes []int) [][]int {
	out := [][]int{{}}
	prev := [][]int{{}}
	for l := 1; l <= maxLen; l++ {
		next := [][]int{}
		for _, p := range prev {
			for _, s := range sizes {
				q := append(append([]int{}, p...), s)
				next = append(next, q)
			}
		}
		out = append(out, next...)
		prev = next
	}
	return out
}

// smallScenarios enumerates: 3 DA heights, each holding any list of up to maxLen transactions of
// 1 or 3 bytes; one constant limit out of 1..7 for 5 calls; a restart before call r (or none);
// the head initially covering 3 or 2 heights (the third appears after the second call).
func smallScenarios() []Scenario {
	maxLen := world.Scale(2, 3)
	lists := sizeLists(maxLen, []int{1, 3})
	out := []Scenario{}
	for _, a := range lists {
		for _, b := range lists {
			for _, c := range lists {
				for _, limit := range []uint64{1, 2, 3, 4, 5, 7} {
					for r := 0; r <= 3; r++ {
						for vis := 2; vis <= 3; vis++ {
							sc := Scenario{Start: 1, Drift: 1, Visible: vis}
							for _, l := range [][]int{a, b, c} {
								h := Height{Txs: []Tx{}}
								for _, s := range l {
									h.Txs = append(h.Txs, Tx{Size: s})
								}
								sc.Heights = append(sc.Heights, h)
							}
							for k := 1; k <= 5; k++ {
								if k == r {
									sc.Ops = append(sc.Ops, Op{Kind: "restart"})
								}
								sc.Ops = append(sc.Ops, Op{Kind: "get", Mode: "abs", Limit: limit})
								if k == 2 && vis == 2 {
									sc.Ops = append(sc.Ops, Op{Kind: "advance", By: 1})
								}
							}
							out = append(out, sc)
						}
					}
				}
			}
		}
	}
	return out
}

// ---------------------------------------------------------------------------------------------

func TestC20History(t *testing.T) {
	world.Run(t, "C20", "history", world.Scale(1500, 40000), genHistory, run)
}

func TestC20StableDA(t *testing.T) {
	world.Run(t, "C20", "stable-da", world.Scale(800, 15000), genStable, run)
}

func TestC20SmallScope(t *testing.T) {
	world.Enumerate(t, "C20", "small-scope", smallScenarios(), true, run)
}
