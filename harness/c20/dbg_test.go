package c20

import (
	"encoding/json"
	"fmt"
	"os"
	"testing"
)

func TestDbg(t *testing.T) {
	p := os.Getenv("DBG_REPLAY")
	if p == "" {
		t.Skip()
	}
	b, _ := os.ReadFile(p)
	var rf struct{ Scenario Scenario }
	if err := json.Unmarshal(b, &rf); err != nil {
		t.Fatal(err)
	}
	dbg = true
	v := run(rf.Scenario)
	fmt.Printf("%+v\n", v)
}
