//go:build goexperiment.synctest

// Package c17 decides C17: in lazy mode the real AggregationLoop produces a block within one block
// interval after a notification and otherwise one block per idle interval, never faster than one
// per block interval, and never loses a notification that arrives during a production; in normal
// mode the schedule is one block per block interval whatever the notifications.
//
// The real loop runs inside a testing/synctest bubble (virtual time, exact timestamps). The
// production function is replaced through Manager.VerifSetPublishBlock by a recorder that sleeps
// the generated duration; notifications are sent with Manager.NotifyNewTransactions at generated
// virtual instants (absolute, or relative to the start of the k-th production so that they can
// be aimed into an in-flight production and at the expiry of either timer).
package c17

import (
	"context"
	"errors"
	"fmt"
	"sort"
	"strings"
	"sync"
	"testing"
	"testing/synctest"
	"time"

	"pgregory.net/rapid"

	"verif/harness/world"
)

const ms = int64(time.Millisecond)

// Notif is one notification: OffNs after the start of production number Prod (0-based), or after
// the start of the bubble when Prod is -1.
type Notif struct {
	Prod  int   `json:"prod"`
	OffNs int64 `json:"off_ns"`
}

// Scenario is one schedule. All times are virtual nanoseconds.
type Scenario struct {
	Lazy      bool    `json:"lazy"`
	BlockNs   int64   `json:"block_ns"`
	IdleNs    int64   `json:"idle_ns"`
	StartupNs int64   `json:"startup_ns"` // last block time + block interval - start of the loop (<=0: no start-up delay)
	DurNs     []int64 `json:"dur_ns"`     // production k lasts DurNs[k % len]
	Notifs    []Notif `json:"notifs"`
	HorizonNs int64   `json:"horizon_ns"`
	// PreBlocks: the node is (re)started on a chain that already has this many blocks (0: a fresh chain, the
	// start-up delay counts from the genesis time; > 0: it counts from the time of the last block).
	PreBlocks     int    `json:"pre_blocks,omitempty"`
	InitialHeight uint64 `json:"initial_height,omitempty"`
	// FailAt > 0 (lazy mode): production number FailAt-1 fails at its end with an error of kind FailKind:
	// generic | deadline (an error wrapping context.DeadlineExceeded: a downstream call with a deadline of its
	// own, while the node's context is alive) | canceled (wrapping context.Canceled).
	FailAt   int    `json:"fail_at,omitempty"`
	FailKind string `json:"fail_kind,omitempty"`
	// RealProd: productions are the node's REAL production step (sequencing double, execution double whose
	// ExecuteTxs takes DurNs[k] and honours its context, real store) instead of a stub that only takes time.
	RealProd bool `json:"real_prod,omitempty"`
}

func (sc Scenario) dur(k int) int64 {
	if len(sc.DurNs) == 0 {
		return 0
	}
	return sc.DurNs[k%len(sc.DurNs)]
}

func (sc Scenario) s0() int64 {
	if sc.StartupNs > 0 {
		return sc.StartupNs
	}
	return 0
}

// ---------------------------------------------------------------------------------------------
// generator

func pm1(t *rapid.T, v int64, label string) int64 {
	v += int64(rapid.IntRange(-1, 1).Draw(t, label))
	if v < 0 {
		v = 0
	}
	return v
}

func genDur(t *rapid.T, b, idle int64) int64 {
	switch rapid.IntRange(0, 11).Draw(t, "dshape") {
	case 0:
		return 0
	case 1:
		return 1
	case 2, 3, 4, 5:
		return rapid.Int64Range(1, b-1).Draw(t, "dshort")
	case 6:
		return pm1(t, b, "dblock")
	case 7, 8, 9:
		return rapid.Int64Range(b+1, 3*b).Draw(t, "dlong")
	case 10:
		return pm1(t, idle, "didle")
	default:
		return rapid.Int64Range(idle, idle+b).Draw(t, "dverylong")
	}
}

func genNotif(t *rapid.T, sc *Scenario) Notif {
	b, idle := sc.BlockNs, sc.IdleNs
	k := rapid.IntRange(-1, 8).Draw(t, "nprod")
	if k == -1 {
		return Notif{Prod: -1, OffNs: rapid.Int64Range(0, sc.HorizonNs-1).Draw(t, "nabs")}
	}
	d := sc.dur(k)
	var off int64
	switch rapid.IntRange(0, 11).Draw(t, "nshape") {
	case 0, 1, 2, 3, 4:
		if d >= 2 {
			off = rapid.Int64Range(1, d-1).Draw(t, "ninside")
		}
	case 5:
		off = d + rapid.SampledFrom([]int64{-1, 0, 1, ms - 1, ms, ms + 1}).Draw(t, "nend")
	case 6, 7:
		m := int64(rapid.IntRange(1, 4).Draw(t, "ntick"))
		off = pm1(t, m*b, "ntickpm")
	case 8:
		off = pm1(t, idle, "nidle")
	case 9:
		off = idle - rapid.Int64Range(1, b).Draw(t, "nbeforeidle")
	case 10:
		off = int64(rapid.IntRange(0, 1).Draw(t, "nzero"))
	default:
		off = rapid.Int64Range(0, idle+b).Draw(t, "nuniform")
	}
	if off < 0 {
		off = 0
	}
	return Notif{Prod: k, OffNs: off}
}

func genScenario(t *rapid.T) Scenario {
	var sc Scenario
	sc.Lazy = rapid.IntRange(0, 3).Draw(t, "mode") != 0
	sc.BlockNs = int64(rapid.IntRange(10, 500).Draw(t, "block_ms")) * ms
	var ratio int64
	switch rapid.IntRange(0, 3).Draw(t, "rshape") {
	case 0:
		ratio = 1
	case 1, 2:
		ratio = int64(rapid.IntRange(2, 5).Draw(t, "rsmall"))
	default:
		ratio = int64(rapid.IntRange(6, 20).Draw(t, "rbig"))
	}
	sc.IdleNs = sc.BlockNs * ratio
	if rapid.IntRange(0, 2).Draw(t, "rfrac") == 0 {
		sc.IdleNs += rapid.Int64Range(1, sc.BlockNs-1).Draw(t, "rfracns")
	}
	switch rapid.IntRange(0, 3).Draw(t, "sshape") {
	case 0:
		sc.StartupNs = -rapid.Int64Range(1, 3*sc.BlockNs).Draw(t, "sneg")
	case 1:
		sc.StartupNs = rapid.Int64Range(1, sc.BlockNs).Draw(t, "spos")
	}
	if rapid.IntRange(0, 2).Draw(t, "restarted") == 0 {
		// the loop starts on an existing chain (a restart): one block (height == initial height) or more
		sc.PreBlocks = rapid.SampledFrom([]int{1, 1, 2, 3}).Draw(t, "preblocks")
		sc.InitialHeight = rapid.SampledFrom([]uint64{1, 1, 7}).Draw(t, "initial")
	}
	nd := rapid.IntRange(1, 5).Draw(t, "ndur")
	for i := 0; i < nd; i++ {
		sc.DurNs = append(sc.DurNs, genDur(t, sc.BlockNs, sc.IdleNs))
	}
	sc.HorizonNs = sc.s0() + sc.IdleNs*int64(rapid.IntRange(1, 3).Draw(t, "hidle")) +
		sc.BlockNs*int64(rapid.IntRange(2, world.Scale(24, 60)).Draw(t, "hblock"))
	nn := rapid.IntRange(0, 12).Draw(t, "nnotif")
	for i := 0; i < nn; i++ {
		sc.Notifs = append(sc.Notifs, genNotif(t, &sc))
	}
	sc.RealProd = rapid.IntRange(0, 4).Draw(t, "realprod") == 0
	if sc.Lazy && !sc.RealProd && rapid.IntRange(0, 5).Draw(t, "failing") == 0 {
		sc.FailAt = 1 + rapid.IntRange(0, 6).Draw(t, "failat")
		sc.FailKind = rapid.SampledFrom([]string{"generic", "deadline", "canceled"}).Draw(t, "failkind")
	}
	return sc
}

// ---------------------------------------------------------------------------------------------
// execution in virtual time

type prod struct {
	S, E       int64
	sSeq, eSeq int
	done       bool
	failed     bool
}

type note struct {
	T, R int64
	// seq is drawn just before NotifyNewTransactions is called: a production recorded earlier
	// certainly started before the notification was sent (it is "in flight" for it); one recorded
	// later either started after the send or at the very same virtual instant, and counts as a
	// block produced after the notification (the oracle is lenient only for such exact ties).
	seq      int
	returned bool
	ref      Notif
}

type trace struct {
	mu          sync.Mutex
	seq         int
	prods       []prod
	notes       []note
	outstanding int
	stop        bool
	loopErr     error
	loopPanic   any
	loopExit    int64 // -1: exited only after cancellation
	failS       int64 // start and end of the production that failed (failed == true)
	failE       int64
	failed      bool
	afterFail   int64 // start of the first production after the failed one (-1: none)
	bubblePanic string
	setupErr    error
}

var bubbleEpoch = time.Date(2000, 1, 1, 0, 0, 0, 0, time.UTC)

func execute(sc Scenario, withNotifs bool, dir string) (tr *trace) {
	tr = &trace{loopExit: -1, afterFail: -1}
	defer func() {
		if r := recover(); r != nil {
			tr.bubblePanic = fmt.Sprint(r)
		}
	}()
	synctest.Run(func() {
		t0 := time.Now()
		now := func() int64 { return int64(time.Since(t0)) }
		ctx, cancel := context.WithCancel(context.Background())
		defer cancel()

		sgn, _, pub := world.SignerFromSeed("proposer")
		exec := world.NewExecDbl("c17")
		seq := world.NewSeqDbl(func() time.Time { return time.Now() })
		initial := sc.InitialHeight
		if initial == 0 {
			initial = 1
		}
		o := world.NodeOpts{ChainID: "c17-chain", InitialHeight: initial,
			GenesisTime: t0.Add(time.Duration(sc.StartupNs - sc.BlockNs)), Aggregator: true, Lazy: sc.Lazy,
			BlockTime: time.Duration(sc.BlockNs), DABlockTime: time.Second, LazyInterval: time.Duration(sc.IdleNs), RootDir: dir}
		if sc.PreBlocks > 0 {
			// the block at the initial height carries the genesis time: make that the moment it is produced
			o.GenesisTime = t0
		}
		raw := world.NewCrashDS()
		n, err := world.NewNode(ctx, o, raw, sgn, pub, exec, seq, world.NewDADbl(0))
		if err != nil {
			tr.setupErr = err
			return
		}
		if sc.PreBlocks > 0 {
			// an earlier life of the node produced PreBlocks blocks, the last one just now; this life starts
			// (block interval - StartupNs) later, so that "last block time + block interval - start" = StartupNs
			for i := 0; i < sc.PreBlocks; i++ {
				seq.Push(world.SeqResp{Kind: "empty"})
				if err := n.M.VerifPublishBlock(ctx); err != nil {
					tr.setupErr = fmt.Errorf("pre-block %d: %w", i, err)
					return
				}
			}
			if d := sc.BlockNs - sc.StartupNs; d > 0 {
				time.Sleep(time.Duration(d))
			}
			t0 = time.Now()
			n, err = n.Restart(ctx, raw, sgn, exec, seq, world.NewDADbl(0))
			if err != nil {
				tr.setupErr = err
				return
			}
		}
		m := n.M

		var wg sync.WaitGroup
		sleepCtx := func(d int64) bool {
			if d <= 0 {
				return ctx.Err() == nil
			}
			tm := time.NewTimer(time.Duration(d))
			defer tm.Stop()
			select {
			case <-tm.C:
				return true
			case <-ctx.Done():
				return false
			}
		}
		notify := func(ref Notif) {
			defer wg.Done()
			if !sleepCtx(ref.OffNs) {
				return
			}
			tr.mu.Lock()
			if tr.stop {
				tr.mu.Unlock()
				return
			}
			idx := len(tr.notes)
			tr.seq++
			tr.notes = append(tr.notes, note{T: now(), seq: tr.seq, ref: ref})
			tr.outstanding++
			tr.mu.Unlock()
			m.NotifyNewTransactions()
			tr.mu.Lock()
			tr.notes[idx].R = now()
			tr.notes[idx].returned = true
			tr.outstanding--
			tr.mu.Unlock()
		}
		byProd := map[int][]Notif{}
		if withNotifs {
			for _, nf := range sc.Notifs {
				byProd[nf.Prod] = append(byProd[nf.Prod], nf)
			}
		}

		m.VerifSetPublishBlock(func(pctx context.Context) error {
			tr.mu.Lock()
			k := len(tr.prods)
			tr.seq++
			tr.prods = append(tr.prods, prod{S: now(), sSeq: tr.seq})
			if tr.failed && tr.afterFail < 0 {
				tr.afterFail = now()
			}
			tr.mu.Unlock()
			for _, nf := range byProd[k] {
				wg.Add(1)
				go notify(nf)
			}
			if sc.RealProd {
				exec.Latency = time.Duration(sc.dur(k))
				seq.Drain()
				if k%2 == 0 {
					seq.Push(world.SeqResp{Kind: "empty"})
				} else {
					seq.Push(world.SeqResp{Kind: "txs", Txs: [][]byte{[]byte(fmt.Sprintf("c17-tx-%d", k))}})
				}
				err := m.VerifPublishBlock(pctx)
				if pctx.Err() != nil {
					return nil // cancelled at the horizon: production k stays "not done"
				}
				tr.mu.Lock()
				tr.seq++
				tr.prods[k].E, tr.prods[k].eSeq, tr.prods[k].done = now(), tr.seq, true
				tr.mu.Unlock()
				return err
			}
			if d := sc.dur(k); d > 0 {
				tm := time.NewTimer(time.Duration(d))
				select {
				case <-tm.C:
				case <-pctx.Done():
					tm.Stop()
					return nil // cancelled at the horizon: production k stays "not done"
				}
			}
			tr.mu.Lock()
			tr.seq++
			tr.prods[k].E, tr.prods[k].eSeq, tr.prods[k].done = now(), tr.seq, true
			fail := sc.FailAt == k+1 && !tr.stop
			if fail {
				tr.prods[k].failed, tr.failed, tr.failS, tr.failE = true, true, tr.prods[k].S, now()
			}
			tr.mu.Unlock()
			if fail {
				switch sc.FailKind {
				case "deadline":
					return fmt.Errorf("failed to execute transactions: %w", context.DeadlineExceeded)
				case "canceled":
					return fmt.Errorf("remote signer: %w", context.Canceled)
				}
				return errors.New("failed to execute transactions: out of gas")
			}
			return nil
		})

		errCh := make(chan error, 4)
		loopDone := make(chan struct{})
		go func() {
			defer close(loopDone)
			defer func() {
				if r := recover(); r != nil {
					tr.mu.Lock()
					tr.loopPanic = r
					tr.mu.Unlock()
				}
				tr.mu.Lock()
				if ctx.Err() == nil {
					tr.loopExit = now()
				}
				tr.mu.Unlock()
			}()
			m.AggregationLoop(ctx, errCh)
		}()
		for _, nf := range byProd[-1] {
			wg.Add(1)
			go notify(nf)
		}

		time.Sleep(time.Duration(sc.HorizonNs))
		tr.mu.Lock()
		tr.stop = true
		tr.mu.Unlock()
		// A correct notify never blocks, so nothing is outstanding here. If an implementation blocks
		// the caller, give the loop the chance to take the notification so the bubble can end.
		for i := 0; i < 400; i++ {
			tr.mu.Lock()
			out := tr.outstanding
			tr.mu.Unlock()
			if out == 0 {
				break
			}
			time.Sleep(time.Duration(sc.BlockNs))
		}
		cancel()
		<-loopDone
		select {
		case e := <-errCh:
			tr.loopErr = e
		default:
		}
		tr.mu.Lock()
		out := tr.outstanding
		tr.mu.Unlock()
		if out == 0 {
			wg.Wait()
		}
	})
	return tr
}

// ---------------------------------------------------------------------------------------------
// oracle

type problem struct {
	prio int
	sig  string
	msg  string
}

func fmtNs(v int64) string { return time.Duration(v).String() }

func (tr *trace) dump(sc Scenario) string {
	var sb strings.Builder
	fmt.Fprintf(&sb, "mode=%s block=%s idle=%s startup=%s horizon=%s; productions:", map[bool]string{true: "lazy", false: "normal"}[sc.Lazy],
		fmtNs(sc.BlockNs), fmtNs(sc.IdleNs), fmtNs(sc.StartupNs), fmtNs(sc.HorizonNs))
	for i, p := range tr.prods {
		if i >= 12 {
			sb.WriteString(" …")
			break
		}
		if p.done {
			fmt.Fprintf(&sb, " [%s..%s]", fmtNs(p.S), fmtNs(p.E))
		} else {
			fmt.Fprintf(&sb, " [%s..)", fmtNs(p.S))
		}
	}
	sb.WriteString("; notifications:")
	for i, n := range tr.notes {
		if i >= 12 {
			sb.WriteString(" …")
			break
		}
		fmt.Fprintf(&sb, " %s", fmtNs(n.T))
	}
	return sb.String()
}

// clip drops what happened at or after the horizon (the cancellation races with it by design).
// allowanceAfterFailure: how long a node that keeps running after a failed production may take to begin the
// next one: one block interval when a notification is waiting for its block (it arrived since the previous
// production began and no block has been produced since), one idle interval otherwise.
func (tr *trace) allowanceAfterFailure(sc Scenario) int64 {
	from := int64(-1 << 62)
	for i, p := range tr.prods {
		if p.failed && i > 0 {
			from = tr.prods[i-1].S
		}
	}
	for _, n := range tr.notes {
		if n.T >= from && n.T <= tr.failE {
			return sc.BlockNs
		}
	}
	return sc.IdleNs
}

func (tr *trace) clip(h int64) {
	ps := tr.prods[:0]
	for _, p := range tr.prods {
		if p.S >= h {
			continue
		}
		if p.done && p.E >= h {
			p.done = false
		}
		ps = append(ps, p)
	}
	tr.prods = ps
	ns := tr.notes[:0]
	for _, n := range tr.notes {
		if n.T >= h {
			continue
		}
		ns = append(ns, n)
	}
	tr.notes = ns
}

func max64(a, b int64) int64 {
	if a > b {
		return a
	}
	return b
}

// common checks: the loop keeps running, notify does not block the caller, productions are
// serial and never closer than one block interval (also with respect to the last block before
// the start).
func checkCommon(sc Scenario, tr *trace, out *[]problem) {
	b := sc.BlockNs
	mode := "normal"
	if sc.Lazy {
		mode = "lazy"
	}
	if tr.loopPanic != nil {
		*out = append(*out, problem{0, "C17/" + mode + "/loop-panic", fmt.Sprintf("aggregation loop panicked: %v", tr.loopPanic)})
	}
	if tr.loopExit >= 0 {
		*out = append(*out, problem{0, "C17/" + mode + "/loop-exited", fmt.Sprintf("aggregation loop returned at %s without cancellation (err=%v)", fmtNs(tr.loopExit), tr.loopErr)})
	}
	for _, n := range tr.notes {
		if !n.returned || n.R != n.T {
			state := "never returned"
			if n.returned {
				state = "returned only at " + fmtNs(n.R)
			}
			*out = append(*out, problem{1, "C17/notify-blocks-caller", fmt.Sprintf("NotifyNewTransactions called at %s %s (the notification path must not block)", fmtNs(n.T), state)})
			break
		}
	}
	if len(tr.prods) > 0 && sc.StartupNs > 0 && tr.prods[0].S < sc.StartupNs {
		*out = append(*out, problem{2, "C17/" + mode + "/first-block-too-early", fmt.Sprintf("first block started at %s, less than one block interval after the previous block (allowed from %s)", fmtNs(tr.prods[0].S), fmtNs(sc.StartupNs))})
	}
	for i := 0; i+1 < len(tr.prods); i++ {
		p, q := tr.prods[i], tr.prods[i+1]
		if !p.done || q.S < p.E {
			*out = append(*out, problem{2, "C17/" + mode + "/overlapping-productions", fmt.Sprintf("production %d started at %s before production %d ended", i+1, fmtNs(q.S), i)})
			break
		}
		if q.S-p.S < b {
			*out = append(*out, problem{2, "C17/" + mode + "/faster-than-block-interval", fmt.Sprintf("productions %d and %d started %s apart (block interval %s)", i, i+1, fmtNs(q.S-p.S), fmtNs(b))})
			break
		}
	}
}

func checkLazy(sc Scenario, tr *trace, out *[]problem) {
	b, idle, h := sc.BlockNs, sc.IdleNs, sc.HorizonNs
	ps := tr.prods
	// (2) every notification is followed by a block within one block interval — of the
	// notification, or as soon as the in-flight production (or the start-up delay) allows.
	for _, n := range tr.notes {
		if !n.returned {
			continue
		}
		deadline := n.T + b
		inflight := -1
		startedBefore := false
		skip := false
		for i, p := range ps {
			if p.sSeq < n.seq {
				startedBefore = true
				if !p.done {
					skip = true // in flight when the horizon was reached
				} else if p.eSeq > n.seq {
					inflight = i
					deadline = max64(deadline, p.E+ms)
				}
			}
		}
		if !startedBefore {
			deadline = max64(deadline, sc.s0())
		}
		if skip || deadline >= h {
			continue
		}
		next := int64(-1)
		for _, p := range ps {
			if p.sSeq > n.seq {
				next = p.S
				break
			}
		}
		if next >= 0 && next <= deadline {
			continue
		}
		kind := "idle"
		where := "while no block was being produced"
		if inflight >= 0 {
			kind = "inflight"
			where = fmt.Sprintf("while production %d [%s..%s] was in flight", inflight, fmtNs(ps[inflight].S), fmtNs(ps[inflight].E))
		}
		if next < 0 || next > deadline+b {
			nx := "no further block up to the horizon"
			if next >= 0 {
				nx = "the next block started only at " + fmtNs(next)
			}
			*out = append(*out, problem{3, "C17/lazy/" + kind + "-notification-lost", fmt.Sprintf("notification at %s %s led to no block by %s: %s", fmtNs(n.T), where, fmtNs(deadline), nx)})
		} else {
			*out = append(*out, problem{4, "C17/lazy/" + kind + "-notification-served-late", fmt.Sprintf("notification at %s %s: next block started at %s, later than %s", fmtNs(n.T), where, fmtNs(next), fmtNs(deadline))})
		}
		break
	}
	// (3a) idle: at least one block per idle interval
	if len(ps) == 0 {
		if sc.s0()+idle < h {
			*out = append(*out, problem{5, "C17/lazy/idle-block-missing", fmt.Sprintf("no block at all by %s", fmtNs(sc.s0()+idle))})
		}
	} else if ps[0].S > sc.s0()+idle {
		*out = append(*out, problem{5, "C17/lazy/idle-block-missing", fmt.Sprintf("first block only at %s", fmtNs(ps[0].S))})
	}
	for i, p := range ps {
		if !p.done {
			break
		}
		bound := max64(p.S+idle, p.E+ms)
		if bound >= h {
			continue
		}
		if i+1 >= len(ps) || ps[i+1].S > bound {
			nx := "none up to the horizon"
			if i+1 < len(ps) {
				nx = fmtNs(ps[i+1].S)
			}
			*out = append(*out, problem{5, "C17/lazy/idle-block-missing", fmt.Sprintf("after production %d [%s..%s] the next block was due by %s (idle interval %s); next start: %s", i, fmtNs(p.S), fmtNs(p.E), fmtNs(bound), fmtNs(idle), nx)})
			break
		}
	}
	// (3b) no spurious blocks: a block that comes sooner than one idle interval after its
	// predecessor needs a notification since the predecessor started (ties count).
	for i := 0; i+1 < len(ps); i++ {
		p, q := ps[i], ps[i+1]
		if q.S-p.S >= idle {
			continue
		}
		justified := false
		last := int64(-1) // latest notification before block i started
		for _, n := range tr.notes {
			if n.T >= p.S && n.T <= q.S {
				justified = true
			}
			if n.T < p.S && n.T > last {
				last = n.T
			}
		}
		// Root-cause class: the latest earlier notification was answered by block f, and every
		// block from f to i came a full idle interval after its predecessor (the shape of blocks
		// triggered by the idle timer): the extra block is the late echo of that notification.
		prevNotified := false
		for _, strict := range []bool{false, true} { // a tie between notification and start is read both ways
			if last < 0 {
				break
			}
			f := 0
			for f < i && (ps[f].S < last || (strict && ps[f].S == last)) {
				f++
			}
			chain := true
			for k := f; k <= i; k++ {
				if k > 0 && ps[k].S-ps[k-1].S < idle {
					chain = false
				}
			}
			prevNotified = prevNotified || chain
		}
		if justified {
			continue
		}
		if prevNotified {
			*out = append(*out, problem{7, "C17/lazy/extra-block-after-notified-block", fmt.Sprintf("block %d started at %s, only %s after block %d (idle interval %s), with no notification since block %d started at %s; the latest earlier notification (at %s) had already been answered by an idle-timer block", i+1, fmtNs(q.S), fmtNs(q.S-p.S), i, fmtNs(idle), i, fmtNs(p.S), fmtNs(last))})
		} else {
			*out = append(*out, problem{6, "C17/lazy/spurious-block", fmt.Sprintf("block %d started at %s, only %s after block %d (idle interval %s), with no notification at all since block %d started", i+1, fmtNs(q.S), fmtNs(q.S-p.S), i, fmtNs(idle), i)})
		}
		break
	}
}

func checkNormal(sc Scenario, tr, quiet *trace, out *[]problem) {
	b, h := sc.BlockNs, sc.HorizonNs
	ps := tr.prods
	// one block per block interval: the next block starts one interval after its predecessor, or
	// right after the predecessor finished when that took longer.
	first := sc.s0() + b
	if first < h && (len(ps) == 0 || ps[0].S > first) {
		*out = append(*out, problem{3, "C17/normal/block-missing", fmt.Sprintf("no block within one block interval of the start (%s)", fmtNs(first))})
	}
	for i, p := range ps {
		if !p.done {
			break
		}
		bound := max64(p.S+b, p.E+ms)
		if bound >= h {
			continue
		}
		if i+1 >= len(ps) || ps[i+1].S > bound {
			nx := "none up to the horizon"
			if i+1 < len(ps) {
				nx = fmtNs(ps[i+1].S)
			}
			*out = append(*out, problem{3, "C17/normal/block-missing", fmt.Sprintf("after production %d [%s..%s] the next block was due by %s; next start: %s", i, fmtNs(p.S), fmtNs(p.E), fmtNs(bound), nx)})
			break
		}
	}
	// metamorphic: notifications do not change the schedule
	qs := quiet.prods
	if len(qs) != len(ps) {
		*out = append(*out, problem{4, "C17/normal/notifications-change-schedule", fmt.Sprintf("%d blocks with the notifications, %d blocks for the same schedule without them", len(ps), len(qs))})
		return
	}
	for i := range ps {
		if ps[i].S != qs[i].S {
			*out = append(*out, problem{4, "C17/normal/notifications-change-schedule", fmt.Sprintf("block %d started at %s with the notifications and at %s without them", i, fmtNs(ps[i].S), fmtNs(qs[i].S))})
			return
		}
	}
}

func run(sc Scenario, dir string) world.Verdict {
	if sc.BlockNs <= 0 || sc.IdleNs < sc.BlockNs || sc.HorizonNs <= 0 || sc.StartupNs > sc.BlockNs {
		return world.Verdict{Excluded: true}
	}
	tr := execute(sc, true, dir)
	if tr.setupErr != nil {
		return world.Fail("C17/setup", "NewManager failed: %v", tr.setupErr)
	}
	if tr.bubblePanic != "" {
		if tr.outstanding > 0 {
			return world.Fail("C17/notify-blocks-caller", "NotifyNewTransactions never returned for %d caller(s); bubble ended with: %s", tr.outstanding, tr.bubblePanic)
		}
		return world.Fail("C17/bubble-panic", "virtual-time run ended with: %s", tr.bubblePanic)
	}
	var probs []problem
	if tr.failed {
		// A production failed. The node may halt (the loop returns and reports the error): nothing is demanded of
		// a halted node. A node that carries on is still bound by the statement: the failed production yielded no
		// block, so another production must begin within one block interval of the failure.
		if tr.loopExit >= 0 {
			if tr.loopErr == nil {
				probs = append(probs, problem{0, "C17/lazy/halted-silently", fmt.Sprintf("production failed at %s and the aggregation loop returned at %s without reporting an error", fmtNs(tr.failE), fmtNs(tr.loopExit))})
			}
			tr.loopExit = -1
		} else if deadline := tr.failE + tr.allowanceAfterFailure(sc); deadline < sc.HorizonNs && (tr.afterFail < 0 || tr.afterFail > deadline) {
			next := "no further production began before the horizon " + fmtNs(sc.HorizonNs)
			if tr.afterFail >= 0 {
				next = "the next production began only at " + fmtNs(tr.afterFail)
			}
			probs = append(probs, problem{0, "C17/lazy/wake-up-lost-after-failed-production", fmt.Sprintf("production begun at %s failed at %s (%s error) and produced no block; the node kept running, yet %s (block interval %s, idle interval %s; allowed: %s after the failure)",
				fmtNs(tr.failS), fmtNs(tr.failE), sc.FailKind, next, fmtNs(sc.BlockNs), fmtNs(sc.IdleNs), fmtNs(tr.allowanceAfterFailure(sc)))})
		}
		// what happened before the failed production began is judged as usual
		sc.HorizonNs = tr.failS
	}
	tr.clip(sc.HorizonNs)
	checkCommon(sc, tr, &probs)
	if sc.Lazy {
		checkLazy(sc, tr, &probs)
	} else {
		quiet := execute(sc, false, dir)
		if quiet.setupErr != nil || quiet.bubblePanic != "" {
			return world.Fail("C17/setup", "quiet run failed: %v %s", quiet.setupErr, quiet.bubblePanic)
		}
		quiet.clip(sc.HorizonNs)
		checkNormal(sc, tr, quiet, &probs)
	}
	if len(probs) > 0 {
		sort.SliceStable(probs, func(i, j int) bool { return probs[i].prio < probs[j].prio })
		return world.Fail(probs[0].sig, "%s  {%s}", probs[0].msg, tr.dump(sc))
	}

	// non-triviality and labels
	labels := map[string]bool{}
	if sc.RealProd {
		labels["real-production-step"] = true
	}
	if tr.failed {
		labels["production-fails:"+sc.FailKind] = true
	}
	if sc.Lazy {
		labels["lazy"] = true
	} else {
		labels["normal"] = true
	}
	inflight, further := 0, 0
	for _, n := range tr.notes {
		for i, p := range tr.prods {
			if p.S < n.T && (!p.done || n.T < p.E) {
				inflight++
				if sc.Lazy && i+1 < len(tr.prods) {
					further++
				}
			}
			if p.S == n.T {
				labels["notif-ties-with-start"] = true
			}
			if p.done && p.E == n.T {
				labels["notif-ties-with-end"] = true
			}
			if (n.T-p.S)%sc.BlockNs == 0 && n.T > p.S && (i+1 >= len(tr.prods) || n.T <= tr.prods[i+1].S) {
				labels["notif-at-block-tick"] = true
			}
			if n.T == p.S+sc.IdleNs {
				labels["notif-at-idle-expiry"] = true
			}
		}
	}
	if inflight > 0 {
		labels["notif-inflight"] = true
	}
	if further > 0 {
		labels["inflight-notif-got-further-block"] = true
	}
	if len(tr.notes) == 0 {
		labels["no-notifications"] = true
	}
	for i, p := range tr.prods {
		d := sc.dur(i)
		switch {
		case d == 0:
			labels["dur=0"] = true
		case d < sc.BlockNs:
			labels["dur<block"] = true
		case d == sc.BlockNs:
			labels["dur=block"] = true
		case d >= sc.IdleNs:
			labels["dur>=idle"] = true
		default:
			labels["dur>block"] = true
		}
		if sc.Lazy && i > 0 && p.S-tr.prods[i-1].S >= sc.IdleNs {
			labels["idle-block"] = true
		}
	}
	if sc.IdleNs%sc.BlockNs == 0 {
		labels["ratio-integer"] = true
		if sc.IdleNs == sc.BlockNs {
			labels["ratio=1"] = true
		}
	} else {
		labels["ratio-fractional"] = true
	}
	if sc.StartupNs > 0 {
		labels["startup-delay"] = true
	}
	ls := make([]string, 0, len(labels))
	for l := range labels {
		ls = append(ls, l)
	}
	sort.Strings(ls)
	return world.OK(inflight >= 1 && len(tr.prods) >= 3, ls...)
}

func TestC17(t *testing.T) {
	dir := t.TempDir()
	world.Run(t, "C17", "lazy-schedule", world.Scale(1000, 20000), genScenario, func(sc Scenario) world.Verdict { return run(sc, dir) })
}
