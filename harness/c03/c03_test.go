// Package c03 decides C03: only material signed by the genesis proposer's key is ever accepted —
// forgeries built without the proposer's private key, interleaved with genuine traffic on the DA
// layer and over P2P, on full nodes and on header-only (light) nodes. Twin worlds: the same run
// with and without the adversary.
package c03

import (
	mrand "math/rand"
	"sync"

	"bytes"
	"context"
	"crypto/sha256"
	"fmt"
	"os"
	"testing"
	"time"

	goheader "github.com/celestiaorg/go-header"
	"github.com/libp2p/go-libp2p/core/crypto"
	"google.golang.org/protobuf/proto"
	"pgregory.net/rapid"

	"github.com/evstack/ev-node/types"

	"verif/harness/c02gen"
	"verif/harness/fw"
	"verif/harness/pw"
	"verif/harness/sw"
	"verif/harness/world"
)

// Adv is one adversarial item.
type Adv struct {
	// Kind: f1-header | f1-data | f1-pair | f2-header | f2-data | f3-unsigned | f3-garbage-sig |
	//       f4-chainid | f4-past | f4-future | f5-header-bytes | f5-data-bytes | foreign-address |
	//       f6-replayed-txs (the PUBLIC transaction list of an earlier genuine block under forged metadata
	//       naming a later height, signed by the adversary: same data commitment as genuine data) |
	//       oversize-junk (a blob larger than anything the chain's own DA client would submit)
	Kind string `json:"kind"`
	// Target is the offset (from the initial height) of the block the item targets; == len(chain) means top+1.
	Target int `json:"target"`
	// Mut selects the mutated field / byte position.
	Mut int `json:"mut"`
	// Ingress: da | p2p (p2p applies to header items: they are offered to the P2P admission sequence).
	Ingress string `json:"ingress"`
	// Early places a DA item one DA height before the genuine blobs of its target; otherwise at the same
	// height, in front of them.
	Early bool `json:"early,omitempty"`
	// Copies > 1: a DA item is published that many times (a third party flooding the chain's namespace at
	// one DA height: the genuine blobs of that height are far down the listing).
	Copies int `json:"copies,omitempty"`
	// KeyType: the type of the adversary's own key: "" ed25519 (as the chain's) | secp256k1 | ecdsa | rsa
	KeyType string `json:"key_type,omitempty"`
}

type Scenario struct {
	InitialHeight uint64    `json:"initial_height"`
	Chain         []pw.Step `json:"chain"`
	Advs          []Adv     `json:"advs"`
	// P2POnly > 0: the last P2POnly blocks of the chain are NOT on the DA layer; the node gets them over
	// P2P only (so nothing genuine on the DA layer can justify marking them DA-included)
	P2POnly int `json:"p2p_only,omitempty"`
	// KeyLabel selects the proposer key of this scenario (a proposer address the process has not seen).
	KeyLabel string `json:"key_label,omitempty"`
	// Poison: before anything genuine exists, the process decodes a third party's header and signed data
	// that name the proposer's address with the adversary's key (a node whose first contact with that
	// address is adversarial material). Decoding must not leave anything behind.
	Poison bool `json:"poison,omitempty"`
	// ViaClient: the full node reads the DA layer through its real DA client (da/jsonrpc.API), whose own batch
	// limit is the size of the largest genuine blob (what the proposer could submit through the same client).
	ViaClient bool `json:"via_client,omitempty"`
}

var kinds = []string{"oversize-junk", "f8-data-meta-rewrite", "f8-data-meta-rewrite", "f7-header-copy", "f7-header-copy", "f6-replayed-txs", "f6-replayed-txs", "f1-header", "f1-data", "f1-pair", "f1-pair", "f2-header", "f2-data", "f3-unsigned", "f3-garbage-sig", "f4-chainid", "f4-past", "f4-future", "f5-header-bytes", "f5-data-bytes", "foreign-address"}

func gen(t *rapid.T) Scenario {
	sc := Scenario{InitialHeight: c02gen.GenInitial(t)}
	sc.Chain = c02gen.GenChain(t, world.Scale(6, 12))
	if rapid.IntRange(0, 2).Draw(t, "freshkey") == 0 {
		sc.KeyLabel = "proposer-" + rapid.StringMatching(`[a-z]{5}`).Draw(t, "keylabel")
		sc.Poison = rapid.Bool().Draw(t, "poison")
	}
	if rapid.IntRange(0, 2).Draw(t, "p2ponly") == 0 {
		sc.P2POnly = rapid.IntRange(1, len(sc.Chain)).Draw(t, "p2ponlyn")
	}
	sc.ViaClient = rapid.IntRange(0, 2).Draw(t, "viaclient") == 0
	n := rapid.IntRange(1, 4).Draw(t, "nadv")
	for i := 0; i < n; i++ {
		a := Adv{Kind: rapid.SampledFrom(kinds).Draw(t, "kind"), Target: rapid.IntRange(1, len(sc.Chain)).Draw(t, "target"),
			Mut: rapid.IntRange(0, 400).Draw(t, "mut"), Ingress: rapid.SampledFrom([]string{"da", "da", "p2p"}).Draw(t, "ingress"), Early: rapid.Bool().Draw(t, "early")}
		if rapid.IntRange(0, 3).Draw(t, "foreignkeytype") == 0 {
			a.KeyType = rapid.SampledFrom([]string{"secp256k1", "secp256k1", "ecdsa", "rsa"}).Draw(t, "keytype")
		}
		if rapid.IntRange(0, 5).Draw(t, "flood") == 0 {
			a.Copies = rapid.SampledFrom([]int{3, 101, 120, 199, 250}).Draw(t, "copies")
		}
		if sc.P2POnly > 0 {
			a.Ingress = "da"
		}
		sc.Advs = append(sc.Advs, a)
	}
	return sc
}

type item struct {
	adv        Adv
	headerBlob []byte
	dataBlob   []byte
	hdr        *types.SignedHeader
	sd         *types.SignedData
	// genuine reports that the item is byte-for-byte / hash-for-hash a genuine one (no-op mutation)
	genuineHdr, genuineData bool
	// replayed: the item's transaction list (hence its commitment) is that of a genuine block, its
	// metadata and signature are the adversary's
	replayed bool
}

var evilTx = []byte("evil=1")

func sign(priv crypto.PrivKey, b []byte) []byte {
	s, err := priv.Sign(b)
	if err != nil {
		panic(err)
	}
	return s
}

func marshalHeader(h *types.SignedHeader) []byte {
	p, err := h.ToProto()
	if err != nil {
		return nil
	}
	b, _ := proto.Marshal(p)
	return b
}

// build constructs the adversarial item; the adversary knows the genesis, sees all genuine traffic
// and owns a fresh key, but never the proposer's private key.
var advKeys sync.Map

// advKey is the adversary's own key pair of the given type (generated once per process from a fixed stream).
func advKey(kind string) (crypto.PrivKey, crypto.PubKey) {
	if kind == "" {
		return world.KeyFromSeed("adversary")
	}
	if v, ok := advKeys.Load(kind); ok {
		kp := v.([2]any)
		return kp[0].(crypto.PrivKey), kp[1].(crypto.PubKey)
	}
	typ, bits := crypto.Secp256k1, 0
	switch kind {
	case "ecdsa":
		typ = crypto.ECDSA
	case "rsa":
		typ, bits = crypto.RSA, 2048
	}
	priv, pub, err := crypto.GenerateKeyPairWithReader(typ, bits, mrand.New(mrand.NewSource(int64(len(kind))*7919)))
	if err != nil {
		panic(err)
	}
	advKeys.Store(kind, [2]any{priv, pub})
	return priv, pub
}

func build(a Adv, c *fw.Chain) item {
	advPriv, advPub := advKey(a.KeyType)
	it := item{adv: a}
	top := len(c.Blocks)
	tgt := a.Target
	if tgt > top {
		tgt = top
	}
	proposer := c.P.N.Genesis.ProposerAddress
	// template header: the genuine header at the target height, or a synthesized successor of the top
	var base *types.SignedHeader
	var baseData *types.SignedData
	if tgt < top {
		base, _ = fw.DecodeHeader(c.Blocks[tgt].HeaderBlob)
		if c.Blocks[tgt].DataBlob != nil {
			baseData, _ = fw.DecodeData(c.Blocks[tgt].DataBlob)
		}
	} else {
		prev, _ := fw.DecodeHeader(c.Blocks[top-1].HeaderBlob)
		cp := *prev
		base = &cp
		base.BaseHeader.Height = prev.Height() + 1
		base.BaseHeader.Time = prev.BaseHeader.Time + 1_000_000
		base.LastHeaderHash = prev.Hash()
		base.AppHash = c.Blocks[top-1].RootAfter
	}
	evilData := func(h *types.SignedHeader) *types.SignedData {
		d := types.Data{Metadata: &types.Metadata{ChainID: h.ChainID(), Height: h.Height(), Time: h.BaseHeader.Time}, Txs: types.Txs{types.Tx(evilTx), types.Tx(fmt.Sprintf("n=%d", a.Mut))}}
		bz, _ := d.MarshalBinary()
		return &types.SignedData{Data: d, Signature: sign(advPriv, bz), Signer: types.Signer{PubKey: advPub, Address: proposer}}
	}
	forgeHeader := func(mod func(h *types.SignedHeader)) *types.SignedHeader {
		h := *base
		h.Signer = types.Signer{PubKey: advPub, Address: proposer}
		h.ProposerAddress = proposer
		if mod != nil {
			mod(&h)
		}
		payload, _ := h.Header.MarshalBinary()
		h.Signature = sign(advPriv, payload)
		return &h
	}
	switch a.Kind {
	case "f1-header":
		it.hdr = forgeHeader(func(h *types.SignedHeader) { h.DataHash = evilData(h).Data.DACommitment() })
	case "f1-data":
		it.sd = evilData(base)
	case "f1-pair":
		it.sd = evilData(base)
		it.hdr = forgeHeader(func(h *types.SignedHeader) { h.DataHash = it.sd.Data.DACommitment() })
	case "f6-replayed-txs":
		var src *fw.ChainBlock
		for i := range c.Blocks {
			if i < tgt && !c.Blocks[i].Empty {
				src = &c.Blocks[i]
			}
		}
		if src == nil {
			it.sd = evilData(base)
		} else {
			d := types.Data{Metadata: &types.Metadata{ChainID: base.ChainID(), Height: base.Height(), Time: base.BaseHeader.Time, LastDataHash: sha256Sum([]byte("forged"))}}
			for _, tx := range src.Txs {
				d.Txs = append(d.Txs, tx)
			}
			bz, _ := d.MarshalBinary()
			signer := types.Signer{PubKey: advPub, Address: proposer}
			if a.Mut%2 == 1 {
				signer.Address = types.KeyAddress(advPub)
			}
			it.sd = &types.SignedData{Data: d, Signature: sign(advPriv, bz), Signer: signer}
			it.replayed = true
		}
	case "f8-data-meta-rewrite":
		// a genuine signed-data blob whose METADATA (height, time, chain id, previous data hash) was rewritten
		// by a third party, transactions, signature and signer untouched: whatever the proposer's signature
		// covers, it must cover the metadata too
		var src *types.SignedData
		for i := range c.Blocks {
			if c.Blocks[i].DataBlob != nil && (src == nil || i <= tgt) {
				if d, err := fw.DecodeData(c.Blocks[i].DataBlob); err == nil {
					src = d
				}
			}
		}
		if src == nil || src.Metadata == nil {
			it.sd = evilData(base)
		} else {
			md := *src.Metadata
			switch a.Mut % 5 {
			case 0:
				md.LastDataHash = sha256Sum([]byte("chosen-by-the-third-party"))
			case 1:
				md.Height++
			case 2:
				md.Height = base.Height()
				md.Time = base.BaseHeader.Time
			case 3:
				md.Time++
			default:
				md.ChainID = md.ChainID + "-x"
			}
			it.sd = &types.SignedData{Data: types.Data{Metadata: &md, Txs: src.Txs}, Signature: src.Signature, Signer: src.Signer}
			it.replayed = true
		}
	case "f7-header-copy":
		// a field-for-field copy of a genuine header (same header hash: the hash covers neither the
		// signature nor the signer) that the proposer did not sign
		h := *base
		switch a.Mut % 3 {
		case 0:
			h.Signature = nil
		case 1:
			g := sha256Sum([]byte(fmt.Sprint("copy-garbage", a.Mut)))
			h.Signature = append(g, g...)
		default:
			h.Signer = types.Signer{PubKey: advPub, Address: proposer}
			payload, _ := h.Header.MarshalBinary()
			h.Signature = sign(advPriv, payload)
		}
		it.hdr = &h
	case "f2-header":
		it.hdr = forgeHeader(func(h *types.SignedHeader) {
			switch a.Mut % 4 {
			case 0:
				h.BaseHeader.Time++
			case 1:
				h.AppHash = append([]byte{h.AppHash[0] ^ 1}, h.AppHash[1:]...)
			case 2:
				h.ValidatorHash = sha256Sum([]byte("v"))
			case 3:
				// unchanged content, only re-signed with the adversary's key
			}
		})
	case "f2-data":
		if baseData == nil {
			it.sd = evilData(base)
		} else {
			d := baseData.Data
			if a.Mut%2 == 0 {
				d.Txs = append(types.Txs{types.Tx(evilTx)}, d.Txs...)
			}
			bz, _ := d.MarshalBinary()
			it.sd = &types.SignedData{Data: d, Signature: sign(advPriv, bz), Signer: types.Signer{PubKey: advPub, Address: proposer}}
		}
	case "f3-unsigned", "f3-garbage-sig":
		h := *base
		h.DataHash = evilData(base).Data.DACommitment()
		if a.Mut%2 == 0 {
			// keeps the genuine signer (the adversary knows the proposer's PUBLIC key)
		} else {
			h.Signer = types.Signer{PubKey: advPub, Address: proposer}
		}
		if a.Kind == "f3-unsigned" {
			h.Signature = nil
		} else {
			g := sha256Sum([]byte(fmt.Sprint("garbage", a.Mut)))
			h.Signature = append(g, g...)
		}
		it.hdr = &h
	case "f4-chainid":
		it.hdr = forgeHeader(func(h *types.SignedHeader) { h.BaseHeader.ChainID = "other-chain" })
	case "f4-past":
		it.hdr = forgeHeader(func(h *types.SignedHeader) {
			if h.BaseHeader.Height > c.Opts.InitialHeight {
				h.BaseHeader.Height = c.Opts.InitialHeight
			}
			h.DataHash = evilData(h).Data.DACommitment()
		})
	case "f4-future":
		it.hdr = forgeHeader(func(h *types.SignedHeader) {
			h.BaseHeader.Height += 1000
			h.DataHash = evilData(h).Data.DACommitment()
		})
	case "foreign-address":
		// the suite's own negative: a different address altogether
		it.hdr = forgeHeader(func(h *types.SignedHeader) {
			h.ProposerAddress = types.KeyAddress(advPub)
			h.Signer.Address = types.KeyAddress(advPub)
		})
	case "oversize-junk":
		b := make([]byte, maxGenuineBlob(c)+1+a.Mut*7)
		x := uint32(a.Mut*7919 + 1)
		for k := range b {
			x = x*1664525 + 1013904223
			b[k] = byte(x >> 24)
		}
		it.headerBlob = b
	case "f5-header-bytes":
		b := append([]byte(nil), c.Blocks[minInt(tgt, top-1)].HeaderBlob...)
		mutate(b, a.Mut)
		it.headerBlob = b
	case "f5-data-bytes":
		src := c.Blocks[minInt(tgt, top-1)].DataBlob
		if src == nil {
			for _, bl := range c.Blocks {
				if bl.DataBlob != nil {
					src = bl.DataBlob
				}
			}
		}
		if src == nil {
			it.sd = evilData(base)
		} else {
			b := append([]byte(nil), src...)
			mutate(b, a.Mut)
			it.dataBlob = b
		}
	}
	if it.hdr != nil {
		it.headerBlob = marshalHeader(it.hdr)
	}
	if it.sd != nil {
		it.dataBlob, _ = it.sd.MarshalBinary()
	}
	// classify byte-mutated items by what they decode to
	if it.hdr == nil && it.headerBlob != nil {
		if h, err := fw.DecodeHeader(it.headerBlob); err == nil {
			it.hdr = h
		}
	}
	if it.sd == nil && it.dataBlob != nil {
		if d, err := fw.DecodeData(it.dataBlob); err == nil {
			it.sd = d
		}
	}
	for _, b := range c.Blocks {
		if it.hdr != nil && bytes.Equal(safeHash(it.hdr), b.HeaderHash) {
			gh, _ := fw.DecodeHeader(b.HeaderBlob)
			if bytes.Equal(it.hdr.Signature, gh.Signature) {
				it.genuineHdr = true
			}
		}
		if it.sd != nil && !b.Empty && bytes.Equal(safeCommit(it.sd), commitOf(b.Txs)) {
			it.genuineData = true
		}
	}
	return it
}

func safeHash(h *types.SignedHeader) (out []byte) {
	defer func() { _ = recover() }()
	return h.Hash()
}

func safeCommit(d *types.SignedData) (out []byte) {
	defer func() { _ = recover() }()
	return d.Data.DACommitment()
}

func commitOf(txs [][]byte) []byte {
	d := types.Data{}
	for _, tx := range txs {
		d.Txs = append(d.Txs, tx)
	}
	return d.DACommitment()
}

func sha256Sum(b []byte) []byte { s := sha256.Sum256(b); return s[:] }

// maxGenuineBlob is the size of the largest blob the proposer published.
func maxGenuineBlob(c *fw.Chain) int {
	m := 0
	for _, b := range c.Blocks {
		m = maxInt(m, maxInt(len(b.HeaderBlob), len(b.DataBlob)))
	}
	return m
}

func maxInt(a, b int) int {
	if a > b {
		return a
	}
	return b
}

func minInt(a, b int) int {
	if a < b {
		return a
	}
	return b
}

func mutate(b []byte, m int) {
	if len(b) == 0 {
		return
	}
	pos := m % len(b)
	switch (m / len(b)) % 3 {
	case 0:
		b[pos] ^= 1 << uint(m%8)
	case 1:
		b[pos] = 0xff
	default:
		b[pos]++
	}
}

// world runs a full node over the DA double with the genuine blobs (one DA height per block) and,
// optionally, the adversarial items; returns the node after quiescence.
func runWorld(c *fw.Chain, items []item, withAdv bool, root string, p2pOnly int, viaClient bool) (*fw.Full, *world.Verdict) {
	da := world.NewDADbl(0)
	if viaClient {
		cc := *c
		cc.Opts.ViaDAClient = true
		cc.Opts.DAClientLimit = uint64(maxGenuineBlob(c))
		c = &cc
	}
	f, err := fw.NewFull(c, root, da)
	if err != nil {
		v := world.Fail("C03/start", "full node does not start: %v", err)
		return nil, &v
	}
	f.Raw.SetNoPanic(true)
	// DA placement: block at offset i lives at DA height 2+i; adversarial items go in front
	if withAdv {
		for _, it := range items {
			if it.adv.Ingress != "da" {
				continue
			}
			h := uint64(2 + minInt(it.adv.Target, len(c.Blocks)))
			if it.adv.Early {
				h--
			}
			for k := 0; k < maxInt(1, it.adv.Copies); k++ {
				if it.headerBlob != nil {
					da.Inject(h, it.headerBlob)
				}
				if it.dataBlob != nil {
					da.Inject(h, it.dataBlob)
				}
			}
		}
	}
	for i, b := range c.Blocks {
		if p2pOnly > 0 && i >= len(c.Blocks)-p2pOnly {
			continue // not on the DA layer
		}
		da.Place(uint64(2+i), b.HeaderBlob)
		if b.DataBlob != nil {
			da.Place(uint64(2+i), b.DataBlob)
		}
	}
	da.SetHead(uint64(2 + len(c.Blocks) + 1))
	if p2pOnly > 0 {
		// the whole genuine chain is available over P2P (header and data stores)
		for i, b := range c.Blocks {
			gh, _ := fw.DecodeHeader(b.HeaderBlob)
			_ = f.N.HStore.Append(context.Background(), gh)
			if dps := c.P.N.DB.Payloads(); i < len(dps) {
				bz, _ := dps[i].MarshalBinary()
				cp := new(types.Data)
				_ = cp.UnmarshalBinary(bz)
				_ = f.N.DStore.Append(context.Background(), cp)
			}
		}
	}
	// P2P: header items that pass the P2P library's admission sequence enter the header store double,
	// in front of the genuine header of that height (which then cannot enter: the slot is taken)
	if withAdv {
		for _, it := range items {
			if it.adv.Ingress != "p2p" || it.headerBlob == nil {
				continue
			}
			h := new(types.SignedHeader)
			if err := h.UnmarshalBinary(it.headerBlob); err != nil {
				continue
			}
			if admitP2P(c, h) == nil && !f.N.HStore.HasAt(context.Background(), h.Height()) {
				f.N.HStore.PutAt(h.Height(), h)
			}
		}
	}
	f.Start("sync", "retrieve", "hstore", "dstore", "includer")
	// the P2P header store grows to the adversarial height (the loop reads what is there)
	maxH := uint64(0)
	for h := c.Opts.InitialHeight; h <= c.Top()+1; h++ {
		if f.N.HStore.HasAt(context.Background(), h) {
			maxH = h
		}
	}
	if maxH > 0 {
		// make the store contiguous with genuine headers below the adversarial ones
		for h := c.Opts.InitialHeight; h < maxH; h++ {
			if !f.N.HStore.HasAt(context.Background(), h) {
				gh, _ := fw.DecodeHeader(c.At(h).HeaderBlob)
				f.N.HStore.PutAt(h, gh)
			}
		}
		f.N.HStore.SetHeight(maxH)
	}
	f.Tick(len(c.Blocks) + 6)
	// the inclusion check runs when it is signalled; signal it once more at quiescence in both worlds so
	// that the comparison does not depend on how many blobs happened to trigger it
	select {
	case f.N.M.VerifDAIncluderCh() <- struct{}{}:
	default:
	}
	f.Tick(1)
	return f, nil
}

// admitP2P reproduces what go-header does to a gossiped header before it reaches a store:
// UnmarshalBinary (done by the caller), Validate() through the header.Header interface (so method
// promotion is exactly as in the library), then Verify against the trusted head below it.
func admitP2P(c *fw.Chain, h *types.SignedHeader) (err error) {
	defer func() {
		if r := recover(); r != nil {
			err = fmt.Errorf("panic: %v", r)
		}
	}()
	var ih goheader.Header[*types.SignedHeader] = h
	if err := ih.Validate(); err != nil {
		return err
	}
	if h.Height() <= c.Opts.InitialHeight || h.Height() > c.Top()+1 {
		return fmt.Errorf("no adjacent trusted head")
	}
	head, _ := fw.DecodeHeader(c.At(h.Height() - 1).HeaderBlob)
	return goheader.Verify[*types.SignedHeader](head, h)
}

func run(sc Scenario, dir string) world.Verdict {
	return sw.InBubble(func() world.Verdict {
		root, _ := os.MkdirTemp(dir, "c03")
		defer os.RemoveAll(root)
		if sc.Poison {
			label := sc.KeyLabel
			if label == "" {
				label = "proposer"
			}
			_, propPub := world.KeyFromSeed(label)
			advPriv, advPub := world.KeyFromSeed("adversary")
			addr := types.KeyAddress(propPub)
			h := types.SignedHeader{Header: types.Header{BaseHeader: types.BaseHeader{Height: sc.InitialHeight, ChainID: "c03-chain", Time: 1}, ProposerAddress: addr, DataHash: sha256Sum([]byte("x")), AppHash: sha256Sum([]byte("y"))},
				Signer: types.Signer{PubKey: advPub, Address: addr}}
			payload, _ := h.Header.MarshalBinary()
			h.Signature = sign(advPriv, payload)
			if bz := marshalHeader(&h); bz != nil {
				_, _ = fw.DecodeHeader(bz)
				_ = new(types.SignedHeader).UnmarshalBinary(bz)
			}
			d := types.Data{Metadata: &types.Metadata{ChainID: "c03-chain", Height: sc.InitialHeight}, Txs: types.Txs{types.Tx(evilTx)}}
			dbz, _ := d.MarshalBinary()
			sd := types.SignedData{Data: d, Signature: sign(advPriv, dbz), Signer: types.Signer{PubKey: advPub, Address: addr}}
			if bz, err := sd.MarshalBinary(); err == nil {
				_, _ = fw.DecodeData(bz)
			}
		}
		c, err := fw.BuildChain(world.NodeOpts{ChainID: "c03-chain", InitialHeight: sc.InitialHeight, RootDir: root + "/p", KeyLabel: sc.KeyLabel,
			// go-header's Verify compares header times with the (virtual) clock, which starts at 2000-01-01
			GenesisTime: time.Date(1999, 6, 1, 0, 0, 0, 0, time.UTC)}, sc.Chain)
		if err != nil {
			if sc.Poison {
				return world.Fail("C03/decoding-adversarial-material-left-state-behind", "after the process decoded a third party's header/data naming the proposer's address with a foreign key, the proposer itself cannot build a valid chain any more: %v", err)
			}
			return world.Fail("C03/chain", "cannot build the proposer chain: %v", err)
		}
		items := make([]item, len(sc.Advs))
		couldApply := false
		labels := []string{}
		for i, a := range sc.Advs {
			items[i] = build(a, c)
			labels = append(labels, a.Kind+"/"+a.Ingress)
			if a.KeyType != "" {
				labels = append(labels, "adversary-key:"+a.KeyType)
			}
			if a.Copies > 100 && a.Ingress == "da" {
				labels = append(labels, "da-flood>100-blobs-at-one-height")
			}
			if sc.ViaClient {
				labels = append(labels, "through-the-real-da-client")
			}
			if items[i].hdr != nil || items[i].sd != nil {
				couldApply = true
			}
		}
		fa, v := runWorld(c, items, false, root+"/a", sc.P2POnly, sc.ViaClient)
		if v != nil {
			return *v
		}
		defer fa.Stop()
		fb, v := runWorld(c, items, true, root+"/b", sc.P2POnly, sc.ViaClient)
		if v != nil {
			return *v
		}
		defer fb.Stop()
		ctx := context.Background()
		// sanity of the twin: the world without adversary follows the whole chain
		if p := fa.CheckPrefix("world without adversary", true); p != nil {
			return world.Fail("C03/baseline/"+p.Sig, "%s", p.Msg)
		}
		ha, _ := fa.N.Store.Height(ctx)
		if ha != c.Top() {
			return world.Fail("C03/baseline/not-synced", "world without adversary stopped at %d of %d", ha, c.Top())
		}
		// --- safety (all ingress kinds)
		hb, _ := fb.N.Store.Height(ctx)
		for h := c.Opts.InitialHeight; h <= hb; h++ {
			hdr, data, err := fb.N.Store.GetBlockData(ctx, h)
			if err != nil {
				continue
			}
			for _, it := range items {
				if it.hdr != nil && !it.genuineHdr && bytes.Equal(hdr.Hash(), safeHash(it.hdr)) && !isGenuineHash(c, hdr.Hash()) {
					return world.Fail("C03/forged-header-applied/"+it.adv.Kind, "the node applied and stored a header at height %d that was not signed by the proposer (%s via %s)", h, it.adv.Kind, it.adv.Ingress)
				}
			}
			if pd := producerData(c, h); pd != nil && !bytes.Equal(pd.Hash(), data.Hash()) && len(data.Txs) > 0 {
				return world.Fail("C03/forged-data-stored", "the transaction data stored at height %d (hash %x) is not the data the proposer signed (hash %x)", h, data.Hash(), pd.Hash())
			}
			for _, tx := range data.Txs {
				if bytes.Equal(tx, evilTx) {
					return world.Fail("C03/forged-data-applied", "the node applied transaction data at height %d that was not signed by the proposer", h)
				}
			}
		}
		for _, call := range fb.Exec.CallsOf("exec") {
			for _, tx := range call.Txs {
				if bytes.Equal(tx, evilTx) {
					return world.Fail("C03/forged-data-executed", "the execution layer was asked to execute adversarial transactions at height %d", call.Height)
				}
			}
		}
		for _, it := range items {
			if it.hdr != nil && !it.genuineHdr && !isGenuineHash(c, safeHash(it.hdr)) && fb.N.M.HeaderCache().IsDAIncluded(it.hdr.Hash().String()) {
				return world.Fail("C03/forged-header-marked-da-included/"+it.adv.Kind, "a header not signed by the proposer (%s) was marked DA-included", it.adv.Kind)
			}
			if it.sd != nil && !it.genuineData && fb.N.M.DataCache().IsDAIncluded(it.sd.Data.DACommitment().String()) {
				return world.Fail("C03/forged-data-marked-da-included/"+it.adv.Kind, "transaction data not signed by the proposer (%s) was marked DA-included", it.adv.Kind)
			}
		}
		if p := fb.CheckPrefix("world with adversary", true); p != nil && p.Sig != "sync-stopped" {
			return world.Fail("C03/"+p.Sig, "%s", p.Msg)
		}
		// --- light (header-only) node: what the P2P library admits is served to light clients
		for _, it := range items {
			if it.headerBlob == nil {
				continue
			}
			h := new(types.SignedHeader)
			if err := h.UnmarshalBinary(it.headerBlob); err != nil {
				continue
			}
			if it.genuineHdr {
				continue
			}
			if err := admitP2P(c, h); err == nil {
				return world.Fail("C03/light-node-admits-forged-header/"+it.adv.Kind, "a header-only node admits a header at height %d that was not signed by the proposer (%s): the P2P library's Validate()+Verify() sequence accepts it", h.Height(), it.adv.Kind)
			}
		}
		// the genuine successor must be admitted (otherwise the light-node clause is vacuous)
		if len(c.Blocks) >= 2 {
			gh, _ := fw.DecodeHeader(c.Blocks[1].HeaderBlob)
			if err := admitP2P(c, gh); err != nil {
				return world.Fail("C03/light-node-rejects-genuine", "the admission sequence rejects the genuine header %d: %v", gh.Height(), err)
			}
		}
		// --- non-interference (adversarial material on the DA layer only)
		daOnly := true
		for _, a := range sc.Advs {
			if a.Ingress != "da" {
				daOnly = false
			}
		}
		if daOnly {
			if len(fb.Errors) > 0 {
				return world.Fail("C03/da-material-halts-node", "third-party material on the DA layer halted the full node: %s", fb.Errors[0])
			}
			if hb != ha {
				return world.Fail("C03/da-material-blocks-sync", "with third-party material on the DA layer the full node stops at height %d; without it it reaches %d", hb, ha)
			}
			if ia, ib := fa.N.M.GetDAIncludedHeight(), fb.N.M.GetDAIncludedHeight(); ia != ib {
				return world.Fail("C03/da-material-changes-da-included", "DA-included height %d with third-party material on the DA layer, %d without", ib, ia)
			}
		}
		return world.OK(couldApply, labels...)
	})
}

func isGenuineHash(c *fw.Chain, h []byte) bool {
	for _, b := range c.Blocks {
		if bytes.Equal(b.HeaderHash, h) {
			return true
		}
	}
	return false
}

func TestC03(t *testing.T) {
	dir := t.TempDir()
	world.Run(t, "C03", "forgeries", world.Scale(300, 2000), gen, func(sc Scenario) world.Verdict { return run(sc, dir) })
}

// producerData returns the data the proposer committed (and signed) at height h.
func producerData(c *fw.Chain, h uint64) *types.Data {
	_, d, err := c.P.N.Store.GetBlockData(context.Background(), h)
	if err != nil {
		return nil
	}
	return d
}
