package c03

import (
	"bytes"
	"context"
	"fmt"
	"os"
	"testing"
	"time"

	"pgregory.net/rapid"

	"github.com/evstack/ev-node/block"
	"github.com/evstack/ev-node/types"

	"verif/harness/c02gen"
	"verif/harness/fw"
	"verif/harness/pw"
	"verif/harness/sw"
	"verif/harness/world"
)

// Transaction data travels over P2P WITHOUT a signature: go-header admits a types.Data item if it is
// well-formed and names the hash of the data item below it (both public), and the node's
// DataStoreRetrieveLoop hands every item of the P2P data store to the sync loop unchecked. What binds
// such an item to the proposer is only the check of the data against the (signed) header when the
// block is applied. This check delivers forged data items between the genuine events, in any order.

// ForgedData is one data item a third party gossips.
type ForgedData struct {
	Off int `json:"off"` // target block (offset into the chain)
	// Kind: evil (own transactions) | other-block (the public transactions of another block) | append
	// (the genuine transactions plus one) | empty (no transactions, for a non-empty block)
	Kind  string `json:"kind"`
	Other int    `json:"other"`
}

// P2PDataScenario: genuine header/data events and forged data events in one delivery order.
type P2PDataScenario struct {
	InitialHeight uint64       `json:"initial_height"`
	Chain         []pw.Step    `json:"chain"`
	Forged        []ForgedData `json:"forged"`
	// Order: indices < len(genuine events) are genuine events (headers of all blocks, then data of the
	// non-empty ones, in chain order); the others are forged items
	Order []int `json:"order"`
}

type gev struct {
	off  int
	kind string
}

func genuineEvents(chain []pw.Step) []gev {
	evs := []gev{}
	for i := range chain {
		evs = append(evs, gev{i, "header"})
	}
	for i, st := range chain {
		if st.Seq.Kind == "txs" {
			evs = append(evs, gev{i, "data"})
		}
	}
	return evs
}

func genP2PData(t *rapid.T) P2PDataScenario {
	sc := P2PDataScenario{InitialHeight: rapid.SampledFrom([]uint64{1, 1, 3}).Draw(t, "initial")}
	sc.Chain = c02gen.GenChain(t, world.Scale(6, 12))
	n := len(sc.Chain)
	for k := rapid.IntRange(1, 3).Draw(t, "nforged"); k > 0; k-- {
		sc.Forged = append(sc.Forged, ForgedData{Off: rapid.IntRange(0, n-1).Draw(t, "off"),
			Kind: rapid.SampledFrom([]string{"evil", "evil", "other-block", "append", "empty"}).Draw(t, "kind"), Other: rapid.IntRange(0, n-1).Draw(t, "other")})
	}
	total := len(genuineEvents(sc.Chain)) + len(sc.Forged)
	idx := make([]int, total)
	for i := range idx {
		idx[i] = i
	}
	sc.Order = rapid.Permutation(idx).Draw(t, "order")
	return sc
}

func runP2PData(sc P2PDataScenario, dir string) world.Verdict {
	return sw.InBubble(func() world.Verdict {
		root, _ := os.MkdirTemp(dir, "c03d")
		defer os.RemoveAll(root)
		c, err := fw.BuildChain(world.NodeOpts{ChainID: "c03-chain", InitialHeight: sc.InitialHeight, RootDir: root + "/p",
			GenesisTime: time.Date(1999, 6, 1, 0, 0, 0, 0, time.UTC)}, sc.Chain)
		if err != nil {
			return world.Fail("C03/chain", "cannot build the proposer chain: %v", err)
		}
		f, err := fw.NewFull(c, root+"/f", nil)
		if err != nil {
			return world.Fail("C03/start", "full node does not start: %v", err)
		}
		f.Raw.SetNoPanic(true)
		f.Start("sync")
		defer func() { f.Stop() }()
		gen := genuineEvents(sc.Chain)
		genuineData := func(off int) *types.Data {
			if dps := c.P.N.DB.Payloads(); off < len(dps) {
				bz, _ := dps[off].MarshalBinary()
				d := new(types.Data)
				_ = d.UnmarshalBinary(bz)
				return d
			}
			return nil
		}
		forge := func(fd ForgedData) *types.Data {
			g := genuineData(fd.Off)
			if g == nil || g.Metadata == nil {
				return nil
			}
			d := &types.Data{Metadata: &types.Metadata{ChainID: g.Metadata.ChainID, Height: g.Metadata.Height, Time: g.Metadata.Time, LastDataHash: g.Metadata.LastDataHash}}
			switch fd.Kind {
			case "evil":
				d.Txs = types.Txs{types.Tx(evilTx), types.Tx(fmt.Sprintf("n=%d", fd.Other))}
			case "other-block":
				o := genuineData(fd.Other % len(sc.Chain))
				if o == nil || len(o.Txs) == 0 || fd.Other%len(sc.Chain) == fd.Off {
					d.Txs = types.Txs{types.Tx(evilTx)}
				} else {
					d.Txs = append(types.Txs(nil), o.Txs...)
				}
			case "append":
				d.Txs = append(append(types.Txs(nil), g.Txs...), types.Tx(evilTx))
			case "empty":
				if len(g.Txs) == 0 {
					d.Txs = types.Txs{types.Tx(evilTx)}
				}
			}
			// a forged item that happens to equal the genuine transactions is not forged
			if len(d.Txs) == len(g.Txs) {
				same := true
				for i := range d.Txs {
					same = same && bytes.Equal(d.Txs[i], g.Txs[i])
				}
				if same {
					return nil
				}
			}
			return d
		}
		nForged, windows := 0, 0
		for _, k := range sc.Order {
			if len(f.Errors) > 0 {
				break // the sync loop gave up (allowed for P2P-borne material); nothing more can happen
			}
			if k < len(gen) {
				e := gen[k]
				if e.kind == "header" {
					_ = f.PushHeader(c.Blocks[e.off].HeaderBlob, 0)
				} else if c.Blocks[e.off].DataBlob != nil {
					_ = f.PushData(c.Blocks[e.off].DataBlob, 0)
				}
			} else if d := forge(sc.Forged[k-len(gen)]); d != nil {
				h, _ := f.N.Store.Height(context.Background())
				if d.Metadata.Height > h {
					windows++
				}
				nForged++
				f.N.M.VerifDataInCh() <- block.NewDataEvent{Data: d, DAHeight: 0}
			}
			f.Quiesce()
		}
		// safety: whatever happened, nothing the third party made up may be applied, stored or executed
		ctx := context.Background()
		h, _ := f.N.Store.Height(ctx)
		if h > c.Top() {
			return world.Fail("C03/p2p-data/beyond-proposer", "full node height %d exceeds the proposer's chain %d", h, c.Top())
		}
		for i := c.Opts.InitialHeight; i <= h; i++ {
			_, d, err := f.N.Store.GetBlockData(ctx, i)
			if err != nil {
				return world.Fail("C03/p2p-data/missing-block", "block %d <= height %d unreadable: %v", i, h, err)
			}
			want := c.At(i).Txs
			got := make([][]byte, len(d.Txs))
			for j, tx := range d.Txs {
				got[j] = tx
			}
			if !world.EqTxs(got, want) {
				return world.Fail("C03/p2p-data/forged-data-stored", "block %d is stored with %d transactions %q that the proposer never signed (the proposer's block has %d): unsigned data gossiped by a third party was applied", i, len(got), clipTxs(got), len(want))
			}
		}
		for _, call := range f.Exec.CallsOf("exec") {
			cb := c.At(call.Height)
			if cb == nil || !world.EqTxs(call.Txs, cb.Txs) {
				return world.Fail("C03/p2p-data/forged-data-executed", "the execution layer was asked to execute block %d with transactions %q that the proposer never signed", call.Height, clipTxs(call.Txs))
			}
		}
		labels := []string{}
		if len(f.Errors) > 0 {
			labels = append(labels, "sync-loop-gave-up")
		}
		if windows > 0 {
			labels = append(labels, "forged-data-for-a-height-not-yet-applied")
		}
		return world.OK(nForged > 0 && windows > 0, labels...)
	})
}

func clipTxs(txs [][]byte) []string {
	out := []string{}
	for i, tx := range txs {
		if i > 3 {
			out = append(out, "...")
			break
		}
		if len(tx) > 16 {
			tx = tx[:16]
		}
		out = append(out, string(tx))
	}
	return out
}

// TestC03P2PData: forged unsigned data items delivered over P2P, in any order with the genuine events.
func TestC03P2PData(t *testing.T) {
	dir := t.TempDir()
	world.Run(t, "C03", "p2p-forged-data", world.Scale(150, 1000), genP2PData, func(sc P2PDataScenario) world.Verdict { return runP2PData(sc, dir) })
}
