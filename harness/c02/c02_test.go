// Package c02 decides C02: a full node converges to exactly the proposer's chain under any
// delivery order, duplication, ingress split and clean restarts.
package c02

import (
	"fmt"
	"os"
	"sort"
	"testing"

	"pgregory.net/rapid"

	"verif/harness/c02gen"
	"verif/harness/fw"
	"verif/harness/pw"
	"verif/harness/sw"
	"verif/harness/world"
)

type Event = c02gen.Event

type ScenarioA struct {
	InitialHeight uint64    `json:"initial_height"`
	Chain         []pw.Step `json:"chain"`
	Events        []Event   `json:"events"`
	// CustomPayload: the chain signs a non-default payload (ManagerOptions.SignaturePayloadProvider).
	CustomPayload bool `json:"custom_payload,omitempty"`
}

func genA(t *rapid.T) ScenarioA {
	sc := ScenarioA{InitialHeight: c02gen.GenInitial(t)}
	sc.Chain = c02gen.GenChain(t, world.Scale(8, 20))
	sc.CustomPayload = rapid.IntRange(0, 3).Draw(t, "custompayload") == 0
	evs := []Event{}
	for i, st := range sc.Chain {
		// the first block of the chain is the pre-saved genesis block: always empty
		nh := rapid.SampledFrom([]int{1, 1, 1, 1, 2, 3, 0}).Draw(t, "hcopies")
		for k := 0; k < nh; k++ {
			evs = append(evs, Event{Off: i, Kind: "header", DAHeight: uint64(rapid.IntRange(0, 30).Draw(t, "dah"))})
		}
		if i > 0 && st.Seq.Kind == "txs" {
			nd := rapid.SampledFrom([]int{1, 1, 1, 1, 2, 3, 0}).Draw(t, "dcopies")
			for k := 0; k < nd; k++ {
				evs = append(evs, Event{Off: i, Kind: "data", DAHeight: uint64(rapid.IntRange(0, 30).Draw(t, "dad"))})
			}
		}
	}
	nr := rapid.SampledFrom([]int{0, 0, 1, 2}).Draw(t, "nrestarts")
	for k := 0; k < nr; k++ {
		evs = append(evs, Event{Kind: "restart"})
	}
	if len(evs) > 1 {
		perm := rapid.Permutation(evs).Draw(t, "order")
		evs = perm
	}
	sc.Events = evs
	return sc
}

// chainSteps maps the generated chain to production steps: block 0 is the genesis block (consumes no batch).
func chainSteps(steps []pw.Step) []pw.Step {
	out := make([]pw.Step, len(steps))
	copy(out, steps)
	return out
}

func runA(sc ScenarioA, dir string) world.Verdict {
	return sw.InBubble(func() world.Verdict {
		root, _ := os.MkdirTemp(dir, "c02")
		defer os.RemoveAll(root)
		c, err := fw.BuildChain(world.NodeOpts{ChainID: "c02-chain", InitialHeight: sc.InitialHeight, RootDir: root + "/p", CustomPayload: sc.CustomPayload}, chainSteps(sc.Chain))
		if err != nil {
			return world.Fail("C02/chain", "cannot build the proposer chain: %v", err)
		}
		f, err := fw.NewFull(c, root+"/f", nil)
		if err != nil {
			return world.Fail("C02/start", "full node does not start: %v", err)
		}
		f.Start("sync")
		defer f.Stop()
		inversions, dups, restarts := 0, 0, 0
		seen := map[string]bool{}
		lastOff := -1
		for i, e := range sc.Events {
			switch e.Kind {
			case "restart":
				if err := f.Restart(true); err != nil {
					return world.Fail("C02/restart-fails", "clean restart at event %d: %v", i, err)
				}
				restarts++
				continue
			case "header":
				if err := f.PushHeader(c.Blocks[e.Off].HeaderBlob, e.DAHeight); err != nil {
					return world.Fail("C02/harness", "header blob does not decode: %v", err)
				}
			case "data":
				if c.Blocks[e.Off].DataBlob == nil {
					continue
				}
				if err := f.PushData(c.Blocks[e.Off].DataBlob, e.DAHeight); err != nil {
					return world.Fail("C02/harness", "data blob does not decode: %v", err)
				}
			}
			key := fmt.Sprintf("%s/%d", e.Kind, e.Off)
			if seen[key] {
				dups++
			}
			seen[key] = true
			if e.Off < lastOff {
				inversions++
			}
			lastOff = e.Off
			before := f.MaxHeight
			f.Quiesce()
			if p := f.Observe(); p != nil {
				return world.Fail("C02/"+p.Sig, "after event %d: %s", i, p.Msg)
			}
			_ = before
			if p := f.CheckPrefix(fmt.Sprintf("after event %d (%s of block +%d)", i, e.Kind, e.Off), true); p != nil {
				return world.Fail("C02/"+p.Sig, "%s", p.Msg)
			}
		}
		want := c02gen.HStar(sc.Events, c)
		got, _ := f.N.Store.Height(c.P.Ctx)
		if got != want && !(got == 0 && want == c.Opts.InitialHeight-1) {
			sig := "C02/not-converged"
			// classify: is the first missing block one whose transaction list equals an earlier block's?
			if got < want {
				nb := c.At(got + 1)
				for _, b := range c.Blocks {
					if b.Height < nb.Height && !b.Empty && !nb.Empty && world.EqTxs(b.Txs, nb.Txs) {
						sig = "C02/not-converged/same-txs-as-earlier-block"
					}
				}
			}
			return world.Fail(sig, "both parts of every block up to %d were delivered, the full node stopped at height %d", want, got)
		}
		kinds := map[bool]bool{}
		for _, b := range c.Blocks {
			kinds[b.Empty] = true
		}
		ls := []string{}
		if restarts > 0 {
			ls = append(ls, "restart")
		}
		if dups > 0 {
			ls = append(ls, "duplicates")
		}
		if sc.InitialHeight > 1 {
			ls = append(ls, "initial>1")
		}
		nt := len(c.Blocks) >= 3 && len(kinds) == 2 && inversions >= 1 && (dups > 0 || restarts > 0)
		return world.OK(nt, ls...)
	})
}

func TestC02ExactOrder(t *testing.T) {
	dir := t.TempDir()
	world.Run(t, "C02", "exact-order", world.Scale(300, 2000), genA, func(sc ScenarioA) world.Verdict { return runA(sc, dir) })
}

var _ = sort.Ints

func TestC02RealIngress(t *testing.T) {
	dir := t.TempDir()
	world.Run(t, "C02", "real-ingress", world.Scale(80, 400), func(t *rapid.T) c02gen.ScenarioB {
		sc := c02gen.GenB(t, world.Scale(8, 20), false)
		if rapid.IntRange(0, 2).Draw(t, "readfaults") == 0 {
			// transient read faults of the DA layer (incl. expired deadlines) on heights that hold blobs of the chain
			maxDA := uint64(1)
			for _, pl := range sc.Placements {
				if pl.DAHeight > maxDA {
					maxDA = pl.DAHeight
				}
			}
			sc.FetchFaults = c02gen.GenFetchFaults(t, maxDA)
		}
		return sc
	},
		func(sc c02gen.ScenarioB) world.Verdict {
			return c02gen.RunB(sc, dir, "C02",
				func(r *c02gen.BRun, when string) *world.Problem { return r.F.CheckPrefix(when, true) },
				func(r *c02gen.BRun) *world.Problem {
					if p := r.F.CheckPrefix("at the end", true); p != nil {
						return p
					}
					got, _ := r.F.N.Store.Height(r.C.P.Ctx)
					if got != r.HStar && !(got == 0 && r.HStar == r.C.Opts.InitialHeight-1) {
						return &world.Problem{Sig: "not-converged", Msg: fmt.Sprintf("both parts of every block up to %d were delivered through the DA layer / P2P stores, the full node stopped at height %d", r.HStar, got)}
					}
					return nil
				})
		})
}
