package c02

import (
	"testing"

	"verif/harness/rw"
	"verif/harness/world"
)

// TestC02RealNodes: a REAL aggregator node and a REAL full node (node.NewNode(...).Run: libp2p on
// loopback, go-header sync services, reaper, single sequencer, submission and retrieval loops as
// FullNode.Run wires them) over the DA double. The full node must end with exactly the aggregator's
// chain up to the height the aggregator had when the comparison started; a full node that makes no
// progress for a minute although the chain is available to it is a stall.
func TestC02RealNodes(t *testing.T) {
	dir := t.TempDir()
	world.Run(t, "C02", "real-nodes", world.Scale(6, 20), rw.Gen, func(sc rw.Scenario) world.Verdict {
		r := rw.Run(sc, dir)
		return r.Judge("C02", r.CompareChains)
	})
}
