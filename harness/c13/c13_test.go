// Package c13 decides C13: with all background loops of an aggregator and of a full node running
// concurrently (unmodified, wired as FullNode.Run wires them) there is no data race (the package
// is built with -race), the invariants of C01/C02/C06/C07 hold, and every loop returns promptly
// when the node is stopped — at any instant, in any configuration.
package c13

import (
	"bytes"
	"context"
	"fmt"
	"os"
	"sync"
	"testing"
	"testing/synctest"
	"time"

	"pgregory.net/rapid"

	"github.com/evstack/ev-node/block"
	"github.com/evstack/ev-node/sequencers/single"
	"github.com/evstack/ev-node/types"

	"verif/harness/fw"
	"verif/harness/pw"
	"verif/harness/sw"
	"verif/harness/world"
)

type Arrival struct {
	AtMs int      `json:"at_ms"`
	Txs  [][]byte `json:"txs"`
}

type Scenario struct {
	BlockMs int  `json:"block_ms"`
	DAMs    int  `json:"da_ms"`
	Lazy    bool `json:"lazy,omitempty"`
	LazyMs  int  `json:"lazy_ms,omitempty"`
	// GenesisOffsetS: genesis time relative to the moment the node starts (negative: in the past).
	GenesisOffsetS int `json:"genesis_offset_s"`
	AggExecMs      int `json:"agg_exec_ms,omitempty"`
	// MempoolStallMs: the execution client takes this long to answer GetTxs (it gives up when its
	// caller's context ends).
	MempoolStallMs int `json:"mempool_stall_ms,omitempty"`
	FullExecMs     int `json:"full_exec_ms,omitempty"`
	// DA faults consumed by the first submissions.
	HeaderScript []world.SubmitResp `json:"header_script,omitempty"`
	DataScript   []world.SubmitResp `json:"data_script,omitempty"`
	Arrivals     []Arrival          `json:"arrivals,omitempty"`
	RunMs        int                `json:"run_ms"`
	// Backlog > 0: that many copies of a genuine header blob sit on the DA layer (a backlog that
	// can fill the sync event channel while sync is busy).
	Backlog int `json:"backlog,omitempty"`
	// Mode: both | aggregator | full
	Mode string `json:"mode"`
	// FullStartMs delays the start of the full node's loops (a node that joins an existing chain).
	FullStartMs int `json:"full_start_ms,omitempty"`
	// MempoolTTL (DA blocks a submission is given to be included; 0 = 2): after a "not included" / "already
	// in mempool" answer the submission loop pauses for DA block time x MempoolTTL (25 is the default config).
	MempoolTTL int `json:"mempool_ttl,omitempty"`
	// QueueWriteFaultMs > 0: at this moment one durable write of the sequencing layer's batch queue fails
	// with a transient I/O error (full disk for an instant).
	QueueWriteFaultMs int `json:"queue_write_fault_ms,omitempty"`
}

func gen(t *rapid.T) Scenario {
	sc := Scenario{
		BlockMs: rapid.SampledFrom([]int{10, 50, 100, 500}).Draw(t, "block"),
		DAMs:    rapid.SampledFrom([]int{20, 100, 300, 1000}).Draw(t, "da"),
		Lazy:    rapid.IntRange(0, 3).Draw(t, "lazy") == 0,
		Mode:    rapid.SampledFrom([]string{"both", "both", "both", "aggregator", "full"}).Draw(t, "mode"),
	}
	sc.LazyMs = sc.BlockMs * rapid.IntRange(2, 10).Draw(t, "lazyratio")
	switch rapid.IntRange(0, 5).Draw(t, "genesis") {
	case 0:
		sc.GenesisOffsetS = rapid.SampledFrom([]int{1, 7, 20, 3600}).Draw(t, "future")
	default:
		sc.GenesisOffsetS = -rapid.SampledFrom([]int{1, 60, 86400}).Draw(t, "past")
	}
	if rapid.IntRange(0, 4).Draw(t, "slowexec") == 0 {
		sc.AggExecMs = rapid.SampledFrom([]int{5, 200, 2000}).Draw(t, "aggexec")
	}
	if rapid.IntRange(0, 2).Draw(t, "stall") == 0 {
		sc.MempoolStallMs = rapid.SampledFrom([]int{50, 3000, 3_600_000}).Draw(t, "stallms")
	}
	if rapid.IntRange(0, 4).Draw(t, "slowsync") == 0 {
		sc.FullExecMs = rapid.SampledFrom([]int{5, 200, 3_600_000}).Draw(t, "fullexec")
	}
	nf := rapid.SampledFrom([]int{0, 0, 1, 3}).Draw(t, "nfaults")
	for i := 0; i < nf; i++ {
		r := sw.GenResp(t)
		if rapid.Bool().Draw(t, "faultkind") {
			sc.HeaderScript = append(sc.HeaderScript, r)
		} else {
			sc.DataScript = append(sc.DataScript, r)
		}
	}
	if rapid.IntRange(0, 2).Draw(t, "ttl") == 0 {
		sc.MempoolTTL = 25
		// make sure a long retry pause happens: a submission is answered "not included" / "already in mempool"
		r := world.SubmitResp{Kind: rapid.SampledFrom([]string{"timeout", "mempool"}).Draw(t, "pausekind")}
		if rapid.Bool().Draw(t, "pausewhich") {
			sc.HeaderScript = append([]world.SubmitResp{r}, sc.HeaderScript...)
		} else {
			sc.DataScript = append([]world.SubmitResp{r}, sc.DataScript...)
		}
	}
	if rapid.IntRange(0, 5).Draw(t, "queuefault") == 0 {
		sc.QueueWriteFaultMs = 1 + rapid.IntRange(0, 20).Draw(t, "queuefaultat")*sc.BlockMs
	}
	if rapid.IntRange(0, 9).Draw(t, "hang") == 0 {
		sc.HeaderScript = append(sc.HeaderScript, world.SubmitResp{Kind: "hang"})
	}
	sc.RunMs = rapid.IntRange(1, 40).Draw(t, "runblocks")*sc.BlockMs + rapid.IntRange(0, sc.BlockMs).Draw(t, "runfrac")
	na := rapid.IntRange(0, 6).Draw(t, "narrivals")
	for i := 0; i < na; i++ {
		sc.Arrivals = append(sc.Arrivals, Arrival{AtMs: rapid.IntRange(0, sc.RunMs).Draw(t, "at"), Txs: sw.GenTxs(t)})
	}
	if rapid.IntRange(0, 2).Draw(t, "stream") == 0 {
		// a continuous flow of transactions (every reaping interval finds new ones), often with block
		// production slower than the reaping interval
		every := rapid.SampledFrom([]int{sc.BlockMs / 2, sc.BlockMs, sc.BlockMs}).Draw(t, "every")
		if every < 1 {
			every = 1
		}
		from := rapid.IntRange(0, sc.RunMs/2).Draw(t, "streamfrom")
		for i, n := 0, rapid.IntRange(5, 30).Draw(t, "streamlen"); i < n && from+i*every < sc.RunMs; i++ {
			sc.Arrivals = append(sc.Arrivals, Arrival{AtMs: from + i*every, Txs: [][]byte{[]byte(fmt.Sprintf("stream-%d-%d", from, i))}})
		}
		if rapid.Bool().Draw(t, "streamslow") {
			sc.AggExecMs = rapid.SampledFrom([]int{sc.BlockMs + sc.BlockMs/2, 3 * sc.BlockMs}).Draw(t, "streamexec")
		}
	}
	if sc.Mode == "both" && rapid.IntRange(0, 3).Draw(t, "latejoin") == 0 {
		sc.FullStartMs = rapid.IntRange(1, 10).Draw(t, "joinafter") * sc.BlockMs
	}
	if sc.Mode == "both" && rapid.IntRange(0, 9).Draw(t, "backlog") == 0 {
		// a node that joins late finds a long backlog on the DA layer and executes slowly
		sc.Backlog = block.VerifEventInChLength + rapid.IntRange(1, 50).Draw(t, "over")
		sc.FullStartMs = rapid.IntRange(3, 10).Draw(t, "joinafter2")*sc.BlockMs + 2*sc.DAMs
		sc.FullExecMs = rapid.SampledFrom([]int{60_000, 3_600_000}).Draw(t, "slowsync2")
		if sc.RunMs < sc.FullStartMs+20*sc.DAMs {
			sc.RunMs = sc.FullStartMs + 20*sc.DAMs + rapid.IntRange(0, sc.DAMs).Draw(t, "runfrac2")
		}
	}
	return sc
}

type loopRec struct {
	name     string
	returned bool
	at       time.Time
}

const stopBound = 5 * time.Second // the grace period pkg/cmd/run_node.go itself grants

func run(sc Scenario, dir string) world.Verdict {
	return sw.InBubble(func() world.Verdict {
		root, _ := os.MkdirTemp(dir, "c13")
		defer os.RemoveAll(root)
		t0 := time.Now()
		gt := t0.Add(time.Duration(sc.GenesisOffsetS) * time.Second)
		o := world.NodeOpts{ChainID: "c13-chain", InitialHeight: 1, RootDir: root + "/a", GenesisTime: gt, Lazy: sc.Lazy,
			BlockTime: time.Duration(sc.BlockMs) * time.Millisecond, DABlockTime: time.Duration(sc.DAMs) * time.Millisecond,
			LazyInterval: time.Duration(sc.LazyMs) * time.Millisecond, MempoolTTL: 2}
		if sc.MempoolTTL > 0 {
			o.MempoolTTL = uint64(sc.MempoolTTL)
		}
		p, err := pw.New(o)
		if err != nil {
			return world.Fail("C13/start", "aggregator does not start: %v", err)
		}
		p.DA.KindOf = sw.KindOf
		seq, err := single.NewSequencerWithQueueSize(p.Ctx, world.Logger(), p.Raw, p.DA, []byte(p.Opts.ChainID), o.BlockTime, seqMetrics(), true, 1000)
		if err != nil {
			return world.Fail("C13/start", "sequencer does not start: %v", err)
		}
		p.SeqOverride = seq
		if err := p.RestartOn(p.Raw); err != nil {
			return world.Fail("C13/start", "aggregator does not start: %v", err)
		}
		p.Exec.Latency = time.Duration(sc.AggExecMs) * time.Millisecond
		p.Exec.GetTxsLatency = time.Duration(sc.MempoolStallMs) * time.Millisecond
		p.DA.PushScript("header", sc.HeaderScript...)
		p.DA.PushScript("data", sc.DataScript...)
		reaper := block.NewReaper(p.Ctx, p.Exec, seq, p.Opts.ChainID, o.BlockTime, world.Logger(), p.N.KV)
		reaper.SetManager(p.N.M)

		c := &fw.Chain{Opts: p.Opts, P: p}
		f, err := fw.NewFull(c, root+"/f", p.DA)
		if err != nil {
			return world.Fail("C13/start", "full node does not start: %v", err)
		}
		f.Exec.Latency = time.Duration(sc.FullExecMs) * time.Millisecond
		// P2P: what the aggregator broadcasts appears in the full node's header/data stores
		p.N.HB.OnPayload = func(h *types.SignedHeader) { _ = f.N.HStore.Append(context.Background(), h) }
		p.N.DB.OnPayload = func(d *types.Data) { _ = f.N.DStore.Append(context.Background(), d) }

		ctx, cancel := context.WithCancel(context.Background())
		errCh := make(chan error, 16)
		var mu sync.Mutex
		recs := []*loopRec{}
		var wg sync.WaitGroup
		spawn := func(name string, fn func()) {
			r := &loopRec{name: name}
			mu.Lock()
			recs = append(recs, r)
			mu.Unlock()
			wg.Add(1)
			go func() {
				defer wg.Done()
				fn()
				mu.Lock()
				r.returned, r.at = true, time.Now()
				mu.Unlock()
			}()
		}
		am, fm := p.N.M, f.N.M
		if sc.Mode != "full" {
			spawn("AggregationLoop", func() { am.AggregationLoop(ctx, errCh) })
			spawn("Reaper", func() { reaper.Start(ctx) })
			spawn("HeaderSubmissionLoop", func() { am.HeaderSubmissionLoop(ctx) })
			spawn("DataSubmissionLoop", func() { am.DataSubmissionLoop(ctx) })
			spawn("DAIncluderLoop(aggregator)", func() { am.DAIncluderLoop(ctx, errCh) })
		}
		startFull := func() {
			spawn("RetrieveLoop", func() { fm.RetrieveLoop(ctx) })
			spawn("HeaderStoreRetrieveLoop", func() { fm.HeaderStoreRetrieveLoop(ctx) })
			spawn("DataStoreRetrieveLoop", func() { fm.DataStoreRetrieveLoop(ctx) })
			spawn("SyncLoop", func() { fm.SyncLoop(ctx, errCh) })
			spawn("DAIncluderLoop(full)", func() { fm.DAIncluderLoop(ctx, errCh) })
		}
		fullStarted := false
		if sc.Mode != "aggregator" && sc.FullStartMs == 0 {
			startFull()
			fullStarted = true
		}
		if sc.QueueWriteFaultMs > 0 {
			wg.Add(1)
			go func() {
				defer wg.Done()
				select {
				case <-ctx.Done():
				case <-time.After(time.Duration(sc.QueueWriteFaultMs) * time.Millisecond):
					p.Raw.SetErrOnPrefix("/batches/")
				}
			}()
		}
		// transaction arrivals
		for _, a := range sc.Arrivals {
			a := a
			wg.Add(1)
			go func() {
				defer wg.Done()
				select {
				case <-ctx.Done():
				case <-time.After(time.Duration(a.AtMs) * time.Millisecond):
					for _, tx := range a.Txs {
						p.Exec.InjectTx(tx)
					}
				}
			}()
		}
		// run until the stop instant; a backlog of duplicates is dropped onto the DA layer once a first
		// header exists (mode full has no producer: nothing to duplicate)
		backlogPlaced := false
		deadline := t0.Add(time.Duration(sc.RunMs) * time.Millisecond)
		for time.Now().Before(deadline) {
			step := time.Duration(sc.BlockMs) * time.Millisecond
			if rem := time.Until(deadline); rem < step {
				step = rem
			}
			time.Sleep(step)
			if sc.Mode != "aggregator" && !fullStarted && time.Since(t0) >= time.Duration(sc.FullStartMs)*time.Millisecond {
				if sc.Backlog > 0 && !backlogPlaced {
					for _, sb := range p.DA.Stored() {
						if sw.KindOf(sb.Blob) == "header" {
							// 2000 copies per DA height, in front of the scan
							for i := 0; i < sc.Backlog; i++ {
								p.DA.Inject(p.DA.Head()+1+uint64(i/2000), sb.Blob)
							}
							backlogPlaced = true
							break
						}
					}
				}
				startFull()
				fullStarted = true
			}
		}
		var loopErrs []string
	drain:
		for {
			select {
			case e := <-errCh:
				if e != nil {
					loopErrs = append(loopErrs, e.Error())
				}
			default:
				break drain
			}
		}
		// ---- stop
		tCancel := time.Now()
		cancel()
		allDone := make(chan struct{})
		go func() { wg.Wait(); close(allDone) }()
		var late []string
		select {
		case <-allDone:
		case <-time.After(stopBound):
			mu.Lock()
			for _, r := range recs {
				if !r.returned {
					late = append(late, r.name)
				}
			}
			mu.Unlock()
		}
		if len(late) > 0 {
			// let the bubble end: free senders blocked on the event channels and wait for sleepers
			go func() {
				for {
					select {
					case <-allDone:
						return
					case <-fm.VerifHeaderInCh():
					case <-fm.VerifDataInCh():
					case <-errCh:
					}
				}
			}()
			// sleepers (a start-up delay of up to an hour, a stalled execution client) end in virtual
			// time; a loop that ignores the stop request altogether never does — then the bubble can
			// never end and the verdict has to be delivered the hard way
			select {
			case <-allDone:
			case <-time.After(3 * time.Hour):
				mu.Lock()
				never := []string{}
				for _, r := range recs {
					if !r.returned {
						never = append(never, r.name)
					}
				}
				mu.Unlock()
				world.Emergency("C13", "all-loops-virtual-time", "C13/stop-ignored", sc, "%v never returned after the stop request (3 virtual hours later they are still running)", never)
			}
			sig := "C13/stop-not-prompt"
			if len(late) == 1 && late[0] == "AggregationLoop" && sc.GenesisOffsetS > 0 {
				sig = "C13/stop-not-prompt/start-up-delay-not-interruptible"
			} else if sc.Backlog > 0 {
				sig = "C13/stop-not-prompt/event-hand-off-blocks-after-stop"
			}
			return world.Fail(sig, "%v did not return within %v of the stop request (genesis offset %ds, backlog %d, mode %s)", late, stopBound, sc.GenesisOffsetS, sc.Backlog, sc.Mode)
		}
		<-allDone
		synctest.Wait()
		latency := time.Duration(0)
		mu.Lock()
		for _, r := range recs {
			if d := r.at.Sub(tCancel); d > latency {
				latency = d
			}
		}
		mu.Unlock()
		if latency > stopBound {
			return world.Fail("C13/stop-not-prompt", "the slowest loop needed %v (virtual) to return after the stop request", latency)
		}
		// ---- invariants on the trace
		for _, e := range loopErrs {
			return world.Fail("C13/loop-error", "a background loop reported an unrecoverable error while running: %s", e)
		}
		bctx := context.Background()
		views, pr := world.CheckChain(bctx, p.N.Spec(p.Exec.GenesisRoot(), nil, true))
		if pr != nil {
			return world.Fail("C13/C01/"+pr.Sig, "aggregator chain: %s", pr.Msg)
		}
		w := &sw.World{P: p}
		if pr := w.CheckC06("at the end"); pr != nil {
			return world.Fail("C13/C06/"+pr.Sig, "%s", pr.Msg)
		}
		if sc.Mode != "full" {
			if pr := w.CheckC07("at the end"); pr != nil && pr.Sig != "loop-error" {
				return world.Fail("C13/C07/"+pr.Sig, "%s", pr.Msg)
			}
		}
		fh, _ := f.N.Store.Height(bctx)
		ah, _ := p.N.Store.Height(bctx)
		if fh > ah {
			return world.Fail("C13/C02/beyond-proposer", "full node height %d exceeds the aggregator's %d", fh, ah)
		}
		synced := 0
		for h := uint64(1); h <= fh; h++ {
			hdr, data, err := f.N.Store.GetBlockData(bctx, h)
			if err != nil {
				return world.Fail("C13/C02/missing-block", "full node height is %d but block %d is missing: %v", fh, h, err)
			}
			v := views[h-1]
			got := make([][]byte, len(data.Txs))
			for i, tx := range data.Txs {
				got[i] = tx
			}
			if !bytes.Equal(hdr.Hash(), v.HeaderHash) || !world.EqTxs(got, v.Txs) {
				return world.Fail("C13/C02/block-differs", "full node block %d differs from the aggregator's", h)
			}
			synced++
		}
		if fh >= 1 {
			st, err := f.N.Store.GetState(bctx)
			if err != nil || st.LastBlockHeight != fh || !bytes.Equal(st.AppHash, views[fh-1].RootAfter) {
				return world.Fail("C13/C02/state-differs", "full node state at height %d differs from the aggregator's (err=%v)", fh, err)
			}
		}
		if inc := fm.GetDAIncludedHeight(); inc > fh {
			return world.Fail("C13/C07/da-included-above-chain", "full node DA-included height %d exceeds its chain height %d", inc, fh)
		}
		ls := []string{"mode:" + sc.Mode}
		if sc.GenesisOffsetS > 0 {
			ls = append(ls, "genesis-in-future")
		}
		if sc.Backlog > 0 {
			ls = append(ls, "backlog")
		}
		if sc.Lazy {
			ls = append(ls, "lazy")
		}
		if sc.MempoolStallMs > 0 {
			ls = append(ls, "execution-client-stalls-in-gettxs")
		}
		v := world.OK(synced >= 3 || (sc.Mode == "aggregator" && ah >= 3), ls...)
		v.Counts = map[string]int{"blocks-produced": int(ah), "blocks-synced": synced}
		return v
	})
}

func TestC13Virtual(t *testing.T) {
	dir := t.TempDir()
	world.Run(t, "C13", "all-loops-virtual-time", world.Scale(40, 300), gen, func(sc Scenario) world.Verdict { return run(sc, dir) })
}

var _ = fmt.Sprint

// seqMetrics are the sequencing layer's metrics as the applications pass them when instrumentation is off
// (discard collectors; the sequencer then goes through its whole metrics path, as in a real node).
func seqMetrics() *single.Metrics {
	m, _ := single.NopMetrics()
	return m
}
