package c13

import (
	"context"
	"fmt"
	"net"
	"os"
	"runtime"
	"sort"
	"strings"
	"sync"
	"testing"
	"time"

	ds "github.com/ipfs/go-datastore"
	dssync "github.com/ipfs/go-datastore/sync"
	"pgregory.net/rapid"

	"github.com/evstack/ev-node/node"
	"github.com/evstack/ev-node/pkg/config"
	"github.com/evstack/ev-node/pkg/p2p"
	"github.com/evstack/ev-node/pkg/p2p/key"
	"github.com/evstack/ev-node/sequencers/single"

	"verif/harness/pw"
	"verif/harness/world"
)

// RealScenario drives a REAL node.NewNode(...).Run (libp2p on loopback, RPC server, sync
// services, all loops as FullNode.Run wires them) in real time: the join-on-stop logic of Run
// itself is the subject.
type RealScenario struct {
	BlockMs int `json:"block_ms"`
	DAMs    int `json:"da_ms"`
	// FinalMs: how long the execution client takes to finalize a height (it honours its context).
	FinalMs int `json:"final_ms"`
	// Stop: "in-final" = the stop request arrives while SetFinal is in flight; "timed" = after RunMs;
	// "internal-error" = no stop request: block execution fails fatally while SetFinal is in flight
	Stop  string `json:"stop"`
	RunMs int    `json:"run_ms"`
}

func genReal(t *rapid.T) RealScenario {
	return RealScenario{
		BlockMs: rapid.SampledFrom([]int{20, 50, 100}).Draw(t, "block"),
		DAMs:    rapid.SampledFrom([]int{40, 100}).Draw(t, "da"),
		FinalMs: rapid.SampledFrom([]int{0, 50, 60_000}).Draw(t, "final"),
		Stop:    rapid.SampledFrom([]string{"in-final", "timed", "internal-error"}).Draw(t, "stop"),
		RunMs:   rapid.IntRange(100, 700).Draw(t, "run"),
	}
}

func freePort() int {
	l, err := net.Listen("tcp", "127.0.0.1:0")
	if err != nil {
		return 0
	}
	defer l.Close()
	return l.Addr().(*net.TCPAddr).Port
}

// goroutineDump returns the stacks of all goroutines.
func goroutineDump() string {
	buf := make([]byte, 8<<20)
	n := runtime.Stack(buf, true)
	return string(buf[:n])
}

// deadlockedOnErrCh recognises the structural deadlock of the join-on-stop logic: Run is waiting for
// its workers in WaitGroup.Wait while a worker loop is parked in a channel send (its error report),
// which nobody will ever receive.
func deadlockedOnErrCh(dump string) (bool, string) {
	runWaiting, loopSending := false, ""
	for _, g := range strings.Split(dump, "\n\n") {
		if strings.Contains(g, "node.(*FullNode).Run(") && strings.Contains(g, "sync.(*WaitGroup).Wait") {
			runWaiting = true
		}
		if strings.Contains(g, "[chan send") {
			for _, loop := range []string{"DAIncluderLoop", "SyncLoop", "AggregationLoop"} {
				if strings.Contains(g, "block.(*Manager)."+loop) {
					loopSending = loop
				}
			}
		}
	}
	return runWaiting && loopSending != "", loopSending
}

// parkedWorkers finds, in a goroutine dump taken while Run is joining its workers (FullNode.Run only
// reaches WaitGroup.Wait after it has cancelled the node's context), the worker loops that are PARKED:
// blocked in a select, a channel receive or a sleep. A wait that includes the cancelled context cannot
// be in that state, so such a goroutine is waiting for something else than the stop. Keyed by goroutine id.
func parkedWorkers(dump string) (runWaiting bool, parked map[string]string) {
	parked = map[string]string{}
	for _, g := range strings.Split(dump, "\n\n") {
		if strings.Contains(g, "node.(*FullNode).Run(") && strings.Contains(g, "sync.(*WaitGroup).Wait") {
			runWaiting = true
		}
		head, _, _ := strings.Cut(g, "\n")
		if !strings.HasPrefix(head, "goroutine ") {
			continue
		}
		id, rest, _ := strings.Cut(strings.TrimPrefix(head, "goroutine "), " ")
		state := strings.Trim(rest, "[]:")
		if st, _, _ := strings.Cut(state, ","); st != "select" && st != "chan receive" && st != "sleep" && st != "select (no cases)" {
			continue
		}
		for _, loop := range []string{"AggregationLoop", "HeaderSubmissionLoop", "DataSubmissionLoop", "DAIncluderLoop", "RetrieveLoop", "HeaderStoreRetrieveLoop", "DataStoreRetrieveLoop", "SyncLoop"} {
			if strings.Contains(g, "block.(*Manager)."+loop+"(") {
				parked[id] = loop + " [" + state + "]"
			}
		}
		if strings.Contains(g, "block.(*Reaper).Start(") {
			parked[id] = "Reaper.Start [" + state + "]"
		}
	}
	return
}

func runReal(sc RealScenario, dir string) world.Verdict {
	root, _ := os.MkdirTemp(dir, "real")
	defer os.RemoveAll(root)
	sgn, _, pub := world.SignerFromSeed("proposer")
	o := world.NodeOpts{ChainID: "c13-real", InitialHeight: 1, GenesisTime: time.Now().Add(-time.Minute), Aggregator: true, RootDir: root,
		BlockTime: time.Duration(sc.BlockMs) * time.Millisecond, DABlockTime: time.Duration(sc.DAMs) * time.Millisecond, LazyInterval: time.Second, MempoolTTL: 2}
	cfg := world.MakeConfig(o)
	cfg.ChainID = o.ChainID
	cfg.P2P.ListenAddress = fmt.Sprintf("/ip4/127.0.0.1/tcp/%d", freePort())
	cfg.RPC.Address = "127.0.0.1:0"
	cfg.Instrumentation = &config.InstrumentationConfig{}
	gen := world.MakeGenesis(o, pub)
	exec := world.NewExecDbl("pw")
	exec.FinalLatency = time.Duration(sc.FinalMs) * time.Millisecond
	inFinal := make(chan struct{}, 1)
	var once sync.Once
	exec.OnFinalEnter = func(uint64) { once.Do(func() { inFinal <- struct{}{} }) }
	da := world.NewDADbl(0)
	kv := dssync.MutexWrap(ds.NewMapDatastore())
	seq, err := single.NewSequencerWithQueueSize(context.Background(), world.Logger(), kv, da, []byte(o.ChainID), o.BlockTime, seqMetrics(), true, 1000)
	if err != nil {
		return world.Verdict{Excluded: true}
	}
	nk, err := key.GenerateNodeKey()
	if err != nil {
		return world.Verdict{Excluded: true}
	}
	p2pc, err := p2p.NewClient(cfg, nk, dssync.MutexWrap(ds.NewMapDatastore()), world.Logger(), p2p.NopMetrics())
	if err != nil {
		return world.Verdict{Excluded: true, Labels: []string{"p2p-client-failed"}}
	}
	ctx, cancel := context.WithCancel(context.Background())
	defer cancel()
	n, err := node.NewNode(ctx, cfg, exec, seq, da, sgn, p2pc, gen, kv, node.DefaultMetricsProvider(cfg.Instrumentation), world.Logger(), node.NodeOptions{})
	if err != nil {
		return world.Fail("C13/real/start", "node.NewNode failed: %v", err)
	}
	// a few transactions so that blocks are not all empty
	exec.InjectTx([]byte("real-1"))
	done := make(chan error, 1)
	go func() { done <- n.Run(ctx) }()
	stopAt := time.Now()
	switch sc.Stop {
	case "in-final":
		select {
		case <-inFinal:
		case <-time.After(20 * time.Second):
			cancel()
			<-done
			return world.OK(false, "real:never-finalized")
		}
		stopAt = time.Now()
		cancel()
	case "internal-error":
		select {
		case <-inFinal:
		case <-time.After(20 * time.Second):
			cancel()
			<-done
			return world.OK(false, "real:never-finalized")
		}
		stopAt = time.Now()
		exec.FailNextExec(1 << 30) // block execution fails: AggregationLoop reports an unrecoverable error
		exec.InjectTx([]byte("real-2"))
	default:
		time.Sleep(time.Duration(sc.RunMs) * time.Millisecond)
		stopAt = time.Now()
		cancel()
	}
	select {
	case <-done:
		_ = pw.GenesisTime
		return world.OK(true, "real:"+sc.Stop, fmt.Sprintf("real:stopped-within-%ds", int(time.Since(stopAt).Seconds())+1))
	case <-time.After(30 * time.Second):
	}
	// Run has not returned: is it the structural deadlock (never a matter of speed), observed twice?
	d1 := goroutineDump()
	ok1, loop := deadlockedOnErrCh(d1)
	rw1, pk1 := parkedWorkers(d1)
	time.Sleep(3 * time.Second)
	d2 := goroutineDump()
	ok2, _ := deadlockedOnErrCh(d2)
	rw2, pk2 := parkedWorkers(d2)
	select {
	case <-done:
		rw1 = false // it did return meanwhile
	default:
	}
	cancel()
	if rw1 && rw2 && !(ok1 && ok2) {
		ids := []string{}
		for id := range pk1 {
			if _, still := pk2[id]; still {
				ids = append(ids, id)
			}
		}
		sort.Strings(ids)
		for _, id := range ids {
			what := pk1[id]
			{
				return world.Fail("C13/real/worker-outlives-stop", "FullNode.Run does not return after the stop (%s): it has cancelled the node's context and waits for its workers, while %s is parked in a wait that the cancelled context does not end (same goroutine in two goroutine dumps 3 s apart, more than 30 s after the stop)", sc.Stop, what)
			}
		}
	}
	if ok1 && ok2 {
		return world.Fail("C13/real/shutdown-deadlock", "FullNode.Run does not return after the stop (%s): it waits for its workers while %s is parked forever in the send of its error report (observed twice, 3 s apart, 30 s after the stop)", sc.Stop, loop)
	}
	// a loop that keeps EXECUTING (never waits) and ignores the stop request: same goroutine found running in
	// four goroutine dumps over 22 s, more than 30 s after the stop
	if fn := world.BusyLoop(); fn != "" {
		select {
		case <-done:
		default:
			return world.Fail("C13/real/stop-ignored-by-busy-loop", "FullNode.Run does not return after the stop (%s): %s has been executing without ever waiting (same goroutine in four goroutine dumps over 22 s, more than 30 s after the stop request)", sc.Stop, fn)
		}
	}
	// slow, but not provably stuck: inconclusive, never a violation (no wall-clock verdicts)
	return world.Verdict{Excluded: true, Labels: []string{"real:slow-shutdown-inconclusive"}}
}

func TestC13RealNode(t *testing.T) {
	dir := t.TempDir()
	world.Run(t, "C13", "real-node-run", world.Scale(8, 12), genReal, func(sc RealScenario) world.Verdict { return runReal(sc, dir) })
}
