package c13

import (
	"testing"

	"verif/harness/rw"
	"verif/harness/world"
)

// TestC13RealTwoNodes: the C13 clauses that can be judged on REAL nodes (node.NewNode(...).Run for an
// aggregator and a full node: libp2p on loopback, go-header sync services, reaper, single sequencer,
// all loops as FullNode.Run wires them, real time) over the DA double; see package rw.
func TestC13RealTwoNodes(t *testing.T) {
	dir := t.TempDir()
	world.Run(t, "C13", "real-two-nodes", world.Scale(4, 16), rw.Gen, func(sc rw.Scenario) world.Verdict {
		r := rw.Run(sc, dir)
		return r.Judge("C13", r.CheckAll)
	})
}
