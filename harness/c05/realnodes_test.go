package c05

import (
	"testing"

	"verif/harness/rw"
	"verif/harness/world"
)

// TestC05RealNodes: the crash clause on a REAL full node (node.NewNode(...).Run next to a real aggregator: block
// store, caches and the P2P sync stores share one datastore). The full node's process dies at a generated durable
// write and is started again on what is on disk: it must start, reach the aggregator's chain and hold the same
// blocks, with every recorded height retrievable. See package rw.
func TestC05RealNodes(t *testing.T) {
	dir := t.TempDir()
	world.Run(t, "C05", "real-nodes", world.Scale(4, 16), rw.GenCrashFull, func(sc rw.Scenario) world.Verdict {
		r := rw.Run(sc, dir)
		return r.Judge("C05", r.CompareChains)
	})
}
