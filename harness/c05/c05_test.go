// Package c05 decides C05: a full node recovers from a crash at any durable-write boundary of
// block application (nested crash during recovery included) and reaches the proposer's chain.
package c05

import (
	"fmt"
	"os"
	"testing"

	"pgregory.net/rapid"

	"verif/harness/c02gen"
	"verif/harness/fw"
	"verif/harness/pw"
	"verif/harness/sw"
	"verif/harness/world"
)

type Scenario struct {
	InitialHeight uint64         `json:"initial_height"`
	Chain         []pw.Step      `json:"chain"`
	Events        []c02gen.Event `json:"events"`
	// Redelivery is the order in which all events are delivered again after a restart
	// (a node rescans DA from its start height and re-reads the P2P stores).
	Redelivery []int `json:"redelivery"`
	Nested     int   `json:"nested"`
	// RefExec: the full node (and the proposer) run the REAL reference execution layer (apps/testapp
	// KVExecutor) whose database dies with the process at the same instant; the crash points then include
	// the executor's own durable writes.
	RefExec bool `json:"ref_exec,omitempty"`
}

func gen(t *rapid.T) Scenario {
	sc := Scenario{InitialHeight: c02gen.GenInitial(t)}
	sc.Chain = c02gen.GenChain(t, world.Scale(6, 12))
	evs := []c02gen.Event{}
	for i, st := range sc.Chain {
		n := rapid.SampledFrom([]int{1, 1, 1, 2}).Draw(t, "hcopies")
		for k := 0; k < n; k++ {
			evs = append(evs, c02gen.Event{Off: i, Kind: "header"})
		}
		if i > 0 && st.Seq.Kind == "txs" {
			n := rapid.SampledFrom([]int{1, 1, 1, 2}).Draw(t, "dcopies")
			for k := 0; k < n; k++ {
				evs = append(evs, c02gen.Event{Off: i, Kind: "data"})
			}
		}
	}
	if len(evs) > 1 {
		evs = rapid.Permutation(evs).Draw(t, "order")
	}
	sc.Events = evs
	idx := make([]int, len(evs))
	for i := range idx {
		idx[i] = i
	}
	if len(idx) > 1 {
		idx = rapid.Permutation(idx).Draw(t, "redelivery")
	}
	sc.Redelivery = idx
	sc.Nested = rapid.IntRange(0, 1000).Draw(t, "nested")
	return sc
}

func deliver(f *fw.Full, c *fw.Chain, e c02gen.Event) error {
	switch e.Kind {
	case "header":
		return f.PushHeader(c.Blocks[e.Off].HeaderBlob, e.DAHeight)
	case "data":
		if c.Blocks[e.Off].DataBlob != nil {
			return f.PushData(c.Blocks[e.Off].DataBlob, e.DAHeight)
		}
	}
	return nil
}

type result struct {
	v        world.Verdict
	opsPerEv []int // durable ops performed while processing each event (uncrashed run)
	opsRedel int   // durable ops of the redelivery phase (when it ran uncrashed)
	crashOp  string
	loopDied bool // I/O-error runs: the sync loop ended with an error (the node shut down and was restarted)
}

// runOnce replays the scenario; crashEv >= 0 arms a crash at durable op crashK while event crashEv
// is processed; nestedK >= 0 arms a second crash at durable op nestedK of the redelivery phase.
func runOnce(sc Scenario, crashEv, crashK, nestedK int, dir string, ioErr ...bool) (res result) {
	ioFault := len(ioErr) > 0 && ioErr[0]
	res.v = sw.InBubble(func() world.Verdict {
		root, _ := os.MkdirTemp(dir, "c05")
		defer os.RemoveAll(root)
		c, err := fw.BuildChain(world.NodeOpts{ChainID: "c05-chain", InitialHeight: sc.InitialHeight, RootDir: root + "/p", RefExec: sc.RefExec}, sc.Chain)
		if err != nil {
			return world.Fail("C05/chain", "cannot build the proposer chain: %v", err)
		}
		f, err := fw.NewFull(c, root+"/f", nil)
		if err != nil {
			return world.Fail("C05/start", "full node does not start: %v", err)
		}
		f.Raw.SetNoPanic(true)
		f.Start("sync")
		defer func() { f.Stop() }()
		res.opsPerEv = make([]int, len(sc.Events))
		crashed := false
		for i, e := range sc.Events {
			start := f.Raw.Ops()
			if i == crashEv {
				if ioFault {
					f.Raw.ArmErrorAfter(crashK) // the write fails with an I/O error, the process lives on
				} else {
					f.Raw.ArmCrashAfter(crashK)
				}
			}
			if err := deliver(f, c, e); err != nil {
				return world.Fail("C05/harness", "%v", err)
			}
			f.Quiesce()
			f.Raw.Disarm()
			res.opsPerEv[i] = f.Raw.Ops() - start
			if i == crashEv && ioFault {
				if lg := f.Raw.Log(start); len(lg) > crashK {
					res.crashOp = "I/O error at " + lg[crashK].Kind + fmt.Sprint(lg[crashK].Keys)
				}
				if len(f.Errors) > 0 {
					// the sync loop gave up: FullNode.Run shuts the node down (caches are saved) and the
					// operator starts it again
					res.loopDied = true
					crashed = true
					break
				}
				// the error was only logged: the node keeps running, nothing else happens to it
				continue
			}
			if i == crashEv {
				if lg := f.Raw.Log(start); f.Raw.Dead() && len(lg) > 0 {
					res.crashOp = lg[len(lg)-1].Kind + fmt.Sprint(lg[len(lg)-1].Keys)
				}
				crashed = true
				break
			}
			if p := f.CheckPrefix(fmt.Sprintf("after event %d", i), true); p != nil {
				return world.Fail("C05/precrash/"+p.Sig, "%s", p.Msg)
			}
		}
		if !crashed && !ioFault {
			return world.OK(false)
		}
		// process death and restart
		restart := func(when string) *world.Verdict {
			clean := ioFault && !f.Raw.Dead()
			if clean {
				f.Errors = nil
			}
			if err := f.Restart(clean); err != nil {
				v := world.Fail("C05/restart-fails", "%s: node does not start on the image left by the crash: %v", when, err)
				return &v
			}
			f.Raw.SetNoPanic(true)
			if p := f.CheckPrefix(when, false); p != nil {
				v := world.Fail("C05/"+p.Sig, "%s", p.Msg)
				return &v
			}
			return nil
		}
		if crashed {
			if v := restart(fmt.Sprintf("right after restart (crash at event %d op %d: %s)", crashEv, crashK, res.crashOp)); v != nil {
				return *v
			}
		}
		// redelivery of everything in a generated order
		startRedel := f.Raw.Ops()
		if nestedK >= 0 {
			f.Raw.ArmCrashAfter(nestedK)
		}
		nestedFired := false
		for _, idx := range sc.Redelivery {
			if err := deliver(f, c, sc.Events[idx]); err != nil {
				return world.Fail("C05/harness", "%v", err)
			}
			f.Quiesce()
			if f.Raw.Dead() {
				nestedFired = true
				break
			}
		}
		f.Raw.Disarm()
		if nestedFired {
			if v := restart(fmt.Sprintf("right after the second restart (nested crash at op %d of recovery)", nestedK)); v != nil {
				return *v
			}
			for _, idx := range sc.Redelivery {
				if err := deliver(f, c, sc.Events[idx]); err != nil {
					return world.Fail("C05/harness", "%v", err)
				}
				f.Quiesce()
			}
		} else {
			res.opsRedel = f.Raw.Ops() - startRedel
		}
		if p := f.CheckPrefix("at the end", false); p != nil {
			return world.Fail("C05/"+p.Sig, "%s (crash at event %d op %d: %s)", p.Msg, crashEv, crashK, res.crashOp)
		}
		// every event was delivered again: the node must reach the deliverable prefix
		want := c02gen.HStar(sc.Events, c)
		got, _ := f.N.Store.Height(c.P.Ctx)
		if got != want && !(got == 0 && want == c.Opts.InitialHeight-1) {
			return world.Fail("C05/not-converged", "after the crash (event %d op %d: %s) and redelivery of everything the full node is at height %d, deliverable prefix is %d", crashEv, crashK, res.crashOp, got, want)
		}
		return world.OK(true)
	})
	return
}

func run(sc Scenario, dir string) world.Verdict {
	base := runOnce(sc, -1, 0, -1, dir)
	if base.v.Violation != "" {
		return base.v
	}
	runs, inside, nested := 1, 0, 0
	for i, n := range base.opsPerEv {
		if n == 0 {
			continue
		}
		for k := 0; k <= n; k++ {
			r := runOnce(sc, i, k, -1, dir)
			runs++
			if r.v.Violation != "" {
				return r.v
			}
			if k > 0 && k < n {
				inside++
			}
			if r.opsRedel > 0 {
				js := []int{(sc.Nested + k) % (r.opsRedel + 1)}
				if world.Thorough() {
					js = js[:0]
					for j := 0; j <= r.opsRedel; j++ {
						js = append(js, j)
					}
				}
				for _, j := range js {
					r2 := runOnce(sc, i, k, j, dir)
					runs++
					nested++
					if r2.v.Violation != "" {
						return r2.v
					}
				}
			}
		}
	}
	// the same boundaries with a write that FAILS (I/O error) instead of a process death: whatever the node
	// does after the failed write (give up and be restarted, or log and go on) it must still converge
	ioRuns, ioDied := 0, 0
	for i, n := range base.opsPerEv {
		for k := 0; k < n; k++ {
			r := runOnce(sc, i, k, -1, dir, true)
			ioRuns++
			if r.loopDied {
				ioDied++
			}
			if r.v.Violation != "" {
				return r.v
			}
		}
	}
	v := world.OK(inside > 0 && nested > 0)
	v.Counts = map[string]int{"crash-runs": runs, "nested-crash-runs": nested, "crash-inside-application": inside, "io-error-runs": ioRuns, "io-error-runs-in-which-the-sync-loop-gave-up": ioDied}
	return v
}

func TestC05(t *testing.T) {
	dir := t.TempDir()
	world.Run(t, "C05", "apply-crash", world.Scale(40, 150), gen, func(sc Scenario) world.Verdict { return run(sc, dir) })
}

// TestC05ReferenceExecutor: the same exhaustive crash-point enumeration with the reference execution
// layer of the repository (apps/testapp KVExecutor) instead of the execution double: the executor
// commits a block to its own database before the node persists anything, so after a crash the node may
// have to re-execute a block the executor already holds.
func TestC05ReferenceExecutor(t *testing.T) {
	dir := t.TempDir()
	world.Run(t, "C05", "apply-crash-reference-executor", world.Scale(12, 40), func(t *rapid.T) Scenario {
		sc := gen(t)
		sc.Chain = c02gen.KVify(sc.Chain)
		sc.RefExec = true
		return sc
	}, func(sc Scenario) world.Verdict { return run(sc, dir) })
}

// TestC05RealIngress: crash restarts (the in-memory caches are lost) of a full node fed by the
// unmodified DA scan and P2P store loops; after everything is visible the node must have reached
// the deliverable prefix with blocks equal to the proposer's. Unlike the exact-order driver the
// harness redelivers nothing: what the node sees again after a restart is up to the node.
func TestC05RealIngress(t *testing.T) {
	dir := t.TempDir()
	world.Run(t, "C05", "real-ingress-crash", world.Scale(120, 600), func(t *rapid.T) c02gen.ScenarioB {
		sc := c02gen.GenB(t, world.Scale(8, 16), true)
		// make sure there is at least one crash restart
		sc.Ops = append(sc.Ops, c02gen.OpB{Kind: "tick", N: 1}, c02gen.OpB{Kind: "crash"})
		return sc
	}, func(sc c02gen.ScenarioB) world.Verdict {
		return c02gen.RunB(sc, dir, "C05",
			func(r *c02gen.BRun, when string) *world.Problem { return r.F.CheckPrefix(when, false) },
			func(r *c02gen.BRun) *world.Problem {
				if p := r.F.CheckPrefix("at the end", false); p != nil {
					return p
				}
				got, _ := r.F.N.Store.Height(r.C.P.Ctx)
				if got != r.HStar && !(got == 0 && r.HStar == r.C.Opts.InitialHeight-1) {
					return &world.Problem{Sig: "not-converged-after-crash", Msg: fmt.Sprintf("both parts of every block up to %d are available to the node (DA layer / P2P stores), after %d crash restart(s) it stopped at height %d", r.HStar, r.F.CrashRestarts, got)}
				}
				return nil
			})
	})
}
