package c19

import (
	"bytes"
	"fmt"
	"os"
	"path/filepath"
	"strings"
	"testing"

	"pgregory.net/rapid"

	"verif/harness/world"
)

// region is one string token of the key file: a key name or a base64 payload. Regions are
// discovered from the file itself, so added fields are covered without editing the check.
type region struct {
	Field      string
	IsName     bool
	Start, End int // content without the quotes
}

func layout(b []byte) []region {
	var out []region
	field := ""
	for i := 0; i < len(b); i++ {
		if b[i] != '"' {
			continue
		}
		j := i + 1
		for j < len(b) && b[j] != '"' {
			j++
		}
		if j >= len(b) {
			break
		}
		k := j + 1
		for k < len(b) && (b[k] == ' ' || b[k] == '\n' || b[k] == '\t') {
			k++
		}
		content := string(b[i+1 : j])
		if k < len(b) && b[k] == ':' {
			field = content
			out = append(out, region{Field: field, IsName: true, Start: i + 1, End: j})
		} else {
			out = append(out, region{Field: field, IsName: false, Start: i + 1, End: j})
		}
		i = j
	}
	return out
}

func classify(regs []region, pos int) string {
	for _, r := range regs {
		if pos >= r.Start && pos < r.End {
			if r.IsName {
				return "name:" + r.Field
			}
			return "payload:" + r.Field
		}
	}
	return "structure"
}

const b64Alphabet = "ABCDEFGHIJKLMNOPQRSTUVWXYZabcdefghijklmnopqrstuvwxyz0123456789+/="

// Mutation kinds.
const (
	kFlip  = "flip"  // flip bit Arg (0..7)
	kZero  = "zero"  // overwrite with '0'
	kQuote = "quote" // overwrite with '"'
	kB64   = "b64"   // overwrite with the base64 character Arg (1..64) places further in the alphabet (incl. '=')
	kPad   = "pad"   // overwrite with '='
	kTrunc = "trunc" // keep only the first Pos bytes
)

// MutScenario corrupts one byte of a key file, or truncates it, and loads it with the right
// pass-phrase. The position is either absolute (Region < 0) or relative: the Offset-th byte
// (modulo its length, negative = from the end) of the Region-th (modulo their number) area of the file, where the areas are
// the discovered key names and payloads followed by one area holding all structural bytes.
type MutScenario struct {
	Source  string `json:"source"`
	PassIdx int    `json:"pass_idx"`
	Kind    string `json:"kind"`
	Arg     int    `json:"arg,omitempty"`
	Region  int    `json:"region"`
	Offset  int    `json:"offset,omitempty"`
	Pos     int    `json:"pos,omitempty"`
	// WrongPass: the corrupted file is ALSO opened with a wrong pass-phrase (two faults at once: the error
	// paths of the error paths). Never a signer, never a key, never a panic.
	WrongPass bool `json:"wrong_pass,omitempty"`
}

// mutation pass-phrases: a small pool, because every distinct (source, pass-phrase) base file
// costs Argon2id runs; the breadth of pass-phrases is the business of key-roundtrip.
var mutPasses = [][]byte{
	[]byte("correct horse battery staple"),
	{},
	[]byte("x"),
	bytes.Repeat([]byte{0xff, 0x00, 'p'}, 11), // 33 bytes, not UTF-8
}

func (sc MutScenario) pass() []byte {
	n := len(mutPasses)
	return mutPasses[((sc.PassIdx%n)+n)%n]
}

// resolve returns the absolute position addressed by the scenario in a file.
func (sc MutScenario) resolve(file []byte, regs []region) int {
	if sc.Region < 0 {
		return sc.Pos
	}
	n := len(regs) + 1
	r := sc.Region % n
	if r < len(regs) {
		l := regs[r].End - regs[r].Start
		if l == 0 {
			return regs[r].Start
		}
		return regs[r].Start + ((sc.Offset%l)+l)%l
	}
	var structural []int
	for p := range file {
		if classify(regs, p) == "structure" {
			structural = append(structural, p)
		}
	}
	return structural[((sc.Offset%len(structural))+len(structural))%len(structural)]
}

func mutate(file []byte, kind string, arg, pos int) []byte {
	if kind == kTrunc {
		return cp(file[:pos])
	}
	out := cp(file)
	switch kind {
	case kFlip:
		out[pos] ^= 1 << (uint(arg) % 8)
	case kZero:
		out[pos] = '0'
	case kQuote:
		out[pos] = '"'
	case kPad:
		out[pos] = '='
	case kB64:
		i := strings.IndexByte(b64Alphabet, out[pos])
		a := arg % len(b64Alphabet)
		if a == 0 {
			a = 1
		}
		out[pos] = b64Alphabet[(i+a+len(b64Alphabet))%len(b64Alphabet)]
	default:
		panic("harness: unknown mutation kind " + kind)
	}
	return out
}

func genMut(t *rapid.T) MutScenario {
	sc := MutScenario{
		Source:  rapid.SampledFrom([]string{srcCreate, srcCreate, srcImport, srcLegacy}).Draw(t, "source"),
		PassIdx: rapid.SampledFrom([]int{0, 0, 1, 1, 2, 3}).Draw(t, "pass"),
	}
	if sc.Source == srcLegacy && len(sc.pass()) == 0 {
		sc.PassIdx = 0
	}
	sc.Kind = rapid.SampledFrom([]string{kFlip, kFlip, kFlip, kZero, kQuote, kB64, kB64, kPad, kTrunc}).Draw(t, "kind")
	switch sc.Kind {
	case kFlip:
		sc.Arg = rapid.IntRange(0, 7).Draw(t, "bit")
	case kB64:
		sc.Arg = rapid.IntRange(1, 64).Draw(t, "shift")
	}
	sc.WrongPass = rapid.IntRange(0, 2).Draw(t, "wrongpass") == 0
	if sc.Kind == kTrunc {
		sc.Region = -1
		sc.Pos = rapid.IntRange(0, 400).Draw(t, "len")
		return sc
	}
	// area first, then the byte within it: every key name and every payload is hit equally often
	sc.Region = rapid.IntRange(0, 15).Draw(t, "region")
	switch rapid.IntRange(0, 3).Draw(t, "edge") {
	case 0:
		sc.Offset = 0
	case 1:
		sc.Offset = -1 // offsets count modulo the area's length: -1 is its last byte
	default:
		sc.Offset = rapid.IntRange(0, 200).Draw(t, "offset")
	}
	return sc
}

func runMut(sc MutScenario) world.Verdict {
	pass := sc.pass()
	if sc.Source == srcLegacy && len(pass) == 0 {
		return world.Verdict{Excluded: true}
	}
	base, bv := cachedBase(sc.Source, pass)
	if bv != nil {
		return *bv
	}
	regs := layout(base.bytes)
	var pos int
	if sc.Kind == kTrunc {
		pos = sc.Pos
		if pos > len(base.bytes) {
			pos = pos % (len(base.bytes) + 1)
		}
	} else {
		pos = sc.resolve(base.bytes, regs)
		if pos < 0 || pos >= len(base.bytes) {
			return world.Verdict{Excluded: true}
		}
	}
	mutated := mutate(base.bytes, sc.Kind, sc.Arg, pos)
	changed := !bytes.Equal(mutated, base.bytes)
	where := classify(regs, pos)
	if sc.Kind == kTrunc {
		where = "trunc"
		if pos < len(base.bytes) {
			where = "trunc@" + classify(regs, pos)
		}
	}
	desc := fmt.Sprintf("%s file (pass-phrase of %d bytes), %s at byte %d of %d [%s]", sc.Source, len(pass), sc.Kind, pos, len(base.bytes), where)
	labels := []string{"source:" + sc.Source, "kind:" + sc.Kind, "at:" + strings.TrimPrefix(where, "trunc@"), passClass(pass)}

	dir, err := os.MkdirTemp("", "c19-m-")
	if err != nil {
		panic(err)
	}
	defer os.RemoveAll(dir)
	if err := os.WriteFile(filepath.Join(dir, keyFileName), mutated, 0o600); err != nil {
		panic(err)
	}

	// Load with the right pass-phrase: an error, or the original signer; never a panic, never a
	// signer that does not match itself or the saved key.
	o := load(dir, pass)
	if o.pan != "" {
		return world.Fail(panicSig(o), "Load panicked on a corrupted key file: %s: %s", desc, o.pan)
	}
	if o.err == nil {
		if v := checkSigner(o.s, base.id, []byte("after corruption: "+desc), "Load accepted "+desc); v != nil {
			return *v
		}
		labels = append(labels, "load:accepted-identical")
	} else {
		labels = append(labels, "load:rejected")
	}
	// Export of the same file: an error or the original private key; never a panic.
	e := export(dir, pass)
	if e.pan != "" {
		return world.Fail(panicSig(e), "ExportPrivateKey panicked on a corrupted key file: %s: %s", desc, e.pan)
	}
	if e.err == nil {
		if !bytes.Equal(e.raw, base.rawKey) {
			return world.Fail("C19/export-wrong-key", "ExportPrivateKey returned a different key from a corrupted key file: %s", desc)
		}
		labels = append(labels, "export:accepted-identical")
	} else {
		labels = append(labels, "export:rejected")
	}
	if sc.WrongPass {
		// differs in its first byte (the legacy derivation only looks at the first 32 bytes of a pass-phrase)
		wrong := cp(pass)
		if len(wrong) == 0 {
			wrong = []byte("x")
		} else {
			wrong[0] ^= 0x5a
		}
		labels = append(labels, "also-opened-with-a-wrong-pass-phrase")
		ow := load(dir, wrong)
		if ow.pan != "" {
			return world.Fail(panicSig(ow), "Load panicked on a corrupted key file opened with a wrong pass-phrase: %s: %s", desc, ow.pan)
		}
		if ow.err == nil {
			return world.Fail("C19/wrong-passphrase-accepted", "Load returned a signer for a wrong pass-phrase: %s", desc)
		}
		ew := export(dir, wrong)
		if ew.pan != "" {
			return world.Fail(panicSig(ew), "ExportPrivateKey panicked on a corrupted key file opened with a wrong pass-phrase: %s: %s", desc, ew.pan)
		}
		if ew.err == nil {
			return world.Fail("C19/wrong-passphrase-accepted", "ExportPrivateKey returned a key for a wrong pass-phrase: %s", desc)
		}
	}
	// the file on disk is never rewritten by loading it
	if after, err := os.ReadFile(filepath.Join(dir, keyFileName)); err != nil || !bytes.Equal(after, mutated) {
		return world.Fail("C19/load-rewrites-file", "loading changed the key file on disk: %s", desc)
	}

	// non-trivial: the corruption really changed a byte inside a payload or a key name, or the
	// truncation removed at least one such byte (i.e. any proper prefix)
	nt := false
	if sc.Kind == kTrunc {
		nt = pos < len(base.bytes)
	} else {
		nt = changed && where != "structure"
	}
	if !changed {
		labels = append(labels, "no-op")
	}
	return world.OK(nt, labels...)
}

func TestC19Mutation(t *testing.T) {
	world.Run(t, "C19", "file-mutation", world.Scale(80, 100), genMut, runMut)
}

// exhaustiveList is every single-byte corruption of every position (all 8 bit flips - one for the
// imported file -, '0', '"', the next base64 character, '=') and every truncation length of the
// base files.
func exhaustiveList(t *testing.T) []MutScenario {
	var out []MutScenario
	for _, bf := range []struct {
		source  string
		passIdx int
	}{{srcCreate, 0}, {srcImport, 1}, {srcLegacy, 0}} {
		sc := MutScenario{Source: bf.source, PassIdx: bf.passIdx, Region: -1}
		base, v := cachedBase(bf.source, sc.pass())
		if v != nil {
			t.Fatalf("cannot make the %s base file: %s", bf.source, v.Violation)
		}
		bits := 8
		if bf.source == srcImport {
			bits = 1 // same format as the created file: one flip per byte keeps the Argon2id bill bounded
		}
		for pos := 0; pos < len(base.bytes); pos++ {
			for bit := 0; bit < bits; bit++ {
				out = append(out, MutScenario{Source: bf.source, PassIdx: bf.passIdx, Kind: kFlip, Arg: bit, Region: -1, Pos: pos})
			}
			for _, k := range []string{kZero, kQuote, kPad} {
				out = append(out, MutScenario{Source: bf.source, PassIdx: bf.passIdx, Kind: k, Region: -1, Pos: pos})
			}
			out = append(out, MutScenario{Source: bf.source, PassIdx: bf.passIdx, Kind: kB64, Arg: 1, Region: -1, Pos: pos})
			if bf.source != srcImport {
				out = append(out, MutScenario{Source: bf.source, PassIdx: bf.passIdx, Kind: kFlip, Arg: 0, Region: -1, Pos: pos, WrongPass: true})
			}
		}
		for l := 0; l < len(base.bytes); l++ {
			out = append(out, MutScenario{Source: bf.source, PassIdx: bf.passIdx, Kind: kTrunc, Region: -1, Pos: l})
		}
	}
	return out
}

// TestC19MutationExhaustive (thorough tier only): all positions x all kinds and all truncation
// lengths of three base files.
func TestC19MutationExhaustive(t *testing.T) {
	if !world.Thorough() {
		t.Skip("thorough tier only")
	}
	all := exhaustiveList(t)
	world.Enumerate(t, "C19", "file-mutation-exhaustive", all, true, runMut) // sharded by index
}

// directedList addresses every discovered area of a base file relatively (so added fields are
// covered): both ends of every key name and payload with the corruptions that keep the JSON and
// the base64 well-formed (the ones that reach the cryptography), structural bytes, and a few
// truncation lengths. It runs in the quick tier whatever the seed.
func directedList(t *testing.T) []MutScenario {
	var out []MutScenario
	for _, bf := range []struct {
		source  string
		passIdx int
	}{{srcCreate, 1}, {srcLegacy, 0}} {
		sc := MutScenario{Source: bf.source, PassIdx: bf.passIdx}
		base, v := cachedBase(bf.source, sc.pass())
		if v != nil {
			t.Fatalf("cannot make the %s base file: %s", bf.source, v.Violation)
		}
		regs := layout(base.bytes)
		add := func(kind string, arg, region, offset int) {
			out = append(out, MutScenario{Source: bf.source, PassIdx: bf.passIdx, Kind: kind, Arg: arg, Region: region, Offset: offset})
		}
		for i, r := range regs {
			if r.IsName {
				add(kFlip, 0, i, 0)
				add(kZero, 0, i, -1)
				out = append(out, MutScenario{Source: bf.source, PassIdx: bf.passIdx, Kind: kFlip, Arg: 0, Region: i, Offset: 1, WrongPass: true})
				continue
			}
			add(kPad, 0, i, -1)
			add(kPad, 0, i, -2)
			add(kB64, 1, i, 0)
			add(kB64, 1, i, -1)
			add(kFlip, 0, i, (r.End-r.Start)/2)
		}
		add(kQuote, 0, len(regs), 0)
		add(kZero, 0, len(regs), 1)
		for _, l := range []int{0, 1, len(base.bytes) / 2, len(base.bytes) - 1} {
			out = append(out, MutScenario{Source: bf.source, PassIdx: bf.passIdx, Kind: kTrunc, Region: -1, Pos: l})
		}
	}
	return out
}

// TestC19MutationDirected (quick tier; the thorough tier enumerates everything instead).
func TestC19MutationDirected(t *testing.T) {
	if world.Thorough() {
		t.Skip("quick tier only: the thorough tier runs the exhaustive enumeration")
	}
	world.Enumerate(t, "C19", "file-mutation-directed", directedList(t), false, runMut)
}
