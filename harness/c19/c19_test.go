// Package c19 decides C19: the proposer key file protects the key and yields a working,
// matching signer.
//
// Three checks share the helpers in this file:
//
//   - key-roundtrip (rapid): a key is saved under a generated pass-phrase by the real API
//     (CreateFileSystemSigner / ImportPrivateKey) or sits in a legacy salt-less file built by the
//     harness from the documented legacy derivation; it must load with that pass-phrase to the same
//     key (signature verifies under the reported public key, address = the address full nodes
//     derive), must not load with any generated wrong pass-phrase, must not be stored in clear, and
//     Export -> Import -> Load must preserve it.
//   - file-mutation (rapid, sampled) and file-mutation-exhaustive (enumerated, thorough tier): one
//     byte of the key file is corrupted or the file is truncated; loading it with the right
//     pass-phrase must give an error or a signer identical to the original, never a panic and never
//     a signer whose signatures do not verify under the key it reports.
package c19

import (
	"bytes"
	"crypto/aes"
	"crypto/cipher"
	"crypto/sha256"
	"encoding/json"
	"fmt"
	"os"
	"path/filepath"
	"runtime/debug"
	"strings"
	"sync"

	"github.com/libp2p/go-libp2p/core/crypto"

	"github.com/evstack/ev-node/pkg/signer"
	filesigner "github.com/evstack/ev-node/pkg/signer/file"
	noopsigner "github.com/evstack/ev-node/pkg/signer/noop"
	"github.com/evstack/ev-node/types"

	"verif/harness/world"
)

const keyFileName = "signer.json"

// cp returns a fresh copy: every entry point of the key file API zeroes the slices it is given.
func cp(b []byte) []byte {
	out := make([]byte, len(b))
	copy(out, b)
	return out
}

// ---------------------------------------------------------------------------------------------
// the legacy (salt-less) format, written down independently of the code under test

// diskKey mirrors the JSON layout of the key file.
type diskKey struct {
	Priv  []byte `json:"priv_key_encrypted"`
	Nonce []byte `json:"nonce"`
	Pub   []byte `json:"pub_key"`
	Salt  []byte `json:"salt,omitempty"`
}

// legacyKey is the documented legacy derivation: the first 32 bytes of the pass-phrase, a shorter
// pass-phrase being extended by key[i] = pass[i mod len] xor i. It is undefined for the empty
// pass-phrase (no legacy file can have been written under it).
func legacyKey(pass []byte) []byte {
	if len(pass) == 0 {
		return nil
	}
	key := make([]byte, 32)
	for i := 0; i < 32; i++ {
		if i < len(pass) {
			key[i] = pass[i]
		} else {
			key[i] = pass[i%len(pass)] ^ byte(i)
		}
	}
	return key
}

// buildLegacyFile seals priv under legacyKey(pass) with AES-256-GCM.
func buildLegacyFile(priv crypto.PrivKey, pass, nonce []byte) ([]byte, error) {
	raw, err := priv.Raw()
	if err != nil {
		return nil, err
	}
	pubRaw, err := priv.GetPublic().Raw()
	if err != nil {
		return nil, err
	}
	block, err := aes.NewCipher(legacyKey(pass))
	if err != nil {
		return nil, err
	}
	gcm, err := cipher.NewGCM(block)
	if err != nil {
		return nil, err
	}
	if len(nonce) != gcm.NonceSize() {
		return nil, fmt.Errorf("harness: legacy nonce must be %d bytes", gcm.NonceSize())
	}
	return json.Marshal(diskKey{Priv: gcm.Seal(nil, nonce, raw, nil), Nonce: nonce, Pub: pubRaw})
}

// ---------------------------------------------------------------------------------------------
// guarded calls into the code under test

type outcome struct {
	s     signer.Signer
	raw   []byte
	err   error
	pan   string // non-empty when the call panicked
	stack string
}

func guarded(f func(o *outcome)) (o outcome) {
	defer func() {
		if r := recover(); r != nil {
			o.pan = fmt.Sprint(r)
			o.stack = string(debug.Stack())
		}
	}()
	f(&o)
	return
}

func load(dir string, pass []byte) outcome {
	return guarded(func(o *outcome) { o.s, o.err = filesigner.LoadFileSystemSigner(dir, cp(pass)) })
}

func export(dir string, pass []byte) outcome {
	return guarded(func(o *outcome) { o.raw, o.err = filesigner.ExportPrivateKey(dir, cp(pass)) })
}

// panicSig classifies a panic by its root cause.
func panicSig(o outcome) string {
	switch {
	case strings.Contains(o.pan, "divide by zero") && strings.Contains(o.stack, "fallbackDeriveKey"):
		return "C19/panic-legacy-derivation-empty-passphrase"
	case strings.Contains(o.pan, "incorrect nonce length"):
		return "C19/panic-gcm-nonce-length"
	case strings.Contains(o.pan, "divide by zero"):
		return "C19/panic-divide-by-zero"
	}
	return "C19/panic-other"
}

// ---------------------------------------------------------------------------------------------
// what "the same key, working and matching" means

// identity is what the harness knows about the key that was saved.
type identity struct {
	pub    crypto.PubKey
	pubRaw []byte
}

func identityOf(pub crypto.PubKey) (identity, error) {
	raw, err := pub.Raw()
	return identity{pub: pub, pubRaw: raw}, err
}

// checkSigner decides whether s is a working signer for exactly the key id. where names the
// situation for the message; sigPrefix lets callers distinguish root causes.
func checkSigner(s signer.Signer, id identity, msg []byte, where string) *world.Verdict {
	fail := func(sig, f string, a ...any) *world.Verdict {
		v := world.Fail(sig, where+": "+f, a...)
		return &v
	}
	if s == nil {
		return fail("C19/nil-signer", "a nil signer was returned without an error")
	}
	var pub crypto.PubKey
	var sig, addr []byte
	var e1, e2, e3 error
	o := guarded(func(*outcome) {
		pub, e1 = s.GetPublic()
		sig, e2 = s.Sign(cp(msg))
		addr, e3 = s.GetAddress()
	})
	if o.pan != "" {
		return fail("C19/signer-panics", "the returned signer panics when used: %s", o.pan)
	}
	if e1 != nil || e2 != nil || e3 != nil || pub == nil {
		return fail("C19/signer-unusable", "the returned signer does not work: GetPublic=%v Sign=%v GetAddress=%v", e1, e2, e3)
	}
	okReported, err := pub.Verify(msg, sig)
	if err != nil || !okReported {
		reported, _ := pub.Raw()
		if okSaved, _ := id.pub.Verify(msg, sig); okSaved {
			return fail("C19/reported-pubkey-not-bound-to-private-key",
				"the signer signs with the saved key %x but reports public key %x, under which its signature does not verify", id.pubRaw, reported)
		}
		return fail("C19/signature-does-not-verify", "the signature does not verify under the reported public key %x (err=%v)", reported, err)
	}
	if !pub.Equals(id.pub) {
		reported, _ := pub.Raw()
		return fail("C19/loaded-a-different-key", "loaded public key %x, saved public key %x", reported, id.pubRaw)
	}
	want := sha256.Sum256(id.pubRaw)
	if !bytes.Equal(addr, want[:]) {
		return fail("C19/address-not-sha256-of-pubkey", "GetAddress()=%x, sha256(raw public key)=%x", addr, want)
	}
	if ka := types.KeyAddress(pub); !bytes.Equal(addr, ka) {
		return fail("C19/address-differs-from-full-node", "GetAddress()=%x, types.KeyAddress(pub)=%x", addr, ka)
	}
	if vs, err := types.NewSigner(pub); err != nil || !bytes.Equal(addr, vs.Address) {
		return fail("C19/address-differs-from-full-node", "GetAddress()=%x, types.NewSigner(pub).Address=%x (err=%v)", addr, vs.Address, err)
	}
	return nil
}

// checkNoopAgreement compares the address with the in-memory signer built from the exported key.
func checkNoopAgreement(s signer.Signer, rawPriv []byte, where string) *world.Verdict {
	priv, err := crypto.UnmarshalEd25519PrivateKey(cp(rawPriv))
	if err != nil {
		v := world.Fail("C19/export-not-a-key", "%s: exported bytes are not an ed25519 private key: %v", where, err)
		return &v
	}
	ns, err := noopsigner.NewNoopSigner(priv)
	if err != nil {
		v := world.Fail("C19/noop-signer", "%s: noop signer cannot be built from the exported key: %v", where, err)
		return &v
	}
	a1, _ := s.GetAddress()
	a2, _ := ns.GetAddress()
	if !bytes.Equal(a1, a2) {
		v := world.Fail("C19/address-differs-from-noop-signer", "%s: file signer address %x, noop signer address %x for the same key", where, a1, a2)
		return &v
	}
	return nil
}

// ---------------------------------------------------------------------------------------------
// base files (made through the real API, or the legacy writer above)

// Sources of a key file.
const (
	srcCreate = "create" // CreateFileSystemSigner: fresh random key
	srcImport = "import" // ImportPrivateKey of a harness key
	srcLegacy = "legacy" // salt-less file built by the harness
)

type baseFile struct {
	bytes  []byte
	id     identity
	rawKey []byte // raw private key (64 bytes), as exported with the right pass-phrase
}

// makeBase writes a key file for (source, pass) into dir and returns what was saved.
func makeBase(dir, source, keyLabel string, pass, nonce []byte) (baseFile, *world.Verdict) {
	var b baseFile
	bad := func(sig, f string, a ...any) (baseFile, *world.Verdict) {
		v := world.Fail(sig, f, a...)
		return b, &v
	}
	path := filepath.Join(dir, keyFileName)
	switch source {
	case srcCreate:
		var s signer.Signer
		var err error
		o := guarded(func(*outcome) { s, err = filesigner.CreateFileSystemSigner(dir, cp(pass)) })
		if o.pan != "" {
			return bad("C19/create-panics", "CreateFileSystemSigner panicked with a %d-byte pass-phrase: %s", len(pass), o.pan)
		}
		if err != nil {
			return bad("C19/create-fails", "CreateFileSystemSigner failed with a %d-byte pass-phrase: %v", len(pass), err)
		}
		pub, err := s.GetPublic()
		if err != nil {
			return bad("C19/create-fails", "created signer has no public key: %v", err)
		}
		b.id, _ = identityOf(pub)
		// the signer handed back by Create must itself be the working signer of that key
		if v := checkSigner(s, b.id, []byte("created"), "signer returned by CreateFileSystemSigner"); v != nil {
			return b, v
		}
	case srcImport:
		priv, pub := world.KeyFromSeed("c19:" + keyLabel)
		raw, _ := priv.Raw()
		var err error
		o := guarded(func(*outcome) { err = filesigner.ImportPrivateKey(dir, cp(raw), cp(pass)) })
		if o.pan != "" {
			return bad("C19/import-panics", "ImportPrivateKey panicked: %s", o.pan)
		}
		if err != nil {
			return bad("C19/import-fails", "ImportPrivateKey of a valid key failed: %v", err)
		}
		b.id, _ = identityOf(pub)
	case srcLegacy:
		priv, pub := world.KeyFromSeed("c19:" + keyLabel)
		fb, err := buildLegacyFile(priv, pass, nonce)
		if err != nil {
			panic("harness: " + err.Error())
		}
		if err := os.WriteFile(path, fb, 0o600); err != nil {
			panic("harness: " + err.Error())
		}
		b.id, _ = identityOf(pub)
	default:
		panic("harness: unknown source " + source)
	}
	fb, err := os.ReadFile(path)
	if err != nil {
		return bad("C19/no-key-file", "no key file at %s after %s: %v", path, source, err)
	}
	b.bytes = fb
	return b, nil
}

var (
	baseMu    sync.Mutex
	baseCache = map[string]baseFile{}
)

// cachedBase returns the (immutable) base file for a mutation scenario; it is made once per
// process because every save costs an Argon2id run. The raw private key is obtained by Export.
func cachedBase(source string, pass []byte) (baseFile, *world.Verdict) {
	baseMu.Lock()
	defer baseMu.Unlock()
	k := source + "/" + string(pass)
	if b, ok := baseCache[k]; ok {
		return b, nil
	}
	dir, err := os.MkdirTemp("", "c19-base-")
	if err != nil {
		panic(err)
	}
	defer os.RemoveAll(dir)
	b, v := makeBase(dir, source, "mutation", pass, []byte("legacynonce!"))
	if v != nil {
		return b, v
	}
	o := export(dir, pass)
	if o.pan != "" || o.err != nil {
		f := world.Fail("C19/export-fails", "ExportPrivateKey with the right pass-phrase on an untouched %s file: err=%v panic=%s", source, o.err, o.pan)
		return b, &f
	}
	b.rawKey = o.raw
	baseCache[k] = b
	return b, nil
}

// containsKeyInClear reports whether the file (as text or in any base64 payload) contains the
// private seed.
func containsKeyInClear(file []byte, rawPriv []byte) bool {
	if len(rawPriv) < 32 {
		return false
	}
	seed := rawPriv[:32]
	if bytes.Contains(file, seed) {
		return true
	}
	var generic map[string]any
	if json.Unmarshal(file, &generic) != nil {
		return false
	}
	var dk map[string][]byte
	if json.Unmarshal(file, &dk) == nil {
		for _, v := range dk {
			if bytes.Contains(v, seed) {
				return true
			}
		}
	}
	for _, enc := range []string{fmt.Sprintf("%x", seed), fmt.Sprintf("%X", seed)} {
		if bytes.Contains(file, []byte(enc)) {
			return true
		}
	}
	return false
}
