package c19

import (
	"bytes"
	"fmt"
	"os"
	"path/filepath"
	"runtime"
	"testing"

	"github.com/libp2p/go-libp2p/core/crypto"
	"pgregory.net/rapid"

	filesigner "github.com/evstack/ev-node/pkg/signer/file"

	"verif/harness/world"
)

// PassSpec describes a pass-phrase compactly (a 10 KiB pass-phrase stays a small scenario):
// Bytes, cycled up to PadTo bytes when PadTo > len(Bytes).
type PassSpec struct {
	Bytes []byte `json:"bytes"`
	PadTo int    `json:"pad_to,omitempty"`
}

func (p PassSpec) materialize() []byte {
	if p.PadTo <= len(p.Bytes) {
		return cp(p.Bytes)
	}
	out := make([]byte, p.PadTo)
	for i := range out {
		if len(p.Bytes) == 0 {
			out[i] = byte('a' + i%26)
		} else {
			out[i] = p.Bytes[i%len(p.Bytes)] + byte(i/len(p.Bytes))
		}
	}
	return out
}

// WrongSpec derives a wrong pass-phrase from the right one.
type WrongSpec struct {
	Kind  string `json:"kind"` // random | flip | shorter | longer | empty
	Idx   int    `json:"idx,omitempty"`
	Byte  uint8  `json:"byte,omitempty"`
	Bytes []byte `json:"bytes,omitempty"`
}

func (w WrongSpec) resolve(right []byte) ([]byte, bool) {
	var out []byte
	switch w.Kind {
	case "random":
		out = cp(w.Bytes)
	case "flip":
		if len(right) == 0 {
			return nil, false
		}
		out = cp(right)
		m := w.Byte
		if m == 0 {
			m = 1
		}
		out[((w.Idx%len(right))+len(right))%len(right)] ^= m // negative = from the end
	case "shorter":
		if len(right) == 0 {
			return nil, false
		}
		out = cp(right[:len(right)-1])
	case "longer":
		out = append(cp(right), w.Byte)
	case "empty":
		out = []byte{}
	case "space":
		switch w.Idx {
		case 0:
			out = append(cp(right), '\n')
		case 1:
			out = append([]byte(" "), right...)
		case 2:
			out = append(cp(right), ' ', '\t')
		case 3:
			out = append(append([]byte("\t"), right...), '\r', '\n')
		default:
			out = bytes.TrimSpace(cp(right))
		}
	default:
		return nil, false
	}
	if bytes.Equal(out, right) {
		return nil, false
	}
	return out, true
}

// RTScenario is one key-roundtrip case.
type RTScenario struct {
	Source   string      `json:"source"`
	KeyLabel string      `json:"key_label,omitempty"`
	Pass     PassSpec    `json:"pass"`
	Nonce    []byte      `json:"nonce,omitempty"` // legacy files: the GCM nonce (12 bytes)
	Wrong    []WrongSpec `json:"wrong"`
	Pass2    PassSpec    `json:"pass2"` // pass-phrase of the re-imported copy
	Msg      []byte      `json:"msg"`
	// Over: what already sits at the import destination (import is the documented way to replace a
	// key file): "" nothing | padded (the original key file, re-indented and padded, i.e. a longer
	// valid file) | junk (longer arbitrary bytes) | short (a few bytes)
	Over string `json:"over,omitempty"`
	// ProcsSave / ProcsLoad: number of CPUs the Go runtime may use (GOMAXPROCS) while the file is written /
	// while it is read (0: unchanged). A key created on a workstation is loaded in a 2-CPU container.
	ProcsSave int `json:"procs_save,omitempty"`
	ProcsLoad int `json:"procs_load,omitempty"`
}

func genPass(t *rapid.T, label string, minLen int) PassSpec {
	for {
		var p PassSpec
		switch rapid.IntRange(0, 9).Draw(t, label+"-shape") {
		case 0:
			p = PassSpec{Bytes: []byte{}}
		case 1:
			p = PassSpec{Bytes: rapid.SliceOfN(rapid.Byte(), 1, 1).Draw(t, label+"-1")}
		case 2, 3:
			n := rapid.SampledFrom([]int{31, 32, 33}).Draw(t, label+"-len")
			p = PassSpec{Bytes: rapid.SliceOfN(rapid.Byte(), 1, 8).Draw(t, label+"-unit"), PadTo: n}
		case 4:
			p = PassSpec{Bytes: rapid.SliceOfN(rapid.Byte(), 0, 8).Draw(t, label+"-unit"), PadTo: 10 * 1024}
		case 5:
			p = PassSpec{Bytes: []byte(rapid.StringMatching(`[ -~]{1,24}`).Draw(t, label+"-text"))}
		case 6, 7:
			p = PassSpec{Bytes: rapid.SliceOfN(rapid.Byte(), 33, 80).Draw(t, label+"-long")}
		default:
			p = PassSpec{Bytes: rapid.SliceOfN(rapid.Byte(), 0, 40).Draw(t, label+"-bytes")}
		}
		if len(p.materialize()) >= minLen {
			return p
		}
	}
}

func genWrong(t *rapid.T) WrongSpec {
	w := WrongSpec{Kind: rapid.SampledFrom([]string{"random", "flip", "flip", "flip", "shorter", "longer", "empty", "space", "space"}).Draw(t, "wrong-kind")}
	if w.Kind == "space" {
		// differs from the right pass-phrase only by surrounding white space (or, when the right one has
		// such white space, by its absence)
		w.Idx = rapid.IntRange(0, 5).Draw(t, "wrong-space")
	}
	switch w.Kind {
	case "random":
		w.Bytes = rapid.SliceOfN(rapid.Byte(), 0, 40).Draw(t, "wrong-bytes")
	case "flip":
		// first byte, last byte (a derivation that drops the tail of a long pass-phrase), anywhere
		switch rapid.IntRange(0, 2).Draw(t, "wrong-where") {
		case 0:
			w.Idx = 0
		case 1:
			w.Idx = -1
		default:
			w.Idx = rapid.IntRange(0, 10*1024).Draw(t, "wrong-idx")
		}
		w.Byte = rapid.Byte().Draw(t, "wrong-mask")
	case "longer":
		w.Byte = rapid.Byte().Draw(t, "wrong-extra")
	}
	return w
}

func genRT(t *rapid.T) RTScenario {
	sc := RTScenario{Source: rapid.SampledFrom([]string{srcCreate, srcCreate, srcImport, srcLegacy}).Draw(t, "source")}
	minLen := 0
	if sc.Source == srcLegacy {
		minLen = 1 // the legacy derivation is undefined for the empty pass-phrase: no such file exists
		sc.Nonce = rapid.SliceOfN(rapid.Byte(), 12, 12).Draw(t, "nonce")
	}
	if sc.Source != srcCreate {
		sc.KeyLabel = rapid.SampledFrom([]string{"k0", "k1", "k2", "k3"}).Draw(t, "key")
	}
	sc.Pass = genPass(t, "pass", minLen)
	nw := rapid.IntRange(1, 2).Draw(t, "nwrong")
	if sc.Source == srcLegacy {
		nw = rapid.IntRange(1, 4).Draw(t, "nwrong-legacy") // no Argon2id: wrong pass-phrases are cheap
	}
	for i := 0; i < nw; i++ {
		sc.Wrong = append(sc.Wrong, genWrong(t))
	}
	sc.Pass2 = genPass(t, "pass2", 0)
	sc.Over = rapid.SampledFrom([]string{"", "", "padded", "junk", "short"}).Draw(t, "over")
	sc.Msg = rapid.SliceOfN(rapid.Byte(), 0, 64).Draw(t, "msg")
	if rapid.IntRange(0, 2).Draw(t, "procs") == 0 {
		sc.ProcsSave = rapid.SampledFrom([]int{1, 2, 3, 4, 8, 64}).Draw(t, "procs-save")
		sc.ProcsLoad = rapid.SampledFrom([]int{1, 2, 3, 4, 8, 64}).Draw(t, "procs-load")
	}
	return sc
}

func passClass(p []byte) string {
	switch n := len(p); {
	case n == 0:
		return "pass:empty"
	case n == 1:
		return "pass:1"
	case n < 31:
		return "pass:2-30"
	case n <= 33:
		return fmt.Sprintf("pass:%d", n)
	case n < 1024:
		return "pass:34-1023"
	default:
		return "pass:>=1KiB"
	}
}

func runRT(sc RTScenario) world.Verdict {
	dirA, err := os.MkdirTemp("", "c19-a-")
	if err != nil {
		panic(err)
	}
	defer os.RemoveAll(dirA)
	dirB, err := os.MkdirTemp("", "c19-b-")
	if err != nil {
		panic(err)
	}
	defer os.RemoveAll(dirB)

	pass := sc.Pass.materialize()
	if sc.Source == srcLegacy && len(pass) == 0 {
		return world.Verdict{Excluded: true}
	}
	labels := []string{"source:" + sc.Source, passClass(pass)}

	if sc.ProcsSave > 0 && sc.ProcsLoad > 0 {
		defer runtime.GOMAXPROCS(runtime.GOMAXPROCS(sc.ProcsSave))
		if sc.ProcsSave != sc.ProcsLoad {
			labels = append(labels, "cpu-count-differs-between-save-and-load")
		}
	}
	base, v := makeBase(dirA, sc.Source, sc.KeyLabel, pass, sc.Nonce)
	if v != nil {
		return *v
	}
	if sc.ProcsSave > 0 && sc.ProcsLoad > 0 {
		runtime.GOMAXPROCS(sc.ProcsLoad)
	}

	// 1. the right pass-phrase loads the same, working, matching key
	o := load(dirA, pass)
	if o.pan != "" {
		return world.Fail(panicSig(o), "Load with the right pass-phrase panicked: %s", o.pan)
	}
	if o.err != nil {
		return world.Fail("C19/right-passphrase-rejected", "a %s key file does not load with the pass-phrase it was saved under (%d bytes): %v", sc.Source, len(pass), o.err)
	}
	if v := checkSigner(o.s, base.id, sc.Msg, "loaded with the right pass-phrase"); v != nil {
		return *v
	}
	loaded := o.s

	// 2. export with the right pass-phrase gives the private key of that public key
	ex := export(dirA, pass)
	if ex.pan != "" {
		return world.Fail(panicSig(ex), "Export with the right pass-phrase panicked: %s", ex.pan)
	}
	if ex.err != nil {
		return world.Fail("C19/export-fails", "ExportPrivateKey with the right pass-phrase failed: %v", ex.err)
	}
	priv, err := crypto.UnmarshalEd25519PrivateKey(cp(ex.raw))
	if err != nil || !priv.GetPublic().Equals(base.id.pub) {
		return world.Fail("C19/export-wrong-key", "ExportPrivateKey returned bytes that are not the private key of the saved public key (err=%v)", err)
	}
	if v := checkNoopAgreement(loaded, ex.raw, "loaded with the right pass-phrase"); v != nil {
		return *v
	}
	// 3. the file protects the key: the private key is not in it in clear
	if containsKeyInClear(base.bytes, ex.raw) {
		return world.Fail("C19/private-key-in-clear", "the key file written by %s contains the private key in clear", sc.Source)
	}

	// 4. wrong pass-phrases neither load nor export, and never panic
	tried := 0
	for i, w := range sc.Wrong {
		wp, ok := w.resolve(pass)
		if !ok {
			labels = append(labels, "wrong:unresolvable")
			continue
		}
		if sc.Source == srcLegacy && len(wp) > 0 && bytes.Equal(legacyKey(wp), legacyKey(pass)) {
			// the legacy format *is* "the 32-byte expansion of the pass-phrase": same credential
			labels = append(labels, "wrong:legacy-same-credential")
			continue
		}
		tried++
		labels = append(labels, "wrong:"+w.Kind)
		lo := load(dirA, wp)
		if lo.pan != "" {
			return world.Fail(panicSig(lo), "Load of a %s file with wrong pass-phrase #%d (%s, %d bytes) panicked: %s", sc.Source, i, w.Kind, len(wp), lo.pan)
		}
		if lo.err == nil {
			return world.Fail("C19/wrong-passphrase-accepted", "a %s key file saved under a %d-byte pass-phrase loads with wrong pass-phrase #%d (%s, %d bytes)", sc.Source, len(pass), i, w.Kind, len(wp))
		}
		if tried > 1 {
			continue // Export derives the key a second time: only with the first wrong pass-phrase
		}
		eo := export(dirA, wp)
		if eo.pan != "" {
			return world.Fail(panicSig(eo), "Export of a %s file with wrong pass-phrase #%d (%s, %d bytes) panicked: %s", sc.Source, i, w.Kind, len(wp), eo.pan)
		}
		if eo.err == nil {
			return world.Fail("C19/wrong-passphrase-exports", "ExportPrivateKey succeeds with wrong pass-phrase #%d (%s, %d bytes)", i, w.Kind, len(wp))
		}
	}

	// 5. export followed by import preserves the key
	pass2 := sc.Pass2.materialize()
	labels = append(labels, "re"+passClass(pass2))
	if sc.Over != "" {
		var prior []byte
		switch sc.Over {
		case "padded":
			orig, _ := os.ReadFile(filepath.Join(dirA, keyFileName))
			prior = append(bytes.ReplaceAll(orig, []byte(","), []byte(",\n    ")), bytes.Repeat([]byte("\n   "), 40)...)
		case "junk":
			prior = bytes.Repeat([]byte("old key file contents "), 200)
		case "short":
			prior = []byte("{}")
		}
		_ = os.MkdirAll(dirB, 0o700)
		if err := os.WriteFile(filepath.Join(dirB, keyFileName), prior, 0o600); err != nil {
			return world.Verdict{Excluded: true}
		}
		labels = append(labels, "import-over:"+sc.Over)
	}
	var ierr error
	io := guarded(func(*outcome) { ierr = filesigner.ImportPrivateKey(dirB, cp(ex.raw), cp(pass2)) })
	if io.pan != "" {
		return world.Fail("C19/import-panics", "ImportPrivateKey of an exported key panicked: %s", io.pan)
	}
	if ierr != nil {
		return world.Fail("C19/import-fails", "ImportPrivateKey of an exported key failed: %v", ierr)
	}
	lo := load(dirB, pass2)
	if lo.pan != "" {
		return world.Fail(panicSig(lo), "Load of the re-imported key panicked: %s", lo.pan)
	}
	if lo.err != nil {
		return world.Fail("C19/reimported-key-does-not-load", "the re-imported key does not load with its pass-phrase (%d bytes): %v", len(pass2), lo.err)
	}
	if v := checkSigner(lo.s, base.id, sc.Msg, "export -> import -> load"); v != nil {
		return *v
	}
	s1, _ := loaded.Sign(cp(sc.Msg))
	s2, _ := lo.s.Sign(cp(sc.Msg))
	if !bytes.Equal(s1, s2) {
		return world.Fail("C19/reimported-key-differs", "the original and the re-imported signer sign the same message differently")
	}
	if tried == 0 && !bytes.Equal(pass, pass2) {
		// (only when no wrong pass-phrase was tried above: every derivation costs an Argon2id run)
		// the copy is protected by its own pass-phrase, not the old one
		xo := load(dirB, pass)
		if xo.pan != "" {
			return world.Fail(panicSig(xo), "Load of the re-imported key with the old pass-phrase panicked: %s", xo.pan)
		}
		if xo.err == nil {
			return world.Fail("C19/wrong-passphrase-accepted", "the re-imported key (pass-phrase of %d bytes) loads with the old pass-phrase (%d bytes)", len(pass2), len(pass))
		}
		tried++
		labels = append(labels, "wrong:old-passphrase")
	}
	// non-trivial: a key was saved, loaded, exported, re-imported, and at least one wrong
	// pass-phrase was tried against it
	return world.OK(tried >= 1, labels...)
}

func TestC19Roundtrip(t *testing.T) {
	world.Run(t, "C19", "key-roundtrip", world.Scale(20, 25), genRT, runRT)
}
