// Package c09 decides C09: DA scanning never skips a height, retries on failure, hands every
// genuine blob to sync and survives any blob bytes.
package c09

import (
	"bytes"
	"context"
	"fmt"
	"os"
	"sync"
	"testing"
	"testing/synctest"
	"time"

	"google.golang.org/protobuf/proto"
	"pgregory.net/rapid"

	"github.com/evstack/ev-node/block"
	"github.com/evstack/ev-node/types"
	pb "github.com/evstack/ev-node/types/pb/evnode/v1"

	"verif/harness/c02gen"
	"verif/harness/fw"
	"verif/harness/pw"
	"verif/harness/sw"
	"verif/harness/world"
)

// Junk is one non-genuine blob.
type Junk struct {
	// Kind: random | truncated | hugevarint | batchmsg | statemsg | empty | flipped
	Kind string `json:"kind"`
	Seed int    `json:"seed"`
	N    int    `json:"n"` // copies (to reach multi-chunk heights)
}

// HeightSpec is what one DA height holds and how fetching it behaves.
type HeightSpec struct {
	Blocks   []int                `json:"blocks"` // offsets of chain blocks whose blobs live here
	Junk     []Junk               `json:"junk,omitempty"`
	Outcomes []world.FetchOutcome `json:"outcomes,omitempty"`
	JunkLast bool                 `json:"junk_last,omitempty"`
}

type Scenario struct {
	InitialHeight uint64       `json:"initial_height"`
	Chain         []pw.Step    `json:"chain"`
	Start         uint64       `json:"start"`
	Heights       []HeightSpec `json:"heights"` // Heights[i] describes DA height Start+i
	// Below is a genuine blob placed below the start height (must never be examined).
	Below bool `json:"below,omitempty"`
	// CustomPayload: the chain signs a non-default payload (ManagerOptions.SignaturePayloadProvider).
	CustomPayload bool `json:"custom_payload,omitempty"`
	// Backlog: both sync event channels are full (sync lags far behind) when the scan starts; sync only
	// resumes consuming later. Nothing found meanwhile may be lost.
	Backlog bool `json:"backlog,omitempty"`
	// ViaClient: the node reads the DA layer through its real DA client (da/jsonrpc), which sees only the
	// text of a remote error.
	ViaClient bool `json:"via_client,omitempty"`
	// Prometheus: the node runs with instrumentation.prometheus = true (labelled collectors).
	Prometheus bool `json:"prometheus,omitempty"`
}

func genOutcomes(t *rapid.T) []world.FetchOutcome {
	n := rapid.SampledFrom([]int{0, 0, 0, 1, 2, 3, 11}).Draw(t, "nout")
	out := []world.FetchOutcome{}
	for i := 0; i < n; i++ {
		k := rapid.SampledFrom([]string{"notfound", "future", "listerr", "chunkerr"}).Draw(t, "outcome")
		o := world.FetchOutcome{Kind: k}
		if k == "chunkerr" {
			o.Chunk = rapid.IntRange(0, 2).Draw(t, "chunk")
		}
		if k == "chunkerr" || k == "listerr" {
			// flavours of a transient failure: generic, deadline exceeded, the DA layer's own deadline /
			// timeout errors, and a call that hangs until the fetch timeout fires
			o.Err = rapid.SampledFrom([]string{"", "", "deadline", "da-deadline", "timeout", "hang", "notfound", "lagging", "nomethod"}).Draw(t, "flavour")
			if k == "listerr" && o.Err == "notfound" {
				o.Err = "" // a listing answered "not found" IS an empty height for the caller (outcome kind notfound), not a fault
			}
		}
		out = append(out, o)
	}
	return out
}

func gen(t *rapid.T) Scenario {
	sc := Scenario{InitialHeight: c02gen.GenInitial(t), Start: uint64(rapid.SampledFrom([]int{0, 1, 2, 7}).Draw(t, "start"))}
	sc.Chain = c02gen.GenChain(t, world.Scale(6, 12))
	nh := rapid.IntRange(1, 6).Draw(t, "nheights")
	sc.Heights = make([]HeightSpec, nh)
	for i := range sc.Chain {
		// out of height order, several per height
		h := rapid.IntRange(0, nh-1).Draw(t, "where")
		sc.Heights[h].Blocks = append(sc.Heights[h].Blocks, i)
		if rapid.IntRange(0, 5).Draw(t, "dup") == 0 {
			h2 := rapid.IntRange(0, nh-1).Draw(t, "where2")
			sc.Heights[h2].Blocks = append(sc.Heights[h2].Blocks, i)
		}
	}
	for i := range sc.Heights {
		nj := rapid.SampledFrom([]int{0, 0, 1, 2, 3}).Draw(t, "njunk")
		for j := 0; j < nj; j++ {
			k := rapid.SampledFrom([]string{"random", "truncated", "hugevarint", "batchmsg", "statemsg", "empty", "flipped"}).Draw(t, "junk")
			n := rapid.SampledFrom([]int{1, 1, 1, 3, 120, 230}).Draw(t, "copies")
			sc.Heights[i].Junk = append(sc.Heights[i].Junk, Junk{Kind: k, Seed: rapid.IntRange(0, 1000).Draw(t, "seed"), N: n})
		}
		sc.Heights[i].Outcomes = genOutcomes(t)
		sc.Heights[i].JunkLast = rapid.Bool().Draw(t, "junklast")
	}
	sc.Below = sc.Start > 0 && rapid.Bool().Draw(t, "below")
	sc.CustomPayload = rapid.IntRange(0, 2).Draw(t, "custompayload") == 0
	sc.Backlog = rapid.IntRange(0, 5).Draw(t, "backlog") == 0
	sc.ViaClient = rapid.IntRange(0, 2).Draw(t, "viaclient") == 0
	sc.Prometheus = rapid.IntRange(0, 3).Draw(t, "prometheus") == 0
	return sc
}

func junkBytes(j Junk, c *fw.Chain, i int) []byte {
	src := c.Blocks[(j.Seed+i)%len(c.Blocks)]
	blob := src.HeaderBlob
	if src.DataBlob != nil && j.Seed%2 == 1 {
		blob = src.DataBlob
	}
	switch j.Kind {
	case "random":
		out := make([]byte, 1+(j.Seed+i)%97)
		x := uint32(j.Seed*7919 + i + 1)
		for k := range out {
			x = x*1664525 + 1013904223
			out[k] = byte(x >> 24)
		}
		return out
	case "truncated":
		n := (j.Seed + i) % len(blob)
		return append([]byte(nil), blob[:n]...)
	case "hugevarint":
		// field 1, length-delimited, absurd length
		return []byte{0x0a, 0xff, 0xff, 0xff, 0xff, 0xff, 0xff, 0xff, 0xff, 0x7f, byte(j.Seed)}
	case "batchmsg":
		b, _ := proto.Marshal(&pb.Batch{Txs: [][]byte{[]byte("x"), {byte(j.Seed), byte(i)}}})
		return b
	case "statemsg":
		b, _ := proto.Marshal(&pb.State{ChainId: "zzz", InitialHeight: uint64(j.Seed), LastBlockHeight: uint64(i)})
		return b
	case "empty":
		return []byte{}
	case "flipped":
		out := append([]byte(nil), blob...)
		out[(j.Seed+i)%len(out)] ^= 0x40
		return out
	}
	return nil
}

type emitted struct {
	mu      sync.Mutex
	headers []*types.SignedHeader
	datas   []*types.Data
}

func run(sc Scenario, dir string) world.Verdict {
	return sw.InBubble(func() world.Verdict {
		root, _ := os.MkdirTemp(dir, "c09")
		defer os.RemoveAll(root)
		c, err := fw.BuildChain(world.NodeOpts{ChainID: "c09-chain", InitialHeight: sc.InitialHeight, RootDir: root + "/p", CustomPayload: sc.CustomPayload}, sc.Chain)
		if err != nil {
			return world.Fail("C09/chain", "cannot build the proposer chain: %v", err)
		}
		da := world.NewDADbl(0)
		// genuine items by DA height
		type gen struct {
			hash   []byte
			isData bool
		}
		genuineAt := map[uint64][]gen{}
		multiChunk, junkNextToGenuine := false, false
		top := sc.Start + uint64(len(sc.Heights)) - 1
		for i, hs := range sc.Heights {
			h := sc.Start + uint64(i)
			placeJunk := func() {
				for _, j := range hs.Junk {
					for k := 0; k < j.N; k++ {
						da.Inject(h, junkBytes(j, c, k))
					}
				}
			}
			if !hs.JunkLast {
				placeJunk()
			}
			for _, off := range hs.Blocks {
				b := c.Blocks[off]
				da.Place(h, b.HeaderBlob)
				genuineAt[h] = append(genuineAt[h], gen{hash: b.HeaderHash})
				if b.DataBlob != nil {
					da.Place(h, b.DataBlob)
					sd, _ := fw.DecodeData(b.DataBlob)
					genuineAt[h] = append(genuineAt[h], gen{hash: sd.Data.DACommitment(), isData: true})
				}
			}
			if hs.JunkLast {
				placeJunk()
			}
			if len(da.At(h)) > 100 {
				multiChunk = true
			}
			if len(hs.Junk) > 0 && len(hs.Blocks) > 0 {
				junkNextToGenuine = true
			}
			da.SetFetchScript(h, hs.Outcomes)
		}
		if sc.Below {
			da.Place(sc.Start-1, c.Blocks[0].HeaderBlob)
		}
		da.SetHead(top)
		o := c.Opts
		o.DAStartHeight = sc.Start
		o.ViaDAClient = sc.ViaClient
		o.Prometheus = sc.Prometheus
		cc := *c
		cc.Opts = o
		f, err := fw.NewFull(&cc, root+"/f", da)
		if err != nil {
			return world.Fail("C09/start", "full node does not start: %v", err)
		}
		m := f.N.M
		if got := m.VerifDAHeight(); got != sc.Start {
			return world.Fail("C09/start-height", "scan cursor starts at %d, configured start is %d", got, sc.Start)
		}
		// the real RetrieveLoop, with a recover so that a panic becomes a verdict instead of killing the run
		ctx, cancel := context.WithCancel(context.Background())
		var wg sync.WaitGroup
		var loopPanic any
		loopDone := false
		em := &emitted{}
		wg.Add(2)
		go func() {
			defer wg.Done()
			defer func() {
				if r := recover(); r != nil {
					loopPanic = r
				}
				loopDone = true
			}()
			m.RetrieveLoop(ctx)
		}()
		resume := make(chan struct{})
		if sc.Backlog {
			// fill both event channels to capacity with events sync has not got round to yet
			dh, _ := fw.DecodeHeader(c.Blocks[0].HeaderBlob)
			dh.SetCustomVerifier(c.Opts.Payload())
			dd := &types.Data{Metadata: &types.Metadata{ChainID: "backlog", Height: 1}}
			for i := 0; i < block.VerifEventInChLength; i++ {
				m.VerifHeaderInCh() <- block.NewHeaderEvent{Header: dh, DAHeight: 0}
				m.VerifDataInCh() <- block.NewDataEvent{Data: dd, DAHeight: 0}
			}
		} else {
			close(resume)
		}
		go func() {
			defer wg.Done()
			select {
			case <-ctx.Done():
				return
			case <-resume:
			}
			for {
				select {
				case <-ctx.Done():
					return
				case e := <-m.VerifHeaderInCh():
					em.mu.Lock()
					em.headers = append(em.headers, e.Header)
					em.mu.Unlock()
				case e := <-m.VerifDataInCh():
					em.mu.Lock()
					em.datas = append(em.datas, e.Data)
					em.mu.Unlock()
				}
			}
		}()
		defer func() { cancel(); wg.Wait() }()
		nOutcomes := 0
		for _, hs := range sc.Heights {
			nOutcomes += len(hs.Outcomes)
		}
		signals := nOutcomes + len(sc.Heights) + 6
		for s := 0; s < signals && loopPanic == nil; s++ {
			if sc.Backlog && s == 2 {
				close(resume) // sync catches up and starts consuming
			}
			select {
			case m.VerifRetrieveCh() <- struct{}{}:
			default:
			}
			time.Sleep(32 * time.Second) // the 10 x 100 ms retries and a hanging fetch's 30 s timeout elapse in virtual time
			synctest.Wait()
		}
		if loopPanic != nil {
			return world.Fail("C09/scan-panic", "the DA scan panicked: %v", loopPanic)
		}
		if loopDone {
			return world.Fail("C09/scan-stopped", "the DA scan loop returned although it was not cancelled")
		}
		// --- oracle on the DA call log
		calls := da.Calls(0)
		cur := sc.Start
		first := true
		// state of the examination of height cur
		okToAdvance := false
		failedOutcome, successAfterFailure := false, false
		pendingChunks := 0
		succeeded := map[uint64]bool{}
		for _, call := range calls {
			switch call.Op {
			case "getids":
				if first {
					if call.Height != sc.Start {
						return world.Fail("C09/first-height", "the first height examined is %d, configured start is %d", call.Height, sc.Start)
					}
					first = false
				} else if call.Height == cur+1 {
					if !okToAdvance {
						return world.Fail("C09/skipped-failed-height", "the scan moved on to height %d although the examination of height %d had not succeeded", call.Height, cur)
					}
					cur = call.Height
				} else if call.Height != cur {
					return world.Fail("C09/height-jump", "the scan examined height %d after height %d", call.Height, cur)
				}
				okToAdvance = false
				pendingChunks = 0
				switch call.Outcome {
				case "empty", "notfound":
					okToAdvance = true
					succeeded[call.Height] = true
				case "ok":
					pendingChunks = (call.NIDs + 99) / 100
				default:
					failedOutcome = true
				}
			case "get":
				if call.Outcome == "ok" {
					if pendingChunks > 0 {
						pendingChunks--
						if pendingChunks == 0 {
							okToAdvance = true
							succeeded[call.Height] = true
							if failedOutcome {
								successAfterFailure = true
							}
						}
					}
				} else {
					pendingChunks = 0
					failedOutcome = true
				}
			}
		}
		if sc.Below {
			for _, call := range calls {
				if call.Op == "getids" && call.Height < sc.Start {
					return world.Fail("C09/below-start", "height %d below the configured start %d was examined", call.Height, sc.Start)
				}
			}
		}
		// every outcome script is finite, so the scan must have got past the last populated height
		if cur < top || !succeeded[top] {
			return world.Fail("C09/stalled", "all fetch failures are over, yet the scan is at height %d and has not completed height %d", cur, top)
		}
		if got := m.VerifDAHeight(); got != top+1 {
			return world.Fail("C09/cursor", "scan cursor is %d after every height up to %d was examined", got, top)
		}
		// --- every genuine blob at a successfully examined height was handed to sync; everything handed on is admissible
		em.mu.Lock()
		defer em.mu.Unlock()
		gotH := map[string]bool{}
		gotD := map[string]bool{}
		for _, h := range em.headers {
			gotH[string(h.Hash())] = true
			if !m.VerifIsExpectedSequencer(h) {
				return world.Fail("C09/inadmissible-header-emitted", "a header that fails the admission test was handed to sync (height %d)", h.Height())
			}
			if !bytes.Equal(h.ProposerAddress, c.P.N.Genesis.ProposerAddress) {
				return world.Fail("C09/inadmissible-header-emitted", "a header of a foreign proposer was handed to sync")
			}
		}
		for _, d := range em.datas {
			gotD[string(d.DACommitment())] = true
		}
		for h, gs := range genuineAt {
			if !succeeded[h] {
				continue
			}
			for _, g := range gs {
				if g.isData && !gotD[string(g.hash)] {
					return world.Fail("C09/genuine-data-not-emitted", "height %d was examined successfully but a genuine data blob stored there was not handed to sync", h)
				}
				if !g.isData && !gotH[string(g.hash)] {
					return world.Fail("C09/genuine-header-not-emitted", "height %d was examined successfully but a genuine header blob stored there was not handed to sync", h)
				}
			}
		}
		ls := []string{}
		if multiChunk {
			ls = append(ls, "multi-chunk")
		}
		if junkNextToGenuine {
			ls = append(ls, "junk-next-to-genuine")
		}
		if successAfterFailure {
			ls = append(ls, "success-after-failure")
		}
		if sc.CustomPayload {
			ls = append(ls, "custom-signature-payload")
		}
		if sc.Backlog {
			ls = append(ls, "sync-backlog-full")
		}
		if sc.Prometheus {
			ls = append(ls, "prometheus-metrics")
		}
		if sc.ViaClient {
			ls = append(ls, "through-the-real-da-client")
			for _, hs := range sc.Heights {
				for _, o := range hs.Outcomes {
					if o.Err == "lagging" || o.Err == "nomethod" {
						ls = append(ls, "remote-error-saying-not-found-about-something-else")
					}
				}
			}
		}
		return world.OK(successAfterFailure && junkNextToGenuine && multiChunk, ls...)
	})
}

func TestC09(t *testing.T) {
	dir := t.TempDir()
	world.Run(t, "C09", "da-scan", world.Scale(200, 1500), gen, func(sc Scenario) world.Verdict { return run(sc, dir) })
}

var _ = fmt.Sprint
var _ = block.VerifEventInChLength
