package c09

import (
	"fmt"
	"strings"
	"testing"

	"pgregory.net/rapid"

	"verif/harness/c02gen"
	"verif/harness/world"
)

// TestC09ScanAcrossRestarts: the DA scan of a node that is stopped or killed and started again, with the
// unmodified retrieve, sync and inclusion loops (real-ingress driver): in every life of the process the
// examined DA heights begin at the configured start, never decrease and never step over a height, and
// every genuine blob on the DA layer ends up applied (both parts of every block up to the deliverable
// prefix are there).
func TestC09ScanAcrossRestarts(t *testing.T) {
	dir := t.TempDir()
	world.Run(t, "C09", "scan-across-restarts", world.Scale(80, 500), func(t *rapid.T) c02gen.ScenarioB {
		sc := c02gen.GenB(t, world.Scale(8, 16), true)
		// at least one crash restart after the node had time to mark something DA-included
		sc.Ops = append(sc.Ops, c02gen.OpB{Kind: "da-advance", N: 3}, c02gen.OpB{Kind: "tick", N: 2}, c02gen.OpB{Kind: "crash"})
		if rapid.IntRange(0, 2).Draw(t, "readfaults") == 0 {
			maxDA := uint64(1)
			for _, pl := range sc.Placements {
				if pl.DAHeight > maxDA {
					maxDA = pl.DAHeight
				}
			}
			sc.FetchFaults = c02gen.GenFetchFaults(t, maxDA)
		}
		return sc
	}, func(sc c02gen.ScenarioB) world.Verdict {
		livesOf := map[*c02gen.BRun][]int{} // per run: index into the DA call log at which each life of the process begins
		return c02gen.RunB(sc, dir, "C09",
			func(r *c02gen.BRun, when string) *world.Problem {
				if strings.Contains(when, "(restart)") || strings.Contains(when, "(crash)") {
					livesOf[r] = append(livesOf[r], r.F.DA.NumCalls())
				}
				return nil
			},
			func(r *c02gen.BRun) *world.Problem {
				calls := r.F.DA.Calls(0)
				lives := append([]int{0}, livesOf[r]...)
				start := uint64(0)
				haveStart := false
				for li, from := range lives {
					to := len(calls)
					if li+1 < len(lives) {
						to = lives[li+1]
					}
					var last uint64
					first := true
					for _, c := range calls[from:to] {
						if c.Op != "getids" {
							continue
						}
						if first {
							first = false
							if !haveStart {
								start, haveStart = c.Height, true
							} else if c.Height != start {
								return &world.Problem{Sig: "scan-start-moved", Msg: fmt.Sprintf("life %d of the process begins its DA scan at height %d, the first life began at the configured start %d", li+1, c.Height, start)}
							}
						} else if c.Height < last {
							return &world.Problem{Sig: "scan-went-back", Msg: fmt.Sprintf("life %d: DA height %d examined after %d", li+1, c.Height, last)}
						} else if c.Height > last+1 {
							return &world.Problem{Sig: "scan-skipped", Msg: fmt.Sprintf("life %d: DA height %d examined right after %d", li+1, c.Height, last)}
						}
						last = c.Height
					}
				}
				got, _ := r.F.N.Store.Height(r.C.P.Ctx)
				if got != r.HStar && !(got == 0 && r.HStar == r.C.Opts.InitialHeight-1) {
					return &world.Problem{Sig: "genuine-blob-not-applied", Msg: fmt.Sprintf("both parts of every block up to %d are on the DA layer / in the P2P stores, after %d restart(s) the node stopped at height %d: a genuine blob was not handed to sync", r.HStar, len(lives)-1, got)}
				}
				return nil
			})
	})
}
