// Package c10 decides C10: the single sequencer's batch queue is a durable FIFO with
// exactly-once delivery — every accepted batch is handed out once, in acceptance order, also
// across restarts and crashes between durable writes; rejected submissions leave no trace and
// the queue bound is respected.
//
// Three checks:
//   - fifo-model:  rapid histories of submit / next / restart / crash-at-durable-op / failed write
//     against a reference FIFO model (a *set* of admissible queues where a crash makes the outcome
//     of the interrupted call undecided).
//   - crash-enum:  rapid crash-free histories; for each one EVERY durable-op boundary of the whole
//     history is tried as the crash point (the op is not applied, the process restarts from the
//     image, the rest of the history continues) and judged by the same model.
//   - concurrent:  S submitter goroutines and one consumer on one sequencer (run under -race),
//     optional restart at quiescence; multiset equality and per-submitter order.
package c10

import (
	"bytes"
	"context"
	"errors"
	"fmt"
	"runtime"
	"sort"
	"strings"
	"sync"
	"sync/atomic"
	"testing"
	"time"

	ds "github.com/ipfs/go-datastore"
	logging "github.com/ipfs/go-log/v2"
	"pgregory.net/rapid"

	coresequencer "github.com/evstack/ev-node/core/sequencer"
	single "github.com/evstack/ev-node/sequencers/single"

	"verif/harness/world"
)

// ---------------------------------------------------------------------------------------------
// scenario
// ---------------------------------------------------------------------------------------------

// Op is one step of a history. All references are relative and resolved at run time.
type Op struct {
	Kind string `json:"kind"` // submit | next | restart
	// submit only:
	Shape     string   `json:"shape,omitempty"`    // fresh | dup | empty | nil
	Txs       [][]byte `json:"txs,omitempty"`      // contents of a fresh batch (fallback of dup)
	DupBack   int      `json:"dup_back,omitempty"` // dup: contents of the (DupBack+1)-th most recent non-empty submission
	Foreign   bool     `json:"foreign,omitempty"`  // submit under ForeignID instead of the chain id
	ForeignID []byte   `json:"foreign_id,omitempty"`
	PutErr    bool     `json:"put_err,omitempty"` // the first durable write of this submit fails with an I/O error
	// submit and next: the CrashAt-th durable op of this call is not applied and the process dies
	// (0 = no crash; if the call performs fewer durable ops the process dies right after the call).
	CrashAt int `json:"crash_at,omitempty"`
	// restart only: the first ReadFaults queries of the datastore during start-up fail with an I/O error
	// (a read fault changes nothing on disk). A start that is refused is simply tried again.
	ReadFaults int `json:"read_faults,omitempty"`
	// restart only: the operator changes the queue bound (max_queue_size) for the next process life time
	SetBound bool `json:"set_bound,omitempty"`
	NewBound int  `json:"new_bound,omitempty"` // 0 = unbounded
}

type Scenario struct {
	ChainID      []byte `json:"chain_id"`
	Bound        int    `json:"bound"` // 0 = unbounded
	Ops          []Op   `json:"ops"`
	FinalRestart bool   `json:"final_restart,omitempty"` // restart once more before the final drain
	// QueryOrder: iteration order of the datastore for unordered queries ("" = lexicographic like badger,
	// "reverse", "scrambled" like a map): go-datastore promises none
	QueryOrder string `json:"query_order,omitempty"`
}

var tinyTxs = []string{"", "a", "b", "aa", "ab", "zz", "mm"}

func genTxs(t *rapid.T) [][]byte {
	n := rapid.IntRange(1, 3).Draw(t, "ntx")
	out := make([][]byte, 0, n)
	for i := 0; i < n; i++ {
		if rapid.IntRange(0, 2).Draw(t, "txshape") == 0 {
			out = append(out, []byte(rapid.SampledFrom(tinyTxs).Draw(t, "tiny")))
		} else {
			out = append(out, rapid.SliceOfN(rapid.Byte(), 0, 12).Draw(t, "tx"))
		}
	}
	return out
}

func genChainID(t *rapid.T) []byte {
	switch rapid.IntRange(0, 5).Draw(t, "cid") {
	case 0:
		return []byte{}
	case 1:
		return rapid.SliceOfN(rapid.Byte(), 1, 8).Draw(t, "cidbytes")
	default:
		return []byte("c10-chain")
	}
}

func genForeign(t *rapid.T, chain []byte) []byte {
	switch rapid.IntRange(0, 4).Draw(t, "fid") {
	case 0:
		return append(append([]byte{}, chain...), 0)
	case 1:
		if len(chain) > 0 {
			return append([]byte{}, chain[:len(chain)-1]...)
		}
		return []byte("x")
	case 2:
		if len(chain) > 0 {
			return []byte{}
		}
		return []byte{0}
	default:
		return rapid.SliceOfN(rapid.Byte(), 0, 10).Draw(t, "fidbytes")
	}
}

func genOp(t *rapid.T, chain []byte, faults bool) Op {
	var op Op
	k := rapid.IntRange(0, 19).Draw(t, "kind")
	switch {
	case k <= 10:
		op.Kind = "submit"
		s := rapid.IntRange(0, 15).Draw(t, "shape")
		switch {
		case s <= 6:
			op.Shape = "fresh"
			op.Txs = genTxs(t)
		case s <= 13: // about half of the non-empty submissions repeat earlier contents
			op.Shape = "dup"
			op.DupBack = rapid.IntRange(0, 3).Draw(t, "dupback")
			op.Txs = genTxs(t)
		case s == 14:
			op.Shape = "empty"
		default:
			op.Shape = "nil"
		}
		if rapid.IntRange(0, 11).Draw(t, "foreign") == 0 {
			op.Foreign = true
			op.ForeignID = genForeign(t, chain)
		}
		if faults && rapid.IntRange(0, 15).Draw(t, "puterr") == 0 {
			op.PutErr = true
		}
	case k <= 16:
		op.Kind = "next"
		if rapid.IntRange(0, 9).Draw(t, "foreignnext") == 0 {
			// a request naming another chain: refused, and the queue is as it was
			op.Foreign = true
			op.ForeignID = genForeign(t, chain)
		}
	default:
		op.Kind = "restart"
		if faults && rapid.IntRange(0, 3).Draw(t, "readfault") == 0 {
			op.ReadFaults = rapid.IntRange(1, 2).Draw(t, "readfaults")
		}
		if rapid.IntRange(0, 3).Draw(t, "rebound") == 0 {
			op.SetBound = true
			op.NewBound = rapid.IntRange(0, 5).Draw(t, "newbound")
		}
	}
	if faults && op.Kind != "restart" && !op.PutErr && rapid.IntRange(0, 7).Draw(t, "crash") == 0 {
		// mostly the first durable op of the call (the only one of the pinned implementation)
		op.CrashAt = rapid.SampledFrom([]int{1, 1, 1, 2, 2, 3}).Draw(t, "crashat")
	}
	return op
}

func genHistory(t *rapid.T, faults bool, maxOps int) Scenario {
	var sc Scenario
	sc.ChainID = genChainID(t)
	switch rapid.IntRange(0, 3).Draw(t, "boundkind") {
	case 0:
		sc.Bound = 0
	default:
		sc.Bound = rapid.IntRange(1, 5).Draw(t, "bound")
	}
	n := rapid.IntRange(1, maxOps).Draw(t, "nops")
	for i := 0; i < n; i++ {
		sc.Ops = append(sc.Ops, genOp(t, sc.ChainID, faults))
	}
	sc.FinalRestart = rapid.Bool().Draw(t, "finalrestart")
	sc.QueryOrder = rapid.SampledFrom([]string{"", "", "reverse", "scrambled"}).Draw(t, "queryorder")
	return sc
}

// ---------------------------------------------------------------------------------------------
// world + reference model
// ---------------------------------------------------------------------------------------------

const queuePrefix = "/batches/"

// unrelated keys that live in the same datastore (the node store shares it in the real wiring)
var bystanders = map[string][]byte{
	"/0/s":           []byte("state"),
	"/0/t":           {0, 0, 0, 0, 0, 0, 0, 9},
	"/zz/after":      []byte("sorted after the queue prefix"),
	"/batch":         []byte("prefix of the prefix"),
	"/batchesX/data": []byte("sibling that merely starts with the same letters"),
}

type rec struct {
	txs   [][]byte
	epoch int  // number of process lives that had ended when it was submitted
	twin  bool // was queued together with another batch of identical contents
}

type wld struct {
	ctx    context.Context
	sc     Scenario
	d      *world.CrashDS
	s      *single.Sequencer
	recs   []rec
	cands  [][]int // admissible queues (ids into recs); more than one only after a crash
	epoch  int
	handed [][][]byte // contents handed out so far
	refuse [][][]byte // contents of refused submissions
	subs   [][][]byte // contents of all non-empty submissions so far (dup reference)

	labels    map[string]bool
	obs       map[string]bool
	nt        bool
	lastEmpty bool // the last GetNextBatch completed and handed out nothing
}

var logger = logging.Logger("c10")

func eqTxs(a, b [][]byte) bool {
	if len(a) != len(b) {
		return false
	}
	for i := range a {
		if !bytes.Equal(a[i], b[i]) {
			return false
		}
	}
	return true
}

func showTxs(t [][]byte) string {
	if len(t) == 0 {
		return "<no batch>"
	}
	p := make([]string, len(t))
	for i, x := range t {
		p[i] = fmt.Sprintf("%x", x)
	}
	return "[" + strings.Join(p, ",") + "]"
}

func (w *wld) showQueue(c []int) string {
	p := make([]string, len(c))
	for i, id := range c {
		p[i] = fmt.Sprintf("#%d%s", id, showTxs(w.recs[id].txs))
	}
	return "{" + strings.Join(p, " ") + "}"
}

func imageEqual(a, b map[string][]byte) (bool, string) {
	for k, v := range a {
		bv, ok := b[k]
		if !ok {
			return false, "key " + k + " disappeared"
		}
		if !bytes.Equal(v, bv) {
			return false, "value of key " + k + " changed"
		}
	}
	for k := range b {
		if _, ok := a[k]; !ok {
			return false, "key " + k + " appeared"
		}
	}
	return true, ""
}

func (w *wld) open() error {
	s, err := single.NewSequencerWithQueueSize(w.ctx, logger, w.d, nil, w.sc.ChainID, time.Second, nil, true, w.sc.Bound)
	if err != nil {
		return err
	}
	w.s = s
	return nil
}

func dedupe(cs [][]int) [][]int {
	seen := map[string]bool{}
	out := [][]int{}
	for _, c := range cs {
		k := fmt.Sprint(c)
		if !seen[k] {
			seen[k] = true
			out = append(out, c)
		}
	}
	return out
}

func (w *wld) minLen() int {
	m := -1
	for _, c := range w.cands {
		if m < 0 || len(c) < m {
			m = len(c)
		}
	}
	return m
}

// reboot ends the current process life (clean restart, or crash: the datastore is dead and the
// next life starts from its image) and starts a new sequencer. A crash inside the start-up
// itself is survived by starting again.
func (w *wld) reboot(why string) *world.Verdict { return w.rebootFaulty(why, 0) }

func (w *wld) rebootFaulty(why string, readFaults int) *world.Verdict {
	defer func() { w.d.FailQueries(0) }()
	if w.minLen() >= 2 {
		w.nt = true
		w.labels["restart-with>=2-queued"] = true
	}
	w.labels[why] = true
	w.epoch++
	for attempt := 0; ; attempt++ {
		if w.d.Dead() {
			w.d = world.FromImage(w.d.Image())
			w.d.QueryOrder = w.sc.QueryOrder
		}
		var err error
		if attempt == 0 && readFaults > 0 {
			w.d.FailQueries(readFaults)
			w.labels["read-fault-during-startup"] = true
		}
		pan, crashed := guarded(func() { err = w.open() })
		if err != nil && readFaults > 0 && attempt < 4 && pan == nil && !crashed {
			// refused to start on a store it could not read: the operator (or supervisor) starts it again
			w.labels["start-refused-on-read-fault"] = true
			w.d.FailQueries(0)
			continue
		}
		if crashed && attempt < 4 {
			w.labels["crash-during-startup"] = true
			continue
		}
		if pan != nil {
			v := world.Fail("C10/restart-panicked", "starting the sequencer on the datastore left by %s panicked: %v", why, pan)
			return &v
		}
		if crashed {
			v := world.Fail("C10/restart-keeps-crashing", "start-up performed durable writes on each of %d attempts", attempt+1)
			return &v
		}
		if err != nil {
			v := world.Fail("C10/restart-failed", "starting the sequencer on the datastore left by %s failed: %v", why, err)
			return &v
		}
		return nil
	}
}

// guarded runs f; crashed reports the crash sentinel, pan any other panic value.
func guarded(f func()) (pan any, crashed bool) {
	defer func() {
		if r := recover(); r != nil {
			if _, ok := r.(world.CrashPanic); ok {
				crashed = true
				return
			}
			pan = r
		}
	}()
	f()
	return nil, false
}

func (w *wld) noTrace(i int, before map[string][]byte, why string) *world.Verdict {
	if ok, diff := imageEqual(before, w.d.Image()); !ok {
		v := world.Fail("C10/rejected-submission-left-trace:"+why, "op %d: a submission that was not accepted (%s) changed the datastore: %s", i, why, diff)
		return &v
	}
	return nil
}

func (w *wld) submit(i int, op Op) *world.Verdict {
	var batch *coresequencer.Batch
	var txs [][]byte
	switch op.Shape {
	case "nil":
		batch = nil
	case "empty":
		batch = &coresequencer.Batch{Transactions: [][]byte{}}
	case "dup":
		if n := len(w.subs); n > 0 {
			txs = w.subs[n-1-op.DupBack%n]
		} else {
			txs = op.Txs
		}
	default:
		txs = op.Txs
	}
	if len(txs) > 0 {
		cp := make([][]byte, len(txs))
		for k := range txs {
			cp[k] = append([]byte{}, txs[k]...)
		}
		batch = &coresequencer.Batch{Transactions: cp}
		w.subs = append(w.subs, txs)
	} else if op.Shape == "fresh" || op.Shape == "dup" {
		batch = &coresequencer.Batch{}
	}
	id := w.sc.ChainID
	foreign := false
	if op.Foreign && !bytes.Equal(op.ForeignID, w.sc.ChainID) {
		id = op.ForeignID
		foreign = true
		w.labels["foreign-id"] = true
	}
	empty := len(txs) == 0
	if empty {
		w.labels["empty-submission"] = true
	}
	before := w.d.Image()
	armed := false
	if op.CrashAt > 0 {
		w.d.ArmCrashAfter(op.CrashAt - 1)
		armed = true
	} else if op.PutErr {
		w.d.ArmErrorAfter(0)
		armed = true
	}
	ops0 := w.d.Ops()
	var err error
	pan, crashed := guarded(func() {
		_, err = w.s.SubmitBatchTxs(w.ctx, coresequencer.SubmitBatchTxsRequest{Id: id, Batch: batch})
	})
	wrote := w.d.Ops() > ops0
	if armed && !w.d.Dead() {
		w.d.Disarm()
	}
	newID := -1
	if !foreign && !empty {
		newID = len(w.recs)
	}
	if crashed || pan != nil {
		// the call never returned: the caller cannot know whether the batch was taken
		if pan != nil {
			w.obs["panic-in-submit"] = true
		}
		if newID >= 0 {
			w.recs = append(w.recs, rec{txs: txs, epoch: w.epoch})
			next := [][]int{}
			for _, c := range w.cands {
				next = append(next, c)
				if w.sc.Bound <= 0 || len(c) < w.sc.Bound {
					next = append(next, append(append([]int{}, c...), newID))
				}
			}
			w.cands = dedupe(next)
			w.markTwins(newID)
		}
		return w.reboot("crash-in-submit")
	}
	switch {
	case foreign:
		if !errors.Is(err, single.ErrInvalidId) {
			v := world.Fail("C10/foreign-chain-id-not-rejected", "op %d: a submission under chain id %x was answered with err=%v by the sequencer of chain %x", i, id, err, w.sc.ChainID)
			return &v
		}
		if v := w.noTrace(i, before, "foreign"); v != nil {
			return v
		}
	case empty:
		if v := w.noTrace(i, before, "empty"); v != nil {
			return v
		}
	case err == nil:
		keep := [][]int{}
		for _, c := range w.cands {
			if w.sc.Bound <= 0 || len(c) < w.sc.Bound {
				keep = append(keep, append(append([]int{}, c...), newID))
			}
		}
		w.recs = append(w.recs, rec{txs: txs, epoch: w.epoch})
		if len(keep) == 0 {
			v := world.Fail("C10/bound-exceeded", "op %d: a batch was accepted although %d accepted batches were not yet handed out and the bound is %d (queue %s)", i, w.minLen(), w.sc.Bound, w.showQueue(w.cands[0]))
			return &v
		}
		w.cands = dedupe(keep)
		w.markTwins(newID)
		if op.PutErr && wrote {
			w.labels["accepted-despite-write-error"] = true
		}
	case errors.Is(err, single.ErrQueueFull):
		w.labels["full-rejection"] = true
		w.refuse = append(w.refuse, txs)
		if v := w.noTrace(i, before, "full"); v != nil {
			return v
		}
		// the statement promises the bound, not the absence of early refusals: a refusal while no
		// admissible queue is full is recorded as an observation and never narrows the model
		full := false
		for _, c := range w.cands {
			if w.sc.Bound > 0 && len(c) >= w.sc.Bound {
				full = true
			}
		}
		if !full {
			w.obs["full-rejection-below-bound"] = true
		}
	default:
		w.refuse = append(w.refuse, txs)
		if op.PutErr && wrote {
			w.labels["write-error-rejection"] = true
		} else {
			w.obs["submit-error-without-fault"] = true
		}
		if v := w.noTrace(i, before, "error"); v != nil {
			return v
		}
	}
	if op.CrashAt > 0 {
		return w.reboot("killed-after-submit")
	}
	return nil
}

func (w *wld) markTwins(id int) {
	for _, c := range w.cands {
		has := false
		for _, x := range c {
			if x == id {
				has = true
			}
		}
		if !has {
			continue
		}
		for _, x := range c {
			if x != id && eqTxs(w.recs[x].txs, w.recs[id].txs) {
				w.recs[x].twin = true
				w.recs[id].twin = true
				w.nt = true
				w.labels["equal-contents-queued-together"] = true
			}
		}
	}
}

func (w *wld) next(i int, op Op, when string) *world.Verdict {
	if op.CrashAt > 0 {
		w.d.ArmCrashAfter(op.CrashAt - 1)
	}
	w.lastEmpty = false
	foreignNext := op.Foreign && !bytes.Equal(op.ForeignID, w.sc.ChainID)
	var resp *coresequencer.GetNextBatchResponse
	var err error
	pan, crashed := guarded(func() {
		id := w.sc.ChainID
		if foreignNext {
			id = op.ForeignID
		}
		resp, err = w.s.GetNextBatch(w.ctx, coresequencer.GetNextBatchRequest{Id: id})
	})
	if op.CrashAt > 0 && !w.d.Dead() {
		w.d.Disarm()
	}
	if crashed || pan != nil {
		if pan != nil {
			w.obs["panic-in-next"] = true
		}
		// nothing was returned: the head batch may or may not be handed out later; the order of
		// the others is unchanged
		nx := [][]int{}
		for _, c := range w.cands {
			nx = append(nx, c)
			if len(c) > 0 {
				nx = append(nx, c[1:])
			}
		}
		w.cands = dedupe(nx)
		return w.reboot("crash-in-next")
	}
	if foreignNext && !crashed && pan == nil {
		// a request under a foreign chain id hands out nothing and leaves no trace: the model is unchanged
		// (a batch popped behind the refusal shows up as a lost batch in the later observations)
		if err == nil && resp != nil && resp.Batch != nil && len(resp.Batch.Transactions) > 0 {
			v := world.Fail("C10/foreign-next-handed-out", "%s: GetNextBatch under a foreign chain id %q handed out a batch of %d transactions", when, op.ForeignID, len(resp.Batch.Transactions))
			return &v
		}
		w.labels["foreign-id-next"] = true
		if op.CrashAt > 0 {
			return w.reboot("killed-after-next")
		}
		return nil
	}
	if err != nil {
		w.obs["next-error-without-fault"] = true
		return nil
	}
	var got [][]byte
	if resp != nil && resp.Batch != nil {
		got = resp.Batch.Transactions
	}
	if v := w.observe(got, when); v != nil {
		return v
	}
	if op.CrashAt > 0 {
		return w.reboot("killed-after-next")
	}
	return nil
}

// observe matches what a completed GetNextBatch returned against the admissible queues.
func (w *wld) observe(got [][]byte, when string) *world.Verdict {
	keep := [][]int{}
	for _, c := range w.cands {
		if len(got) == 0 {
			if len(c) == 0 {
				keep = append(keep, c)
			}
			continue
		}
		if len(c) > 0 && eqTxs(w.recs[c[0]].txs, got) {
			keep = append(keep, c[1:])
		}
	}
	if len(keep) == 0 {
		sig, msg := w.classify(got)
		v := world.Fail(sig, "%s: %s", when, msg)
		return &v
	}
	if len(w.cands) > 1 {
		w.labels["undecided-outcome-resolved-by-observation"] = true
	}
	w.cands = dedupe(keep)
	w.lastEmpty = len(got) == 0
	if len(got) > 0 {
		w.handed = append(w.handed, got)
		w.labels["handed-out"] = true
	}
	return nil
}

func containsTxs(list [][][]byte, t [][]byte) bool {
	for _, x := range list {
		if eqTxs(x, t) {
			return true
		}
	}
	return false
}

// classify names the root-cause class of a mismatch between what was handed out and every
// admissible queue (reported against the first one).
func (w *wld) classify(got [][]byte) (string, string) {
	c := w.cands[0]
	for _, cc := range w.cands { // prefer a non-empty admissible queue for the report
		if len(cc) > 0 {
			c = cc
			break
		}
	}
	ctx := fmt.Sprintf("handed out %s, model queue %s (%d admissible), %d process restarts so far", showTxs(got), w.showQueue(c), len(w.cands), w.epoch)
	if len(c) > 0 {
		head := w.recs[c[0]]
		restarted := head.epoch < w.epoch
		if head.twin && restarted {
			return "C10/equal-contents-batch-lost-after-restart", "batch #" + fmt.Sprint(c[0]) + " was queued together with a batch of identical contents and is gone after a restart: " + ctx
		}
		if len(got) == 0 {
			if restarted {
				return "C10/batch-lost-after-restart", "accepted batch not handed out after a restart: " + ctx
			}
			return "C10/batch-lost-without-restart", "accepted batch not handed out: " + ctx
		}
		for j := 1; j < len(c); j++ {
			if eqTxs(w.recs[c[j]].txs, got) {
				if restarted {
					return "C10/order-changed-by-restart", fmt.Sprintf("batch at queue position %d handed out before the head after a restart: %s", j, ctx)
				}
				return "C10/order-changed-without-restart", fmt.Sprintf("batch at queue position %d handed out before the head: %s", j, ctx)
			}
		}
	}
	if containsTxs(w.handed, got) {
		if w.epoch > 0 {
			return "C10/handed-out-batch-reappeared-after-restart", "a batch that had been handed out was handed out again: " + ctx
		}
		return "C10/handed-out-batch-reappeared", "a batch that had been handed out was handed out again: " + ctx
	}
	for id, r := range w.recs {
		if eqTxs(r.txs, got) {
			// an accepted (or crash-undecided) batch that no admissible queue expects at this point
			if r.epoch < w.epoch {
				return "C10/order-changed-by-restart", fmt.Sprintf("batch #%d handed out at a position no admissible order allows after a restart: %s", id, ctx)
			}
			return "C10/order-changed-without-restart", fmt.Sprintf("batch #%d handed out at a position no admissible order allows: %s", id, ctx)
		}
	}
	if containsTxs(w.refuse, got) {
		return "C10/refused-submission-handed-out", "a submission that was answered with an error was handed out: " + ctx
	}
	return "C10/unknown-batch-handed-out", "a batch that was never accepted was handed out: " + ctx
}

func (w *wld) verdictOK() world.Verdict {
	ls := []string{}
	for l := range w.labels {
		ls = append(ls, l)
	}
	sort.Strings(ls)
	if w.sc.Bound == 0 {
		ls = append(ls, "unbounded")
	} else {
		ls = append(ls, "bounded")
	}
	v := world.OK(w.nt, ls...)
	for o := range w.obs {
		v.Observations = append(v.Observations, o)
	}
	sort.Strings(v.Observations)
	return v
}

// runHistory drives one history. globalCrash >= 0 arms a crash at that absolute durable op of
// the whole history (counted on the first process life and its clean restarts).
// It returns the verdict and the number of durable ops a crash-free run performed.
func runHistory(sc Scenario, globalCrash int) (world.Verdict, int) {
	w := &wld{ctx: context.Background(), sc: sc, d: world.NewCrashDS(), labels: map[string]bool{}, obs: map[string]bool{}, cands: [][]int{{}}}
	w.d.QueryOrder = sc.QueryOrder
	if sc.QueryOrder != "" {
		w.labels["query-order:"+sc.QueryOrder] = true
	}
	for k, v := range bystanders {
		_ = w.d.Put(w.ctx, ds.NewKey(k), v)
	}
	base := w.d.Ops()
	if err := w.open(); err != nil {
		return world.Fail("C10/start-failed", "NewSequencer on an empty datastore failed: %v", err), 0
	}
	if globalCrash >= 0 {
		w.d.ArmCrashAfter(globalCrash)
	}
	first := w.d
	for i, op := range sc.Ops {
		var v *world.Verdict
		switch op.Kind {
		case "submit":
			v = w.submit(i, op)
		case "next":
			v = w.next(i, op, fmt.Sprintf("op %d (next)", i))
		case "restart":
			if op.SetBound {
				if op.NewBound > 0 && w.minLen() > op.NewBound {
					w.labels["restart-with-bound-below-backlog"] = true
				}
				w.sc.Bound = op.NewBound
				w.labels["bound-changed-at-restart"] = true
			}
			v = w.rebootFaulty("restart-op", op.ReadFaults)
		}
		if v != nil {
			return *v, 0
		}
	}
	if sc.FinalRestart {
		if v := w.reboot("restart-before-drain"); v != nil {
			return *v, 0
		}
	}
	// epilogue 1: drain — every accepted batch comes out, in order, and then nothing
	limit := 0
	for _, c := range w.cands {
		if len(c) > limit {
			limit = len(c)
		}
	}
	for k := 0; k <= limit+2; k++ {
		if v := w.next(-1, Op{}, fmt.Sprintf("drain step %d", k)); v != nil {
			return *v, 0
		}
		if w.lastEmpty {
			break
		}
	}
	for _, c := range w.cands {
		if len(c) != 0 {
			return world.Fail("C10/drain-incomplete", "after draining, the model still holds %s", w.showQueue(c)), 0
		}
	}
	// epilogue 2: nothing reappears after a restart
	if v := w.reboot("restart-after-drain"); v != nil {
		return *v, 0
	}
	if v := w.next(-1, Op{}, "after the drain and one more restart"); v != nil {
		return *v, 0
	}
	// the queue never touched keys that are not its own
	img := w.d.Image()
	for k, val := range bystanders {
		if got, ok := img[k]; !ok || !bytes.Equal(got, val) {
			return world.Fail("C10/foreign-key-touched", "key %s outside the queue prefix was modified or removed", k), 0
		}
	}
	total := 0
	if globalCrash < 0 {
		total = first.Ops() - base
	}
	return w.verdictOK(), total
}

// ---------------------------------------------------------------------------------------------
// checks
// ---------------------------------------------------------------------------------------------

func TestC10FifoModel(t *testing.T) {
	world.Run(t, "C10", "fifo-model", world.Scale(1500, 12000),
		func(rt *rapid.T) Scenario { return genHistory(rt, true, world.Scale(14, 40)) },
		func(sc Scenario) world.Verdict { v, _ := runHistory(sc, -1); return v })
}

// crash enumeration: the scenario is a crash-free history; every durable-op boundary is tried.
func runCrashEnum(sc Scenario) world.Verdict {
	v, total := runHistory(sc, -1)
	if v.Violation != "" {
		return v
	}
	labels := map[string]bool{}
	for _, l := range v.Labels {
		labels[l] = true
	}
	nt := false
	for k := 0; k < total; k++ {
		vk, _ := runHistory(sc, k)
		if vk.Violation != "" {
			vk.Violation = fmt.Sprintf("with a crash at durable op %d of %d: %s", k, total, vk.Violation)
			return vk
		}
		nt = nt || vk.NonTrivial
		for _, l := range vk.Labels {
			labels[l] = true
		}
	}
	ls := []string{}
	for l := range labels {
		ls = append(ls, l)
	}
	sort.Strings(ls)
	switch {
	case total == 0:
		ls = append(ls, "crash-points:0")
	case total < 5:
		ls = append(ls, "crash-points:1-4")
	default:
		ls = append(ls, "crash-points:>=5")
	}
	return world.OK(nt && total > 0, ls...)
}

func TestC10CrashEnum(t *testing.T) {
	world.Run(t, "C10", "crash-enum", world.Scale(400, 2500),
		func(rt *rapid.T) Scenario { return genHistory(rt, false, world.Scale(12, 30)) },
		runCrashEnum)
}

// ---------------------------------------------------------------------------------------------
// concurrent stage
// ---------------------------------------------------------------------------------------------

type ConcScenario struct {
	Bound       int     `json:"bound"`
	Submitters  [][]int `json:"submitters"`   // per submitter, per batch: 0 = unique contents, k>0 = shared contents "same-k"
	ConsumerLag int     `json:"consumer_lag"` // scheduler yields of the consumer between two calls
	Restart     bool    `json:"restart"`      // restart at quiescence (submitters done, consumer stopped) before the drain
}

func genConc(t *rapid.T) ConcScenario {
	var sc ConcScenario
	if rapid.IntRange(0, 2).Draw(t, "bk") > 0 {
		sc.Bound = rapid.IntRange(1, 5).Draw(t, "bound")
	}
	s := rapid.IntRange(1, 4).Draw(t, "S")
	for i := 0; i < s; i++ {
		n := rapid.IntRange(1, world.Scale(8, 30)).Draw(t, "n")
		items := make([]int, n)
		for j := range items {
			if rapid.IntRange(0, 3).Draw(t, "shared") == 0 {
				items[j] = rapid.IntRange(1, 2).Draw(t, "which")
			}
		}
		sc.Submitters = append(sc.Submitters, items)
	}
	sc.ConsumerLag = rapid.IntRange(0, 20).Draw(t, "lag")
	sc.Restart = rapid.Bool().Draw(t, "restart")
	return sc
}

func runConc(sc ConcScenario) world.Verdict {
	ctx := context.Background()
	d := world.NewCrashDS()
	chain := []byte("c10-conc")
	mk := func() (*single.Sequencer, error) {
		return single.NewSequencerWithQueueSize(ctx, logger, d, nil, chain, time.Second, nil, true, sc.Bound)
	}
	s, err := mk()
	if err != nil {
		return world.Fail("C10/start-failed", "NewSequencer on an empty datastore failed: %v", err)
	}
	content := func(i, j, kind int) []byte {
		if kind > 0 {
			return []byte(fmt.Sprintf("same-%d", kind))
		}
		return []byte(fmt.Sprintf("s%d-%03d", i, j))
	}
	want := map[string]int{}
	total := 0
	for i, items := range sc.Submitters {
		for j, k := range items {
			want[string(content(i, j, k))]++
			total++
		}
	}
	var wg sync.WaitGroup
	var done atomic.Int32
	var subErr atomic.Value
	var maxOutstanding, accepted, taken atomic.Int64
	for i, items := range sc.Submitters {
		wg.Add(1)
		go func(i int, items []int) {
			defer wg.Done()
			defer done.Add(1)
			for j, k := range items {
				for {
					_, err := s.SubmitBatchTxs(ctx, coresequencer.SubmitBatchTxsRequest{Id: chain, Batch: &coresequencer.Batch{Transactions: [][]byte{content(i, j, k)}}})
					if err == nil {
						accepted.Add(1)
						break
					}
					if !errors.Is(err, single.ErrQueueFull) {
						subErr.Store(fmt.Sprintf("submitter %d batch %d: %v", i, j, err))
						return
					}
					runtime.Gosched()
				}
			}
		}(i, items)
	}
	got := [][]byte{}
	var consErr string
	take := func() bool {
		// outstanding = accepted - taken, sampled before the call: it can only be over-estimated by
		// acceptances that completed, never by ones that did not, so it is a sound lower bound check
		r, err := s.GetNextBatch(ctx, coresequencer.GetNextBatchRequest{Id: chain})
		if err != nil {
			consErr = err.Error()
			return false
		}
		if r == nil || r.Batch == nil || len(r.Batch.Transactions) == 0 {
			return false
		}
		if len(r.Batch.Transactions) != 1 {
			consErr = fmt.Sprintf("batch with %d txs handed out, every submitted batch had 1", len(r.Batch.Transactions))
			return false
		}
		taken.Add(1)
		got = append(got, r.Batch.Transactions[0])
		return true
	}
	nsub := int32(len(sc.Submitters))
	for done.Load() < nsub && consErr == "" {
		// accepted is incremented after the call returned and taken after a hand-out, so
		// accepted-taken never over-counts what the queue held at some instant
		if o := accepted.Load() - taken.Load(); o > maxOutstanding.Load() {
			maxOutstanding.Store(o)
		}
		take()
		for y := 0; y < sc.ConsumerLag; y++ {
			runtime.Gosched()
		}
	}
	wg.Wait()
	if e := subErr.Load(); e != nil {
		v := world.OK(false, "submit-error")
		v.Observations = []string{"concurrent-submit-error-without-fault"}
		return v
	}
	if consErr != "" {
		return world.Fail("C10/concurrent-next-failed", "consumer: %s", consErr)
	}
	if o := accepted.Load() - taken.Load(); o > maxOutstanding.Load() {
		maxOutstanding.Store(o)
	}
	if sc.Bound > 0 && maxOutstanding.Load() > int64(sc.Bound) {
		return world.Fail("C10/bound-exceeded-concurrently", "%d accepted batches were outstanding at quiescence or between two consumer calls, bound %d", maxOutstanding.Load(), sc.Bound)
	}
	left := total - len(got)
	labels := []string{fmt.Sprintf("submitters:%d", len(sc.Submitters))}
	if sc.Restart {
		labels = append(labels, "restart-at-quiescence")
		if s, err = mk(); err != nil {
			return world.Fail("C10/restart-failed", "restart at quiescence failed: %v", err)
		}
	}
	for k := 0; k <= left+1; k++ {
		if !take() {
			break
		}
	}
	if consErr != "" {
		return world.Fail("C10/concurrent-next-failed", "drain: %s", consErr)
	}
	suffix := ""
	if sc.Restart {
		suffix = "-after-restart"
	}
	have := map[string]int{}
	for _, g := range got {
		have[string(g)]++
	}
	keys := []string{}
	for k := range want {
		keys = append(keys, k)
	}
	for k := range have {
		if _, ok := want[k]; !ok {
			keys = append(keys, k)
		}
	}
	sort.Strings(keys)
	for _, k := range keys {
		if have[k] != want[k] {
			return world.Fail("C10/concurrent-multiset"+suffix, "contents %q accepted %d times but handed out %d times (%d batches were still queued at quiescence, restart=%v)", k, want[k], have[k], left, sc.Restart)
		}
	}
	// per-submitter order of the uniquely identifiable batches
	last := map[byte]string{}
	for _, g := range got {
		if !bytes.HasPrefix(g, []byte("s")) || bytes.HasPrefix(g, []byte("same-")) {
			continue
		}
		who := g[1]
		if prev, ok := last[who]; ok && prev >= string(g) {
			return world.Fail("C10/concurrent-order"+suffix, "batches of one submitter handed out in the order %q, %q (%d batches were still queued at quiescence, restart=%v)", prev, g, left, sc.Restart)
		}
		last[who] = string(g)
	}
	if left >= 2 {
		labels = append(labels, "queued-at-quiescence>=2")
	}
	shared := 0
	for k, n := range want {
		if strings.HasPrefix(k, "same-") && n >= 2 {
			shared++
		}
	}
	if shared > 0 {
		labels = append(labels, "shared-contents")
	}
	nt := len(sc.Submitters) >= 2 && total >= 4 && ((sc.Restart && left >= 2) || shared > 0)
	return world.OK(nt, labels...)
}

func TestC10Concurrent(t *testing.T) {
	world.Run(t, "C10", "concurrent", world.Scale(300, 1500), genConc, runConc)
}
