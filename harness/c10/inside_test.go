package c10

import (
	"context"
	"fmt"
	"strings"
	"sync"
	"testing"
	"time"

	"pgregory.net/rapid"

	coresequencer "github.com/evstack/ev-node/core/sequencer"
	"github.com/evstack/ev-node/sequencers/single"

	"verif/harness/world"
)

// InsideScenario slips a submission into the middle of a GetNextBatch call: at the moment the call carries
// out its durable delete of the record it hands out, another goroutine submits a batch (interleaving
// injection at the datastore boundary). Whatever the order in which the two calls take effect, every accepted
// batch is handed out exactly once, in acceptance order, also after a restart.
type InsideScenario struct {
	DrainsBefore int  `json:"drains_before"` // complete submit+next rounds before (the queue has been empty that often)
	Queued       int  `json:"queued"`        // batches in the queue when the observed GetNextBatch is called (>= 1)
	Restart      bool `json:"restart"`       // restart before the final drain
	Bound        int  `json:"bound"`
}

func genInside(t *rapid.T) InsideScenario {
	return InsideScenario{
		DrainsBefore: rapid.IntRange(0, 3).Draw(t, "drains"),
		Queued:       rapid.IntRange(1, 3).Draw(t, "queued"),
		Restart:      rapid.IntRange(0, 3).Draw(t, "restart") != 0,
		Bound:        rapid.SampledFrom([]int{0, 0, 5}).Draw(t, "bound"),
	}
}

func runInside(sc InsideScenario) world.Verdict {
	ctx := context.Background()
	d := world.NewCrashDS()
	chain := []byte("c10-inside")
	mk := func() (*single.Sequencer, error) {
		return single.NewSequencerWithQueueSize(ctx, logger, d, nil, chain, time.Second, nil, true, sc.Bound)
	}
	s, err := mk()
	if err != nil {
		return world.Fail("C10/start-failed", "NewSequencer on an empty datastore failed: %v", err)
	}
	submit := func(name string) error {
		_, err := s.SubmitBatchTxs(ctx, coresequencer.SubmitBatchTxsRequest{Id: chain, Batch: &coresequencer.Batch{Transactions: [][]byte{[]byte(name)}}})
		return err
	}
	next := func() (string, error) {
		r, err := s.GetNextBatch(ctx, coresequencer.GetNextBatchRequest{Id: chain})
		if err != nil {
			return "", err
		}
		if r == nil || r.Batch == nil || len(r.Batch.Transactions) == 0 {
			return "", nil
		}
		return string(r.Batch.Transactions[0]), nil
	}
	for i := 0; i < sc.DrainsBefore; i++ {
		name := fmt.Sprintf("early-%d", i)
		if err := submit(name); err != nil {
			return world.Fail("C10/inside/submit-failed", "submit %s: %v", name, err)
		}
		if got, err := next(); err != nil || got != name {
			return world.Fail("C10/inside/early-round", "round %d: handed out %q, err=%v, want %q", i, got, err, name)
		}
	}
	want := []string{}
	for i := 0; i < sc.Queued; i++ {
		name := fmt.Sprintf("queued-%d", i)
		if err := submit(name); err != nil {
			return world.Fail("C10/inside/submit-failed", "submit %s: %v", name, err)
		}
		want = append(want, name)
	}
	var once sync.Once
	subDone := make(chan error, 1)
	d.SetMutateHook(func(kind string, keys []string) {
		if kind != "delete" || len(keys) == 0 || !strings.HasPrefix(keys[0], queuePrefix) {
			return
		}
		once.Do(func() {
			go func() { subDone <- submit("inside") }()
			// give the submission the chance to run to completion inside the window; if the queue is locked for
			// the whole call it simply waits and completes afterwards
			select {
			case err := <-subDone:
				subDone <- err
			case <-time.After(20 * time.Millisecond):
			}
		})
	})
	first, err := next()
	d.SetMutateHook(nil)
	if err != nil {
		return world.Fail("C10/inside/next-failed", "GetNextBatch with a concurrent submission failed: %v", err)
	}
	var insideErr error
	select {
	case insideErr = <-subDone:
	case <-time.After(5 * time.Second):
		return world.Fail("C10/inside/submit-hangs", "the submission slipped into GetNextBatch has not returned 5 s after GetNextBatch did")
	}
	if insideErr != nil {
		return world.Fail("C10/inside/submit-failed", "the submission slipped into GetNextBatch failed: %v", insideErr)
	}
	want = append(want, "inside")
	got := []string{first}
	labels := []string{fmt.Sprintf("queue-was-empty-%d-times-before", sc.DrainsBefore)}
	if sc.Restart {
		labels = append(labels, "restart-before-drain")
		if s, err = mk(); err != nil {
			return world.Fail("C10/restart-failed", "restart failed: %v", err)
		}
	}
	for k := 0; k < len(want)+2; k++ {
		g, err := next()
		if err != nil {
			return world.Fail("C10/inside/next-failed", "drain: %v", err)
		}
		if g == "" {
			break
		}
		got = append(got, g)
	}
	if strings.Join(got, ",") != strings.Join(want, ",") {
		return world.Fail("C10/inside/lost-or-reordered", "accepted, in this order: %v; handed out: %v (the last one was accepted while GetNextBatch was deleting the record of the batch it handed out; restart before the drain: %v)", want, got, sc.Restart)
	}
	return world.OK(sc.Restart, labels...)
}

// TestC10SubmitInsideNext: a submission that takes effect in the middle of a GetNextBatch call.
func TestC10SubmitInsideNext(t *testing.T) {
	world.Run(t, "C10", "submit-inside-next", world.Scale(40, 200), genInside, runInside)
}
