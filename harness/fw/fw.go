// Package fw is the full-node (sync) world shared by C02, C03, C05, C07 (full-node half), C09 and
// C13: a chain made by the REAL producer and published by the REAL submission loops (so the DA
// blobs are the bytes a node really publishes), and a real non-aggregator Manager whose
// unmodified SyncLoop / RetrieveLoop / store-retrieve loops / DAIncluderLoop run inside a
// testing/synctest bubble. All functions must be called inside the bubble on its root goroutine.
package fw

import (
	"bytes"
	"context"
	"fmt"
	"sync"
	"testing/synctest"
	"time"

	"google.golang.org/protobuf/proto"

	"github.com/evstack/ev-node/block"
	"github.com/evstack/ev-node/types"
	pb "github.com/evstack/ev-node/types/pb/evnode/v1"

	"verif/harness/pw"
	"verif/harness/sw"
	"verif/harness/world"
)

// ChainBlock is one block of the proposer's chain with the bytes it was published as.
type ChainBlock struct {
	Height     uint64
	Empty      bool
	HeaderBlob []byte
	DataBlob   []byte // nil for empty blocks
	HeaderHash []byte
	Txs        [][]byte
	AppHash    []byte // root before the block
	RootAfter  []byte
	Time       uint64
}

// Chain is the proposer's chain.
type Chain struct {
	Opts   world.NodeOpts
	P      *pw.Producer
	Blocks []ChainBlock // index 0 = initial height
}

// At returns the block at height h.
func (c *Chain) At(h uint64) *ChainBlock {
	i := int(h - c.Opts.InitialHeight)
	if h < c.Opts.InitialHeight || i >= len(c.Blocks) {
		return nil
	}
	return &c.Blocks[i]
}

// Top is the highest height of the chain.
func (c *Chain) Top() uint64 { return c.Opts.InitialHeight + uint64(len(c.Blocks)) - 1 }

// BuildChain produces a chain with the real producer and lets the real submission loops publish it.
func BuildChain(o world.NodeOpts, steps []pw.Step) (*Chain, error) {
	w, err := sw.New(o)
	if err != nil {
		return nil, err
	}
	defer w.Stop()
	for i, st := range steps {
		r := w.Produce(st)
		if r.Panic != nil || r.After != r.Before+1 {
			return nil, fmt.Errorf("chain step %d did not commit a block (err=%v panic=%v)", i, r.Err, r.Panic)
		}
	}
	w.Tick(3)
	bs, err := w.Blocks()
	if err != nil {
		return nil, err
	}
	views, pr := world.CheckChain(w.P.Ctx, w.P.N.Spec(w.P.Exec.GenesisRoot(), nil, true))
	if pr != nil {
		return nil, fmt.Errorf("producer chain invalid: %s", pr.Msg)
	}
	c := &Chain{Opts: w.P.Opts, P: w.P}
	dec := w.DecodeStored()
	for i, b := range bs {
		cb := ChainBlock{Height: b.Height, Empty: b.Empty, HeaderHash: b.Header.Hash(), Time: b.Header.BaseHeader.Time,
			Txs: views[i].Txs, AppHash: views[i].AppHash, RootAfter: views[i].RootAfter}
		for _, d := range dec {
			if d.Kind == "header" && cb.HeaderBlob == nil && bytes.Equal(d.Header.Hash(), cb.HeaderHash) {
				cb.HeaderBlob = d.Raw
			}
			if d.Kind == "data" && !b.Empty && cb.DataBlob == nil && d.Data.Height() == b.Height {
				cb.DataBlob = d.Raw
			}
		}
		if cb.HeaderBlob == nil || (!b.Empty && cb.DataBlob == nil) {
			return nil, fmt.Errorf("block %d was not published by the submission loops", b.Height)
		}
		c.Blocks = append(c.Blocks, cb)
	}
	return c, nil
}

// DecodeHeader decodes a header blob exactly as the retriever does.
func DecodeHeader(bz []byte) (*types.SignedHeader, error) {
	var hp pb.SignedHeader
	if err := proto.Unmarshal(bz, &hp); err != nil {
		return nil, err
	}
	h := new(types.SignedHeader)
	if err := h.FromProto(&hp); err != nil {
		return nil, err
	}
	return h, nil
}

// DecodeData decodes a signed-data blob exactly as the retriever does.
func DecodeData(bz []byte) (*types.SignedData, error) {
	var sd types.SignedData
	if err := sd.UnmarshalBinary(bz); err != nil {
		return nil, err
	}
	return &sd, nil
}

// Full is a real non-aggregator node.
type Full struct {
	Chain  *Chain
	N      *world.Node
	Raw    *world.CrashDS
	Exec   *world.ExecDbl
	DA     *world.DADbl
	Opts   world.NodeOpts
	cancel context.CancelFunc
	wg     *sync.WaitGroup
	ErrCh  chan error
	Errors []string
	loops  []string
	// MaxHeight is the highest chain height observed (monotonicity).
	MaxHeight uint64
	// MaxDAIncluded is the highest DA-included height observed.
	MaxDAIncluded uint64
	Restarts      int
	CrashRestarts int
	stopped       bool
}

// NewFull builds a full node for the chain on a fresh datastore.
func NewFull(c *Chain, rootDir string, da *world.DADbl) (*Full, error) {
	o := c.Opts
	o.Aggregator = false
	o.RootDir = rootDir
	o.MaxPending = 0
	f := &Full{Chain: c, Raw: world.NewCrashDS(), Exec: world.NewExecDbl("pw"), DA: da, Opts: o}
	if f.DA == nil {
		f.DA = world.NewDADbl(0)
	}
	if o.RefExec {
		f.Exec.Ref = world.NewKVRef(f.Raw)
	}
	n, err := world.NewNode(context.Background(), o, f.Raw, nil, c.P.N.PubKey, f.Exec, world.NewSeqDbl(func() time.Time { return pw.GenesisTime }), f.DA)
	if err != nil {
		return nil, err
	}
	f.N = n
	f.Exec.Sampler = func() uint64 { return f.N.M.GetDAIncludedHeight() }
	return f, nil
}

// Start launches the named loops: sync, retrieve, hstore, dstore, includer.
func (f *Full) Start(loops ...string) {
	f.loops = loops
	ctx, cancel := context.WithCancel(context.Background())
	f.cancel = cancel
	f.wg = &sync.WaitGroup{}
	f.ErrCh = make(chan error, 8)
	f.stopped = false
	m := f.N.M
	errCh := f.ErrCh
	// a panic inside a loop would take the whole node down: it is reported like a loop error
	guard := func(name string, fn func()) {
		defer f.wg.Done()
		defer func() {
			if r := recover(); r != nil {
				select {
				case errCh <- fmt.Errorf("panic in %s: %v", name, r):
				default:
				}
			}
		}()
		fn()
	}
	for _, l := range loops {
		f.wg.Add(1)
		switch l {
		case "sync":
			go guard("SyncLoop", func() { m.SyncLoop(ctx, errCh) })
		case "retrieve":
			go guard("RetrieveLoop", func() { m.RetrieveLoop(ctx) })
		case "hstore":
			go guard("HeaderStoreRetrieveLoop", func() { m.HeaderStoreRetrieveLoop(ctx) })
		case "dstore":
			go guard("DataStoreRetrieveLoop", func() { m.DataStoreRetrieveLoop(ctx) })
		case "includer":
			go guard("DAIncluderLoop", func() { m.DAIncluderLoop(ctx, errCh) })
		default:
			f.wg.Done()
		}
	}
	synctest.Wait()
}

func (f *Full) drain() {
	for {
		select {
		case e := <-f.ErrCh:
			if e != nil {
				f.Errors = append(f.Errors, e.Error())
			}
		default:
			return
		}
	}
}

// Stop cancels and joins the loops.
func (f *Full) Stop() {
	if f.stopped || f.cancel == nil {
		return
	}
	f.stopped = true
	f.cancel()
	f.wg.Wait()
	// errors reported after cancellation are shutdown noise
	for {
		select {
		case <-f.ErrCh:
		default:
			return
		}
	}
}

// Quiesce waits until every goroutine of the bubble is durably blocked and records observations.
func (f *Full) Quiesce() {
	synctest.Wait()
	f.drain()
	f.Observe()
}

// Tick advances virtual time by n DA block times (+1 ms each), waiting for quiescence after each.
func (f *Full) Tick(n int) {
	for i := 0; i < n; i++ {
		time.Sleep(f.Opts.DABlockTime + time.Millisecond)
		synctest.Wait()
	}
	f.drain()
	f.Observe()
}

// Observe samples height and DA-included height.
func (f *Full) Observe() *world.Problem {
	h, err := f.N.Store.Height(context.Background())
	if err != nil {
		return nil
	}
	if h < f.MaxHeight {
		return &world.Problem{Sig: "height-decreased", Msg: fmt.Sprintf("chain height went from %d to %d", f.MaxHeight, h)}
	}
	f.MaxHeight = h
	if v := f.N.M.GetDAIncludedHeight(); v > f.MaxDAIncluded {
		f.MaxDAIncluded = v
	}
	return nil
}

// PushHeader delivers a header event (freshly decoded from the published bytes) to SyncLoop.
func (f *Full) PushHeader(blob []byte, daHeight uint64) error {
	h, err := DecodeHeader(blob)
	if err != nil {
		return err
	}
	f.N.M.VerifHeaderInCh() <- block.NewHeaderEvent{Header: h, DAHeight: daHeight}
	return nil
}

// PushData delivers a data event (freshly decoded from the published bytes) to SyncLoop.
func (f *Full) PushData(blob []byte, daHeight uint64) error {
	sd, err := DecodeData(blob)
	if err != nil {
		return err
	}
	f.N.M.VerifDataInCh() <- block.NewDataEvent{Data: &sd.Data, DAHeight: daHeight}
	return nil
}

// Restart stops the node (cleanly: caches saved; crash: process death, nothing saved) and starts a
// new Manager on the persisted image with the same loops.
func (f *Full) Restart(clean bool) error {
	if !clean {
		f.Raw.Kill()
		f.DA.SetDeadFn(f.Raw.Dead)
		f.Exec.SetDeadFn(f.Raw.Dead)
	}
	f.Stop()
	if clean {
		if err := f.N.M.SaveCache(); err != nil {
			return fmt.Errorf("SaveCache: %w", err)
		}
	}
	return f.RestartOn(world.FromImage(f.Raw.Image()), clean)
}

// RestartOn starts a new Manager on the given datastore.
func (f *Full) RestartOn(raw *world.CrashDS, clean bool) error {
	f.DA.SetDeadFn(nil)
	f.Exec.SetDeadFn(nil)
	if !clean {
		f.Errors = nil // what the dying process reported is not the new process's error
	}
	f.Raw = raw
	if f.Opts.RefExec {
		f.Exec.Ref = world.NewKVRef(raw) // the executor's database is part of what survived
	}
	n, err := f.N.Restart(context.Background(), raw, nil, f.Exec, world.NewSeqDbl(func() time.Time { return pw.GenesisTime }), f.DA)
	if err != nil {
		return err
	}
	f.N = n
	f.Restarts++
	if !clean {
		f.CrashRestarts++
	}
	if len(f.loops) > 0 {
		f.Start(f.loops...)
	}
	return nil
}

func pr(sig, format string, a ...any) *world.Problem {
	return &world.Problem{Sig: sig, Msg: fmt.Sprintf(format, a...)}
}

// CheckPrefix checks that every block the full node has up to its height equals the proposer's
// (header hash, transaction list, state roots), that its recorded state matches, and that the
// execution layer was asked to execute exactly the proposer's blocks in order.
func (f *Full) CheckPrefix(when string, execOnce bool) *world.Problem {
	ctx := context.Background()
	h, err := f.N.Store.Height(ctx)
	if err != nil {
		return pr("height-read", "%s: %v", when, err)
	}
	c := f.Chain
	if h > c.Top() {
		return pr("beyond-proposer", "%s: full node height %d exceeds the proposer's chain %d", when, h, c.Top())
	}
	for i := c.Opts.InitialHeight; i <= h; i++ {
		cb := c.At(i)
		hdr, data, err := f.N.Store.GetBlockData(ctx, i)
		if err != nil {
			return pr("missing-block", "%s: full node height is %d but block %d is not retrievable: %v", when, h, i, err)
		}
		if !bytes.Equal(hdr.Hash(), cb.HeaderHash) {
			return pr("header-differs", "%s: block %d header hash %x differs from the proposer's %x", when, i, hdr.Hash(), cb.HeaderHash)
		}
		got := make([][]byte, len(data.Txs))
		for j, tx := range data.Txs {
			got[j] = tx
		}
		if !world.EqTxs(got, cb.Txs) {
			return pr("txs-differ", "%s: block %d transactions differ from the proposer's", when, i)
		}
		if !bytes.Equal(hdr.AppHash, cb.AppHash) {
			return pr("root-differs", "%s: block %d app hash differs from the proposer's", when, i)
		}
	}
	if h >= c.Opts.InitialHeight {
		st, err := f.N.Store.GetState(ctx)
		if err != nil {
			return pr("state-read", "%s: %v", when, err)
		}
		cb := c.At(h)
		if st.LastBlockHeight != h {
			return pr("state-height", "%s: recorded state is for height %d, chain height is %d", when, st.LastBlockHeight, h)
		}
		if !bytes.Equal(st.AppHash, cb.RootAfter) || uint64(st.LastBlockTime.UnixNano()) != cb.Time {
			return pr("state-differs", "%s: recorded state at height %d differs from the proposer's (root %x vs %x)", when, h, st.AppHash, cb.RootAfter)
		}
	}
	// execution calls: the proposer's blocks in height order
	next := c.Opts.InitialHeight
	for _, call := range f.Exec.CallsOf("exec") {
		if call.Err != "" {
			continue
		}
		if execOnce {
			if call.Height != next {
				return pr("exec-order", "%s: ExecuteTxs called for height %d, expected %d", when, call.Height, next)
			}
		} else if call.Height > next || call.Height+1 < next {
			return pr("exec-order", "%s: ExecuteTxs called for height %d, expected %d (or a re-execution of %d)", when, call.Height, next, next-1)
		}
		cb := c.At(call.Height)
		if cb == nil || !world.EqTxs(call.Txs, cb.Txs) || !bytes.Equal(call.Prev, cb.AppHash) {
			return pr("exec-args", "%s: ExecuteTxs for height %d was called with other transactions / previous root than the proposer's block", when, call.Height)
		}
		next = call.Height + 1
	}
	if h >= c.Opts.InitialHeight && next < h+1 {
		return pr("exec-missing", "%s: chain height %d but the execution layer was only asked to execute up to %d", when, h, next-1)
	}
	if len(f.Errors) > 0 {
		return pr("sync-stopped", "%s: a sync loop stopped with an error: %s", when, f.Errors[0])
	}
	return nil
}
